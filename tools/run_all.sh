#!/bin/bash
# Development tool: run every claimed check (quick by default) against /repo and print one line per property.
#   tools/run_all.sh [quick|thorough] [seed] [--scratch-evidence]
TIER="${1:-quick}"; SEED="${2:-1}"; SCR="${3:-}"
cd /verif
if [ -n "$(git -C /repo status --porcelain)" ]; then echo "/repo is dirty"; exit 3; fi
for id in C01 C02 C03 C04 C05 C06 C07 C08 C09 C10 C11 C12 C13 C14 C15 C16 C17 C18 C19 C20; do
  t0=$(date +%s)
  if [ -n "$SCR" ]; then extra="--evidence-path /tmp/ev-scratch-$id.json"; else extra=""; fi
  out=$(VERIF_SEED=$SEED ./check $id $TIER $extra 2>&1); rc=$?
  t1=$(date +%s)
  echo "$id tier=$TIER seed=$SEED exit=$rc $((t1-t0))s :: $(echo "$out" | grep -E '^\[C' | tail -1) $(echo "$out" | grep -c '^KNOWN-FINDING') known-lines $(echo "$out" | grep -E '^VIOLATION|^INCONCLUSIVE' | head -3 | tr '\n' ';')"
done
