#!/bin/bash
# Development tool (not a registered check): confirm a seeded mutant independently in a scratch worktree and then
# run the /verif checks against it.
#   tools/try_mutant.sh <PROPERTY-ID> <deliver-dir> <A|B|...> [check ids to run, default: the property]
# Steps:
#   1. scratch worktree of /repo HEAD under /tmp/confirm-wt (shared target dir /tmp/confirm-target): apply patch,
#      run the pinned suite (must pass, with and without compiled_data), run the demo (must FAIL), revert, run the
#      demo (must PASS).
#   2. git -C /repo apply <patch>; ./check <ID> quick for each listed id; git -C /repo checkout -- .
# VCHECK=/tmp/verif-snap/check runs the checks from a snapshot worktree of /verif (so that edits in /verif do not
# disturb a batch); evidence of these runs goes to seeded/<ID>/<L>/evidence_<check>.json, never to /verif/evidence.
# Result is appended to /verif/seeded/<ID>/<letter>/ (patch.diff, demo.rs, meta.json, verdict.json).
set -u
ID="$1"; DDIR="$2"; L="$3"; shift 3
CHECKS=("$@"); [ ${#CHECKS[@]} -eq 0 ] && CHECKS=("$ID")
l=$(echo "$L" | tr 'A-Z' 'a-z')
PATCH="$DDIR/mutant$L.diff"; DEMO="$DDIR/demo$L.rs"; META="$DDIR/meta$L.json"
[ -f "$PATCH" ] || { echo "no patch $PATCH"; exit 3; }
export CARGO_NET_OFFLINE=true
WT=/tmp/confirm-wt-$ID$L
export CARGO_TARGET_DIR=/tmp/confirm-target${SLOT:-}
PHASE=${PHASE:-both}
OUT=/verif/seeded/$ID/$L
mkdir -p "$OUT"
cp "$PATCH" "$OUT/patch.diff"; cp "$DEMO" "$OUT/demo.rs"; cp "$META" "$OUT/meta.json"

demo_loc=$(python3 -c "import json,sys;print((json.load(open('$META')).get('demo_location') or 'tests/demo_$l.rs').split()[0])")
case "$demo_loc" in temporal_capi/*) demo_pkg="-p temporal_capi"; demo_feat="";; *) demo_pkg=""; demo_feat="--features compiled_data";; esac
if grep -q "verif_hooks" "$DEMO" && [ -z "$demo_pkg" ]; then demo_feat="--features compiled_data,verif_hooks"; fi
demo_name=$(basename "$demo_loc" .rs)

confirm_applies=no; suite=unknown; suite_cd=unknown; demo_with=unknown; demo_without=unknown
if [ "$PHASE" = check ] && [ -f "$OUT/confirm.env" ]; then
  . "$OUT/confirm.env"
else
git -C /repo worktree remove --force "$WT" 2>/dev/null; rm -rf "$WT"
git -C /repo worktree add -q --detach "$WT" HEAD || exit 3
cd "$WT"
if git apply --check "$PATCH" 2>/dev/null; then
  confirm_applies=yes
  git apply "$PATCH"
  mkdir -p "$(dirname "$demo_loc")"; cp "$DEMO" "$demo_loc"
  # demo with mutant: must fail
  if cargo test --offline -j 8 $demo_pkg $demo_feat --test "$demo_name" >"$OUT/demo_with.log" 2>&1; then demo_with=passed; else
     if grep -q "test result: FAILED" "$OUT/demo_with.log"; then demo_with=failed; else demo_with=build-error; fi; fi
  mv "$demo_loc" /tmp/demo-$ID$L.rs
  if cargo test --workspace --no-fail-fast --offline -j 8 >"$OUT/suite.log" 2>&1; then suite=passed; else suite=failed; fi
  if cargo test --workspace --no-fail-fast --offline -j 8 --features compiled_data >"$OUT/suite_cd.log" 2>&1; then suite_cd=passed; else suite_cd=failed; fi
  git checkout -q -- .
  cp /tmp/demo-$ID$L.rs "$demo_loc"; rm -f /tmp/demo-$ID$L.rs
  if cargo test --offline -j 8 $demo_pkg $demo_feat --test "$demo_name" >"$OUT/demo_without.log" 2>&1; then demo_without=passed; else demo_without=failed; fi
  rm -f "$demo_loc"
fi
cd /verif
git -C /repo worktree remove --force "$WT" 2>/dev/null; rm -rf "$WT"
fi
cat > "$OUT/confirm.env" <<EOF2
confirm_applies=$confirm_applies; suite=$suite; suite_cd=$suite_cd; demo_with=$demo_with; demo_without=$demo_without
EOF2
for f in suite.log suite_cd.log demo_with.log demo_without.log; do [ -f "$OUT/$f" ] && { grep -E "^test result|^test .* (FAILED|failed)|panicked at|error(\[|:)" "$OUT/$f" | head -20 > "$OUT/$f.short"; rm -f "$OUT/$f"; }; done
echo "confirm: applies=$confirm_applies suite=$suite suite_compiled_data=$suite_cd demo_with_mutant=$demo_with demo_without=$demo_without"

caught="{}"
if [ "$PHASE" = confirm ]; then exit 0; fi
if [ "$confirm_applies" = yes ] && [ "$suite" = passed ] && [ "$suite_cd" = passed ] && [ "$demo_with" = failed ] && [ "$demo_without" = passed ]; then
  if [ -n "$(git -C /repo status --porcelain)" ]; then echo "/repo is dirty, refusing"; exit 3; fi
  git -C /repo apply "$PATCH" || exit 3
  res=""
  for c in "${CHECKS[@]}"; do
    t0=$(date +%s)
    VERIF_SEED=${VERIF_SEED:-1} "${VCHECK:-/verif/check}" "$c" quick --evidence-path "$OUT/evidence_$c.json" > "$OUT/check_$c.log" 2>&1; rc=$?
    t1=$(date +%s)
    v=$(grep -m3 "^VIOLATION" "$OUT/check_$c.log" | tr '\n' ';')
    echo "check $c quick: exit=$rc $((t1-t0))s $v"
    # keep first replay for reference
    rp=$(grep -m1 "^VIOLATION" "$OUT/check_$c.log" | sed -n 's/.*replay=\(.*\)$/\1/p')
    [ -n "$rp" ] && [ -f "$rp" ] && cp "$rp" "$OUT/replay_$c.json"
    res="$res\"$c\": {\"exit\": $rc, \"seconds\": $((t1-t0)), \"violation_lines\": $(grep -c '^VIOLATION' "$OUT/check_$c.log")},"
    tail -3 "$OUT/check_$c.log" > "$OUT/check_$c.tail"; grep "^VIOLATION" "$OUT/check_$c.log" | head -5 >> "$OUT/check_$c.tail"; rm -f "$OUT/check_$c.log"
  done
  git -C /repo checkout -- .
  caught="{${res%,}}"
fi
cat > "$OUT/verdict.json" <<EOF
{"property": "$ID", "mutant": "$L", "repo_head": "$(git -C /repo rev-parse --short HEAD)",
 "confirmation": {"patch_applies": "$confirm_applies", "pinned_suite_with_mutant": "$suite", "suite_compiled_data_with_mutant": "$suite_cd", "demo_with_mutant": "$demo_with", "demo_without_mutant": "$demo_without"},
 "checks_quick": $caught}
EOF
cat "$OUT/verdict.json"
