#!/bin/bash
# Development tool: re-run the quick check of the home property against every stored seeded change and rewrite the
# home entry of its verdict.json.  tools/recheck_seeded.sh [letters, default "A B C D E F G H I J"]
# Uses the snapshot worktree /tmp/verif-snap (refresh it first: git -C /tmp/verif-snap checkout --detach <HEAD>).
LET="${*:-A B C D E F G H I J}"
# IDS="C03 C14" restricts the run to some properties
cd /verif
for d in seeded/C*/; do
  id=$(basename "$d")
  if [ -n "${IDS:-}" ] && ! echo " $IDS " | grep -q " $id "; then continue; fi
  for L in $LET; do
    p="seeded/$id/$L/patch.diff"; [ -f "$p" ] || continue
    # a change whose original patch no longer applies after a later repair of /repo is kept re-based
    [ -f "seeded/$id/$L/patch_rebased.diff" ] && p="seeded/$id/$L/patch_rebased.diff"
    if [ -n "$(git -C /repo status --porcelain)" ]; then echo "/repo dirty"; exit 3; fi
    if ! git -C /repo apply --check "/verif/$p" 2>/dev/null; then echo "$id/$L patch-does-not-apply"; continue; fi
    git -C /repo apply "/verif/$p"
    t0=$(date +%s)
    out=$(VERIF_SEED=1 /tmp/verif-snap/check "$id" quick --evidence-path "/verif/seeded/$id/$L/evidence_$id.json" 2>&1); rc=$?
    t1=$(date +%s)
    git -C /repo checkout -- .
    nv=$(echo "$out" | grep -c '^VIOLATION')
    echo "$id/$L exit=$rc $((t1-t0))s violations=$nv"
    python3 - "$id" "$L" "$rc" "$((t1-t0))" "$nv" <<'PY'
import json,sys
pid,L,rc,sec,nv=sys.argv[1:6]
p=f'/verif/seeded/{pid}/{L}/verdict.json'
v=json.load(open(p))
v.setdefault('checks_quick',{})
if not isinstance(v['checks_quick'],dict): v['checks_quick']={}
v['checks_quick'][pid]={"exit":int(rc),"seconds":int(sec),"violation_lines":int(nv)}
json.dump(v,open(p,'w'),indent=1)
PY
  done
done
