#!/usr/bin/env python3
"""Regenerates /verif/MANIFEST.json from the claims table below (kept valid at all times)."""
import json, subprocess

props = [json.loads(l) for l in open('/verif/properties.jsonl')]

def hook_commits():
    out = subprocess.run(['git', '-C', '/repo', 'log', '--format=%h %s'], capture_output=True, text=True).stdout
    return [l.split()[0] for l in out.splitlines() if 'verif_hooks' in l]

CLAIMS = {
 "C01": dict(cat="exploration",
   text="Complete enumeration of all 2.0e8 days of the supported range (plus days beyond each end) against a day-by-day odometer oracle: constructor limits, every date getter, raw kernel both directions; neighbour arithmetic and UTC-instant round trips on every boundary day (quick) or every day (thorough); all 547582 years; generated pairs for distances and ordering. The space of single days is finite and enumerated completely; pairs are sampled.",
   note="trusted: the odometer oracle (anchored at 1970-01-01 = Thursday, cross-checked against a closed form at selftest); pairs of days are sampled, not enumerated",
   tech="exhaustive enumeration against an odometer oracle + proptest pairs", ref="DESIGN.md section 6 C01"),
 "C07": dict(cat="exploration",
   text="Exhaustive grid sweep of the internal increment rounder (both instantiations, via verif_hooks) against exact rational rounding, plus millions of generated public calls (round, until/since with smallestUnit/increment/mode, toString precision on all types) with values placed on multiples, ties and tie+-1 for every admissible (unit, increment, mode). Differential against a 10-line exact integer oracle plus the mode-free neighbour invariant.",
   note="trusted: refm::round (cross-checked against brute-force search at selftest); epoch-line values use Temporal's round-as-if-positive, times of day use RoundTime's parent-unit quantity (only halfEven parity differs from a count from midnight)",
   tech="exhaustive small-space sweep + proptest differential against exact integer rounding", ref="DESIGN.md section 6 C07"),
}

def chk(pid, c):
    return {"property_id": pid, "quick_cmd": f"./check {pid} quick", "thorough_cmd": f"./check {pid} thorough",
            "evidence_file": f"/verif/evidence/{pid}.json", "replay_cmd_template": f"./check {pid} --replay {{path}}",
            "engine": "tverif", "level_claimed": {"category": c["cat"], "text": c["text"], "design_ref": c["ref"]},
            "level_note": c["note"], "technique": c["tech"]}

import importlib.util, os
extra = '/verif/tools/claims_extra.json'
if os.path.exists(extra):
    CLAIMS.update(json.load(open(extra)))

m = {"version": 1,
     "setup_cmd": "./check build && ./harness/target-checked/checked/tverif selftest",
     "hooks": {"guard": "cargo feature verif_hooks", "enable": "the harness crate depends on /repo by path with features compiled_data,verif_hooks",
               "baseline_off_cmd": "cd /repo && cargo test --workspace --no-fail-fast --offline",
               "source_commits": hook_commits(), "add_only": True},
     "engines": [{"name": "tverif", "path": "/verif/harness", "serves_properties": sorted(CLAIMS),
                  "kind_free_text": "Rust binary: proptest runners (fixed seeds, shrinking, replay files), exhaustive parallel sweeps, reference models in exact integer arithmetic"}],
     "checks": [chk(p, CLAIMS[p]) for p in sorted(CLAIMS)],
     "notes": "See DESIGN.md. Exit codes: 0 held (possibly with KNOWN-FINDING lines), 1 VIOLATION, 2 inconclusive (build failure, watchdog, time limit).",
     "not_applicable": [{"property_id": p['id'], "reason": "check not built yet in this session (work in progress, DESIGN.md Appendix D build order); generated-input search applies and the property will be claimed once its check is sound"} for p in props if p['id'] not in CLAIMS]}
json.dump(m, open('/verif/MANIFEST.json', 'w'), indent=1)
print("claimed:", sorted(CLAIMS))
