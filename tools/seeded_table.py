#!/usr/bin/env python3
"""Markdown table of the seeded changes under /verif/seeded (from meta.json + verdict.json)."""
import json, glob, os, sys
rows = []
for d in sorted(glob.glob('/verif/seeded/C*/*/')):
    try:
        meta = json.load(open(d + 'meta.json'))
        ver = json.load(open(d + 'verdict.json'))
    except Exception as e:
        continue
    pid, letter = d.rstrip('/').split('/')[-2:]
    conf = ver['confirmation']
    confirmed = (conf['patch_applies'] == 'yes' and conf['pinned_suite_with_mutant'] == 'passed' and conf['suite_compiled_data_with_mutant'] == 'passed'
                 and conf['demo_with_mutant'] == 'failed' and conf['demo_without_mutant'] == 'passed')
    checks = ver.get('checks_quick', {})
    def word(v):
        return 'caught' if v['exit'] == 1 else ('not caught' if v['exit'] == 0 else 'exit ' + str(v['exit']))
    home = checks.get(pid)
    res = (f"{pid}: {word(home)} ({home['seconds']} s)" if home else f"{pid}: not run")
    others = [f"{k} {word(v)}" for k, v in checks.items() if k != pid]
    if others:
        res += '; neighbouring checks tried in the first run of this change: ' + ', '.join(others)
    title = meta.get('title', '').replace('|', '/')
    files = ', '.join(os.path.basename(f) for f in meta.get('files_touched', []))
    needs = meta.get('needs_to_manifest', '').replace('|', '/').replace('\n', ' ')
    if len(needs) > 230:
        needs = needs[:227] + '...'
    if ver.get('note'):
        res += ' - ' + ver['note']
    rows.append((pid, letter, title, files, needs, 'yes' if confirmed else 'NO: ' + json.dumps(conf), res))
print('| change | what was changed (file) | needs, to manifest | confirmed | quick check of the home property (current machinery) |')
print('|---|---|---|---|---|')
for r in rows:
    print(f'| {r[0]}/{r[1]} | {r[2]} ({r[3]}) | {r[4]} | {r[5]} | {r[6]} |')
