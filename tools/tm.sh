#!/bin/bash
# dev aid: apply one stored seeded change to /repo, run one quick check, revert.  tools/tm.sh <ID> <LETTER> [check-id] [seed]
id=$1; l=$2; chk=${3:-$1}; seed=${4:-1}
[ -n "$(git -C /repo status --porcelain)" ] && { echo "/repo DIRTY"; exit 3; }
p=/verif/seeded/$id/$l/patch.diff; [ -f /verif/seeded/$id/$l/patch_rebased.diff ] && p=/verif/seeded/$id/$l/patch_rebased.diff
git -C /repo apply $p || { echo "apply failed $id/$l"; exit 3; }
mkdir -p /tmp/fz
VERIF_SEED=$seed /verif/check $chk quick --evidence-path /tmp/fz/e.json 2>&1 | grep -E "^VIOLATION|evaluations=" | head -2 | cut -c1-230 | tr '\n' ' '; echo " <= $id/$l by $chk"
git -C /repo checkout -- .
