#![no_main]
// One binary for every target: TVERIF_FUZZ_TARGET selects it (see harness/src/fuzz.rs).
use libfuzzer_sys::fuzz_target;
fuzz_target!(|data: &[u8]| tverif::fuzz::entry(data));
