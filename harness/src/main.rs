//! tverif: property-based verification harness for temporal_rs.
//! usage: tverif <ID|selftest> [quick|thorough] [--replay <file>] [--no-evidence]

use tverif::{props, run};
use run::{Ctx, Tier};

fn main() {
    let args: Vec<String> = std::env::args().skip(1).collect();
    if args.is_empty() {
        eprintln!("usage: tverif <ID|selftest> [quick|thorough] [--replay <file>]");
        std::process::exit(2);
    }
    let id_arg = args[0].clone();
    if id_arg == "fuzz-corpus" {
        // fuzz-corpus <target> <dir> : seed corpus, deterministic in (target, VERIF_SEED)
        let seed: u64 = std::env::var("VERIF_SEED").ok().and_then(|s| s.trim().parse::<i128>().ok()).map(|v| v as u64).unwrap_or(1);
        let n = tverif::fuzz::write_corpus(args.get(1).expect("target"), args.get(2).expect("dir"), seed).expect("write corpus");
        println!("{n} corpus files");
        std::process::exit(0);
    }
    if id_arg == "fuzz-tape" {
        // development aid: run one fuzz target on one input file outside libFuzzer
        let target = args.get(1).expect("fuzz-tape <target> <file>");
        let data = std::fs::read(args.get(2).expect("fuzz-tape <target> <file>")).expect("readable input");
        std::env::set_var("TVERIF_FUZZ_TARGET", target);
        run::install_panic_hook();
        tverif::fuzz::entry(&data);
        println!("ok: no unlisted failure on this input");
        std::process::exit(0);
    }
    let mut tier = match std::env::var("VERIF_TIER").ok().as_deref() {
        Some("thorough") => Tier::Thorough,
        _ => Tier::Quick,
    };
    let mut replay: Option<String> = None;
    let mut evidence = true;
    let mut evidence_path: Option<String> = None;
    let mut i = 1;
    while i < args.len() {
        match args[i].as_str() {
            "quick" => tier = Tier::Quick,
            "thorough" => tier = Tier::Thorough,
            "--replay" => {
                i += 1;
                replay = args.get(i).cloned();
            }
            "--no-evidence" => evidence = false,
            "--evidence-path" => {
                i += 1;
                evidence_path = args.get(i).cloned();
            }
            other => {
                eprintln!("unknown argument {other}");
                std::process::exit(2);
            }
        }
        i += 1;
    }
    let seed: u64 = std::env::var("VERIF_SEED")
        .ok()
        .and_then(|s| s.trim().parse::<i128>().ok())
        .map(|v| v as u64)
        .unwrap_or(1);

    run::install_panic_hook();

    if id_arg == "selftest" {
        std::process::exit(props::selftest());
    }
    let Some(id) = props::IDS.iter().find(|x| x.eq_ignore_ascii_case(&id_arg)).copied() else {
        eprintln!("unknown property id {id_arg}");
        std::process::exit(2);
    };
    let mut ctx = Ctx::new(id, tier, seed);
    run::start_watchdog(id, 60);
    if std::env::var("VERIF_JOURNAL").map(|v| v == "1").unwrap_or(false) {
        // development aid: journal every case (as C03 always does) so that a watchdog exit names its case
        run::enable_journal();
    }

    if let Some(path) = replay {
        let raw = std::fs::read(&path).unwrap_or_else(|e| {
            eprintln!("cannot read replay file {path}: {e}");
            std::process::exit(2)
        });
        let text = String::from_utf8_lossy(&raw).into_owned();
        let v: serde_json::Value = match serde_json::from_str(&text) {
            Ok(v) => v,
            Err(_) => {
                // a raw libFuzzer artifact: <ID>-fuzz-<target>-<artifact name>
                let name = std::path::Path::new(&path).file_name().and_then(|n| n.to_str()).unwrap_or("").to_string();
                let target = name.split("-fuzz-").nth(1).and_then(|r| r.split('-').next()).unwrap_or("").to_string();
                if target.is_empty() {
                    eprintln!("replay file is neither JSON nor a named fuzz artifact");
                    std::process::exit(2);
                }
                std::env::set_var("TVERIF_FUZZ_TARGET", &target);
                std::env::set_var("TVERIF_FUZZ_DIR", format!("{}/replays/fuzz-replay", run::VERIF_DIR));
                run::enable_journal();
                tverif::fuzz::entry(&raw);
                println!("replay of fuzz input {name}: no failure");
                std::process::exit(0);
            }
        };
        ctx.strict = true;
        let sub = v["sub"].as_str().unwrap_or("").to_string();
        let ok = props::replay(&mut ctx, &sub, &v["case"]);
        if !ok {
            eprintln!("replay: unknown sub-check {sub} for {id}");
            std::process::exit(2);
        }
        std::process::exit(ctx.finish(None));
    }

    props::run(&mut ctx);
    tverif::fuzz::absorb_stage(&mut ctx);
    let default_path = format!("{}/evidence/{}.json", run::VERIF_DIR, id);
    let path = evidence_path.unwrap_or(default_path);
    let code = ctx.finish(if evidence { Some(&path) } else { None });
    std::process::exit(code);
}
