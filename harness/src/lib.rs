//! tverif library: reference models, generators, engine and property modules
//! (shared by the `tverif` binary and the libFuzzer targets under /verif/fuzz).

pub mod conv;
pub mod fuzz;
pub mod gen;
pub mod props;
pub mod refm;
#[macro_use]
pub mod run;
pub mod tzp;
