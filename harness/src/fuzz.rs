//! Coverage-guided front end (libFuzzer, /verif/harness/fuzz).  The semantic oracle of the property module (its
//! `SubCheck::eval`) runs inside the target.  Targets:
//!
//! * `c12_bytes`: the input *is* the string, handed to all 14 parsers and compared with the reference grammar.
//! * `c11_bytes`: the input is decoded into a value + display options (props/c11/fuzz.rs), formatted, parsed back.
//! * `c03_ops`: the input is decoded *field-wise* into one case of the C03 operation universe: 2 bytes operation,
//!   8 bytes base seed (the remaining arguments come from the C03 proptest strategy under that seed), then records
//!   `crossover(field, seed)` (take one field from another generated argument set: every field stays inside the
//!   domain its generator guarantees), `raw(field, 8 bytes)` (only for the fields documented as raw: any bit pattern
//!   is a legal argument) and `text(len, bytes)` (the string argument of every parser-facing operation).  One mutated
//!   input byte therefore changes one argument, which is what lets coverage feedback and comparison tracing work.
//!
//! A generic "proptest strategy driven by the fuzzer's bytes" (proptest's `RngAlgorithm::PassThrough`) was built and
//! dropped: every `prop_oneof!` / `Union` forks the generator once per alternative and a fork of the pass-through
//! generator gives half of the remaining tape away, so the tape is exhausted after a handful of unions, and rand's
//! uniform sampler then loops forever on the all-zero stream (observed; see DESIGN.md section 10).
//!
//! One fuzz binary serves every target; `TVERIF_FUZZ_TARGET` selects it.  On a failure whose signature is not an
//! open known finding the target writes an ordinary replay file (same format as the proptest lanes, so
//! `./check <ID> --replay <file>` replays it without libFuzzer) into `$TVERIF_FUZZ_DIR/violations/` and aborts, which
//! makes libFuzzer save the input as well.  Counters (evaluations, non-trivial, classes, samples, known hits) are
//! flushed to `$TVERIF_FUZZ_DIR/stats/<target>-<pid>.json`; the thorough tier of the property folds them into its
//! evidence file.

use crate::props::*;
use crate::run::*;
use proptest::strategy::Strategy;
use serde_json::{json, Value};
use std::collections::BTreeMap;
use std::sync::{Mutex, OnceLock};

pub struct FailReport {
    pub id: &'static str,
    pub sub: String,
    pub case: Value,
    pub fail: Fail,
}

type Runner = Box<dyn Fn(&[u8], &mut Session) -> Option<FailReport> + Send + Sync>;

pub struct Target {
    pub name: &'static str,
    pub id: &'static str,
    pub run: Runner,
}

#[derive(Default)]
pub struct Session {
    pub stats: Stats,
    pub execs: u64,
    pub rejected: u64,
    pub known: Vec<String>,
}

fn judge_one<S: SubCheck>(id: &'static str, sub: &S, case: &S::Case, sess: &mut Session) -> Option<FailReport> {
    let o = eval_guarded(id, sub, case);
    let cj = serde_json::to_value(case).unwrap();
    account(sess, &cj, &o);
    match o.fail {
        Some(f) if !sess.known.iter().any(|k| *k == f.sig) => Some(FailReport { id, sub: sub.name().to_string(), case: cj, fail: f }),
        Some(f) => {
            let e = sess.stats.known_hits.entry(f.sig.clone()).or_insert((0, cj));
            e.0 += 1;
            None
        }
        None => None,
    }
}

fn account(sess: &mut Session, cj: &Value, o: &Outcome) {
    let st = &mut sess.stats;
    st.evaluations += 1;
    if o.unjudged {
        st.unjudged += 1;
    }
    for c in &o.classes {
        *st.classes.entry((*c).to_string()).or_default() += 1;
    }
    if o.nontrivial {
        st.nontrivial_total += 1;
        if st.distinct.len() < 2_000_000 {
            st.distinct.insert(hash64(&serde_json::to_vec(cj).unwrap()));
        }
        let key = o.classes.join("+");
        if st.samples.len() < 8 && st.sample_classes.insert(key) {
            st.samples.push(cj.clone());
        }
    }
}

// ---------------------------------------------------------------------------------------------
// C03: field-wise decoding

/// fields of `c03::Args` whose documented domain is "any bit pattern" (name, width in bytes, kind)
const RAW_FIELDS: [(&str, u8); 24] = [
    ("y", b'i'), ("y2", b'i'), ("mo", b'b'), ("d", b'b'), ("h", b'b'), ("mi", b'b'), ("s", b'b'), ("ms", b'w'), ("us", b'w'), ("ns", b'w'),
    ("raw_ns", b'q'), ("raw_ms", b'l'), ("inc", b'u'), ("inc_f", b'f'), ("mask", b'w'), ("largest", b'b'), ("smallest", b'b'), ("mode", b'b'),
    ("overflow", b'b'), ("dis", b'b'), ("offopt", b'b'), ("display", b'b'), ("precision", b'b'), ("cal", b'b'),
];

struct C03Gen {
    strat: proptest::strategy::BoxedStrategy<c03::Args>,
    /// generated argument sets by seed (corpus entries share seeds; generation dominates the cost of an execution)
    cache: Mutex<std::collections::HashMap<u64, Value>>,
}
// the strategy object is only used from the fuzzing thread
unsafe impl Send for C03Gen {}
unsafe impl Sync for C03Gen {}

impl C03Gen {
    fn args(&self, seed: u64) -> Value {
        let mut c = self.cache.lock().unwrap_or_else(|e| e.into_inner());
        if let Some(v) = c.get(&seed) {
            return v.clone();
        }
        let a = sample_strategy(&self.strat, seed, 1).pop().expect("one value");
        let v = serde_json::to_value(a).expect("serialisable");
        if c.len() >= 16384 {
            c.clear();
        }
        c.insert(seed, v.clone());
        v
    }
}

fn decode_c03(g: &C03Gen, data: &[u8]) -> Option<c03::Case> {
    if data.len() < 10 {
        return None;
    }
    let op = u16::from_le_bytes([data[0], data[1]]) % c03::N_OPS;
    let seed = u64::from_le_bytes(data[2..10].try_into().unwrap());
    let mut obj = g.args(seed);
    let keys: Vec<String> = obj.as_object()?.keys().cloned().collect();
    let mut rest = &data[10..];
    let mut records = 0;
    while !rest.is_empty() && records < 12 {
        let tag = rest[0];
        rest = &rest[1..];
        records += 1;
        match tag >> 6 {
            0 | 1 => {
                // crossover
                if rest.len() < 8 {
                    break;
                }
                let s = u64::from_le_bytes(rest[..8].try_into().unwrap());
                rest = &rest[8..];
                let k = &keys[tag as usize % keys.len()];
                let donor = g.args(s);
                obj[k.as_str()] = donor[k.as_str()].clone();
            }
            2 => {
                if rest.len() < 8 {
                    break;
                }
                let b: [u8; 8] = rest[..8].try_into().unwrap();
                rest = &rest[8..];
                let (name, kind) = RAW_FIELDS[tag as usize % RAW_FIELDS.len()];
                let v = match kind {
                    b'i' => json!(i32::from_le_bytes(b[..4].try_into().unwrap())),
                    b'b' => json!(b[0]),
                    b'w' => json!(u16::from_le_bytes([b[0], b[1]])),
                    b'u' => json!(u32::from_le_bytes(b[..4].try_into().unwrap())),
                    b'l' => json!(i64::from_le_bytes(b)),
                    b'q' => {
                        // i128: the 8 bytes are a signed multiplier of 2^k, k chosen by the low 3 bits
                        let v = i64::from_le_bytes(b) as i128;
                        let k = (b[0] & 7) as u32 * 9;
                        serde_json::to_value(v.wrapping_shl(k)).ok()?
                    }
                    _ => {
                        let f = f64::from_bits(u64::from_le_bytes(b));
                        if !f.is_finite() {
                            continue;
                        }
                        json!(f)
                    }
                };
                obj[name] = v;
            }
            _ => {
                if rest.is_empty() {
                    break;
                }
                let n = (rest[0] as usize % 64).min(rest.len() - 1);
                let bytes = &rest[1..1 + n];
                rest = &rest[1 + n..];
                obj["text"] = json!(String::from_utf8_lossy(bytes).into_owned());
            }
        }
    }
    let a: c03::Args = serde_json::from_value(obj).ok()?;
    Some(c03::tame(c03::Case { op, a }))
}

pub fn targets() -> Vec<Target> {
    let g = C03Gen { strat: c03::args(), cache: Mutex::new(Default::default()) };
    vec![
        Target {
            name: "c03_ops",
            id: "C03",
            run: Box::new(move |data, sess| match decode_c03(&g, data) {
                Some(case) => judge_one("C03", &c03::Sub, &case, sess),
                None => {
                    sess.rejected += 1;
                    None
                }
            }),
        },
        Target {
            name: "c12_bytes",
            id: "C12",
            run: Box::new(|data, sess| {
                if data.len() > 96 {
                    sess.rejected += 1;
                    return None;
                }
                let Ok(s) = std::str::from_utf8(data) else {
                    sess.rejected += 1;
                    return None;
                };
                for p in 0..c12::NPARSERS {
                    let case = c12::ParseCase::fuzz(p, s);
                    if let Some(r) = judge_one("C12", &c12::ParseSub("gen"), &case, sess) {
                        return Some(r);
                    }
                }
                None
            }),
        },
        Target {
            name: "c11_bytes",
            id: "C11",
            run: Box::new(|data, sess| {
                if data.len() > 160 {
                    sess.rejected += 1;
                    return None;
                }
                judge_one("C11", &c11::BytesSub, &c11::BytesCase { bytes: data.to_vec() }, sess)
            }),
        },
    ]
}

/// seed corpus for a target: deterministic in (target, seed)
pub fn write_corpus(target: &str, dir: &str, seed: u64) -> std::io::Result<usize> {
    std::fs::create_dir_all(dir)?;
    let mut n = 0;
    let mut put = |bytes: &[u8]| -> std::io::Result<()> {
        std::fs::write(format!("{dir}/seed-{n:04}"), bytes)?;
        n += 1;
        Ok(())
    };
    let mut x = hash64(&seed.to_le_bytes()) | 1;
    let mut next = || {
        x ^= x << 13;
        x ^= x >> 7;
        x ^= x << 17;
        x.wrapping_mul(0x2545F4914F6CDD1D)
    };
    match target {
        "c03_ops" => {
            // one input per operation (base seed only) + inputs with crossover / raw / text records
            for op in 0..c03::N_OPS {
                let mut b = op.to_le_bytes().to_vec();
                b.extend_from_slice(&next().to_le_bytes());
                if op % 3 == 1 {
                    b.push((next() % 128) as u8);
                    b.extend_from_slice(&next().to_le_bytes());
                }
                if op % 3 == 2 {
                    b.push(0x80 | (next() % 64) as u8);
                    b.extend_from_slice(&next().to_le_bytes());
                    b.push(0xc0);
                    let t = b"2020-01-01T00:00+01:00[Europe/Paris]";
                    b.push(t.len() as u8);
                    b.extend_from_slice(t);
                }
                put(&b)?;
            }
        }
        "c12_bytes" => {
            let cases = sample_strategy(&c12::gen::strategy(), seed, 400);
            for c in cases {
                if c.s.len() <= 96 {
                    put(c.s.as_bytes())?;
                }
            }
        }
        "c11_bytes" => {
            for i in 0..200u64 {
                let len = 8 + (next() % 120) as usize;
                let mut b = Vec::with_capacity(len);
                while b.len() < len {
                    b.extend_from_slice(&next().to_le_bytes());
                }
                b.truncate(len);
                b[0] = (i % 16) as u8;
                put(&b)?;
            }
        }
        _ => {}
    }
    Ok(n)
}

struct Global {
    target: Target,
    sess: Session,
    dir: String,
}

static GLOBAL: OnceLock<Mutex<Global>> = OnceLock::new();

fn init() -> Mutex<Global> {
    install_panic_hook();
    let name = std::env::var("TVERIF_FUZZ_TARGET").expect("TVERIF_FUZZ_TARGET must name a target");
    let dir = std::env::var("TVERIF_FUZZ_DIR").unwrap_or_else(|_| format!("{}/replays/fuzz", VERIF_DIR));
    let _ = std::fs::create_dir_all(format!("{dir}/stats"));
    let _ = std::fs::create_dir_all(format!("{dir}/violations"));
    let target = targets().into_iter().find(|t| t.name == name).unwrap_or_else(|| {
        eprintln!("unknown fuzz target {name}; available: {:?}", targets().iter().map(|t| t.name).collect::<Vec<_>>());
        std::process::exit(2);
    });
    let known: Vec<String> = load_known_findings().into_iter().filter(|k| k.status == "open").map(|k| k.signature).collect();
    Mutex::new(Global { target, sess: Session { known, ..Session::default() }, dir })
}

fn flush(g: &Global) {
    let st = &g.sess.stats;
    let kh: BTreeMap<&String, Value> = st.known_hits.iter().map(|(k, (n, ex))| (k, json!({"cases_excluded": n, "example": ex}))).collect();
    let body = json!({
        "target": g.target.name, "property": g.target.id, "execs": g.sess.execs, "tape_rejected": g.sess.rejected,
        "evaluations": st.evaluations, "nontrivial": st.nontrivial_total, "unjudged": st.unjudged,
        "distinct": st.distinct.iter().collect::<Vec<_>>(), "classes": st.classes, "samples": st.samples, "known_hits": kh,
    });
    let path = format!("{}/stats/{}-{}.json", g.dir, g.target.name, std::process::id());
    let tmp = format!("{path}.tmp");
    if std::fs::write(&tmp, serde_json::to_vec(&body).unwrap()).is_ok() {
        let _ = std::fs::rename(&tmp, &path);
    }
}

/// libFuzzer entry (`fuzz_target!(|data: &[u8]| tverif::fuzz::entry(data))`).
pub fn entry(data: &[u8]) {
    let m = GLOBAL.get_or_init(init);
    let mut g = m.lock().unwrap_or_else(|e| e.into_inner());
    g.sess.execs += 1;
    let Global { target, sess, .. } = &mut *g;
    let rep = (target.run)(data, sess);
    let n = g.sess.execs;
    // flush at 1, 2, 4, ... 8192 and then every 8192 executions (the last partial block of a run is not counted)
    if n.is_power_of_two() && n <= 8192 || n % 8192 == 0 {
        flush(&g);
    }
    if let Some(r) = rep {
        flush(&g);
        let body = json!({"property": r.id, "sub": r.sub, "case": r.case, "signature": r.fail.sig, "expected": r.fail.expected, "actual": r.fail.actual,
            "found_by": format!("libFuzzer target {}", g.target.name)});
        let h = hash64(&serde_json::to_vec(&json!([r.sub, r.case])).unwrap());
        let path = format!("{}/violations/{}-{:016x}.json", g.dir, r.id, h);
        let _ = std::fs::write(&path, serde_json::to_string_pretty(&body).unwrap());
        eprintln!("FUZZ-VIOLATION property={} replay={} sig={}", r.id, path, r.fail.sig);
        std::process::abort();
    }
}

/// Fold the statistics files of a fuzz stage into the context (called by the thorough tier when
/// `TVERIF_FUZZ_DIR` is set); violations found by the fuzzers become external violation lines.
pub fn absorb_stage(ctx: &mut Ctx) {
    let Ok(dir) = std::env::var("TVERIF_FUZZ_DIR") else { return };
    let mut per_target: BTreeMap<String, (u64, u64, u64)> = BTreeMap::new();
    if let Ok(rd) = std::fs::read_dir(format!("{dir}/stats")) {
        let mut files: Vec<_> = rd.filter_map(|e| e.ok()).map(|e| e.path()).filter(|p| p.extension().map(|x| x == "json").unwrap_or(false)).collect();
        files.sort();
        for p in files {
            let Ok(text) = std::fs::read_to_string(&p) else { continue };
            let Ok(v) = serde_json::from_str::<Value>(&text) else { continue };
            if v["property"].as_str() != Some(ctx.id) {
                continue;
            }
            let mut st = Stats::default();
            st.evaluations = v["evaluations"].as_u64().unwrap_or(0);
            st.nontrivial_total = v["nontrivial"].as_u64().unwrap_or(0);
            st.unjudged = v["unjudged"].as_u64().unwrap_or(0);
            for h in v["distinct"].as_array().cloned().unwrap_or_default() {
                if let Some(h) = h.as_u64() {
                    st.distinct.insert(h);
                }
            }
            if let Some(m) = v["classes"].as_object() {
                for (k, n) in m {
                    st.classes.insert(format!("fuzz:{k}"), n.as_u64().unwrap_or(0));
                }
            }
            if let Some(a) = v["samples"].as_array() {
                st.samples = a.iter().take(3).cloned().collect();
            }
            if let Some(m) = v["known_hits"].as_object() {
                for (k, e) in m {
                    st.known_hits.insert(k.clone(), (e["cases_excluded"].as_u64().unwrap_or(0), e["example"].clone()));
                }
            }
            let t = v["target"].as_str().unwrap_or("?").to_string();
            let e = per_target.entry(t.clone()).or_default();
            e.0 += v["execs"].as_u64().unwrap_or(0);
            e.1 += st.evaluations;
            e.2 += v["tape_rejected"].as_u64().unwrap_or(0);
            ctx.absorb(&format!("fuzz:{t}"), st, None);
        }
    }
    let mut viol = vec![];
    if let Ok(rd) = std::fs::read_dir(format!("{dir}/violations")) {
        let mut files: Vec<_> = rd.filter_map(|e| e.ok()).map(|e| e.path()).collect();
        files.sort();
        for p in files {
            let name = p.file_name().and_then(|n| n.to_str()).unwrap_or("").to_string();
            if !name.starts_with(&format!("{}-", ctx.id)) {
                continue;
            }
            let dest = format!("{}/replays/{}", VERIF_DIR, name);
            let _ = std::fs::copy(&p, &dest);
            let sig = std::fs::read_to_string(&p).ok().and_then(|t| serde_json::from_str::<Value>(&t).ok()).map(|v| v["signature"].as_str().unwrap_or("").to_string()).unwrap_or_default();
            viol.push(format!("VIOLATION property={} replay={}\n  found by the libFuzzer stage, sig={}", ctx.id, dest, sig));
        }
    }
    let summary: BTreeMap<String, Value> = per_target.iter().map(|(k, (execs, evals, rej))| (k.clone(), json!({"libfuzzer_execs_counted": execs, "oracle_evaluations": evals, "tape_rejected": rej}))).collect();
    if !summary.is_empty() {
        ctx.extra.insert("fuzz_stage".into(), json!({"engine": "libFuzzer (cargo-fuzz), entropy-tape targets", "targets": summary,
            "log": std::env::var("TVERIF_FUZZ_LOG_SUMMARY").unwrap_or_default()}));
    }
    ctx.external_violations.extend(viol);
}
