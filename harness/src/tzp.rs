//! A `TimeZoneProvider` implemented by the harness on top of `refm::tz` rule tables.
//! Contract assumed (from the trait's doc comments and the core's use of it):
//!  * `get_named_tz_epoch_nanoseconds` returns every instant whose wall reading is the given local
//!    date-time, ascending;
//!  * `get_named_tz_offset_nanoseconds` returns the offset in seconds at the instant and the epoch
//!    second of the transition that started that offset (`None` before the first transition);
//!  * `check_identifier` is true for the zones served (ASCII case-insensitive).

use crate::refm::civil::{to_days, NS_PER_DAY};
use crate::refm::tz::{Zone, S};
use std::collections::HashMap;
use temporal_rs::iso::IsoDateTime;
use temporal_rs::provider::{TimeZoneOffset, TimeZoneProvider, TransitionDirection};
use temporal_rs::time::EpochNanoseconds;
use temporal_rs::{TemporalError, TemporalResult};

pub struct TableProvider {
    pub zones: HashMap<String, Zone>,
    /// when true, candidate instants are returned in descending order (the trait does not promise
    /// an order; used to probe order sensitivity)
    pub reverse_candidates: bool,
}

pub fn wall_ns_of(iso: &IsoDateTime) -> i128 {
    let day = to_days(iso.date.year as i64, iso.date.month, iso.date.day);
    day as i128 * NS_PER_DAY
        + ((iso.time.hour as i128 * 60 + iso.time.minute as i128) * 60 + iso.time.second as i128) * S
        + iso.time.millisecond as i128 * 1_000_000
        + iso.time.microsecond as i128 * 1_000
        + iso.time.nanosecond as i128
}

impl TableProvider {
    pub fn new(zones: Vec<Zone>) -> Self {
        let mut m = HashMap::new();
        for z in zones {
            m.insert(z.name.to_ascii_lowercase(), z);
        }
        // UTC is always served (Instant::to_ixdtf_string without a zone asks for "UTC")
        m.entry("utc".into()).or_insert_with(|| Zone::fixed("UTC", 0));
        TableProvider { zones: m, reverse_candidates: false }
    }
    pub fn utc_only() -> Self {
        Self::new(vec![])
    }
    fn zone(&self, id: &str) -> TemporalResult<&Zone> {
        self.zones
            .get(&id.to_ascii_lowercase())
            .ok_or_else(|| TemporalError::range().with_message("unknown time zone (harness provider)"))
    }
}

impl TimeZoneProvider for TableProvider {
    fn check_identifier(&self, identifier: &str) -> bool {
        self.zones.contains_key(&identifier.to_ascii_lowercase())
    }
    fn get_named_tz_epoch_nanoseconds(&self, identifier: &str, local: IsoDateTime) -> TemporalResult<Vec<EpochNanoseconds>> {
        let z = self.zone(identifier)?;
        let mut c = z.instants(wall_ns_of(&local));
        if self.reverse_candidates {
            c.reverse();
        }
        c.into_iter().map(EpochNanoseconds::try_from).collect()
    }
    fn get_named_tz_offset_nanoseconds(&self, identifier: &str, epoch_nanoseconds: i128) -> TemporalResult<TimeZoneOffset> {
        let z = self.zone(identifier)?;
        Ok(TimeZoneOffset { transition_epoch: z.transition_start(epoch_nanoseconds), offset: z.offset_at(epoch_nanoseconds) })
    }
    fn get_named_tz_transition(&self, identifier: &str, epoch_nanoseconds: i128, direction: TransitionDirection) -> TemporalResult<Option<EpochNanoseconds>> {
        let z = self.zone(identifier)?;
        let t = match direction {
            TransitionDirection::Next => z.trans.iter().map(|x| x.0 as i128 * S).find(|t| *t > epoch_nanoseconds),
            TransitionDirection::Previous => z.trans.iter().rev().map(|x| x.0 as i128 * S).find(|t| *t < epoch_nanoseconds),
        };
        match t {
            Some(t) => Ok(EpochNanoseconds::try_from(t).ok()),
            None => Ok(None),
        }
    }
}


// ---------------------------------------------------------------------------------------------
// either the harness table provider or the crate's bundled provider (end-to-end classes of C13 / C14)

use temporal_rs::tzdb::FsTzdbProvider;

thread_local! {
    // FsTzdbProvider keeps a RefCell cache and is not Sync: one per thread, leaked
    static BUNDLED: &'static FsTzdbProvider = Box::leak(Box::new(FsTzdbProvider::default()));
}

pub fn bundled() -> &'static FsTzdbProvider {
    BUNDLED.with(|f| *f)
}

pub enum AnyProvider {
    Table(TableProvider),
    Bundled(&'static FsTzdbProvider),
}

impl AnyProvider {
    pub fn set_reverse(&mut self, reverse: bool) {
        if let AnyProvider::Table(t) = self {
            t.reverse_candidates = reverse;
        }
    }
}

impl TimeZoneProvider for AnyProvider {
    fn check_identifier(&self, identifier: &str) -> bool {
        match self {
            AnyProvider::Table(t) => t.check_identifier(identifier),
            AnyProvider::Bundled(f) => f.check_identifier(identifier),
        }
    }
    fn get_named_tz_epoch_nanoseconds(&self, identifier: &str, local: IsoDateTime) -> TemporalResult<Vec<EpochNanoseconds>> {
        match self {
            AnyProvider::Table(t) => t.get_named_tz_epoch_nanoseconds(identifier, local),
            AnyProvider::Bundled(f) => f.get_named_tz_epoch_nanoseconds(identifier, local),
        }
    }
    fn get_named_tz_offset_nanoseconds(&self, identifier: &str, epoch_nanoseconds: i128) -> TemporalResult<TimeZoneOffset> {
        match self {
            AnyProvider::Table(t) => t.get_named_tz_offset_nanoseconds(identifier, epoch_nanoseconds),
            AnyProvider::Bundled(f) => f.get_named_tz_offset_nanoseconds(identifier, epoch_nanoseconds),
        }
    }
    fn get_named_tz_transition(&self, identifier: &str, epoch_nanoseconds: i128, direction: TransitionDirection) -> TemporalResult<Option<EpochNanoseconds>> {
        match self {
            AnyProvider::Table(t) => t.get_named_tz_transition(identifier, epoch_nanoseconds, direction),
            AnyProvider::Bundled(f) => f.get_named_tz_transition(identifier, epoch_nanoseconds, direction),
        }
    }
}
