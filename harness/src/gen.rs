//! Generators (proptest strategies). Every random choice is made here so shrinking and replay work.

use crate::refm::civil::*;
use crate::refm::dur::{Dur, TWO32, U, UNITS, UNIT_NS, MAX_TIME_NS};
use crate::refm::round::{Mode, MODES};
use proptest::prelude::*;
use proptest::strategy::Union;

pub fn boxed_union<T: std::fmt::Debug + 'static>(v: Vec<(u32, BoxedStrategy<T>)>) -> BoxedStrategy<T> {
    Union::new_weighted(v).boxed()
}

/// interesting anchor days: range ends, epoch, century/400-year turns, year 0, 9999/10000, leap days
pub fn anchor_days() -> Vec<i64> {
    let mut v = vec![MIN_DAY, MAX_DAY, 0, to_days(2000, 2, 29), to_days(2000, 3, 1), to_days(1900, 2, 28), to_days(1900, 3, 1)];
    for (y, m, d) in [
        (0i64, 1u8, 1u8),
        (0, 12, 31),
        (-1, 12, 31),
        (1, 1, 1),
        (9999, 12, 31),
        (10000, 1, 1),
        (-1, 1, 1),
        (1972, 2, 29),
        (1972, 12, 31),
        (2024, 2, 29),
        (2023, 1, 31),
        (2023, 3, 31),
        (2023, 5, 31),
        (2023, 8, 31),
        (2023, 10, 31),
        (2023, 12, 31),
        (2400, 2, 29),
        (2100, 2, 28),
        (-400, 2, 29),
        (-271821, 12, 31),
        (275760, 1, 1),
        (1582, 10, 15),
        (1, 3, 1),
        (-100, 3, 1),
    ] {
        v.push(to_days(y, m, d));
    }
    v
}

/// a day number in the supported range: uniform + boundary-biased
pub fn day() -> BoxedStrategy<i64> {
    let anchors = anchor_days();
    boxed_union(vec![
        (4, (MIN_DAY..=MAX_DAY).boxed()),
        (2, (to_days(1800, 1, 1)..=to_days(2200, 1, 1)).boxed()),
        (2, (proptest::sample::select(anchors), -3i64..=3).prop_map(|(a, k)| (a + k).clamp(MIN_DAY, MAX_DAY)).boxed()),
        // month-end days anywhere
        (
            2,
            ((-271820i64..=275759), 1u8..=12, 0u8..=3)
                .prop_map(|(y, m, back)| to_days(y, m, dim(y, m).saturating_sub(back).max(1)))
                .boxed(),
        ),
        // leap days
        (1, (-67955i64..=68939).prop_map(|q| to_days(q * 4, 2, 29.min(dim(q * 4, 2)))).boxed()),
    ])
}

/// a second day "near" the first one: few days / months / years apart, or anywhere
pub fn day_pair() -> BoxedStrategy<(i64, i64)> {
    let near = (day(), prop_oneof![
        (-40i64..=40).boxed(),
        (-800i64..=800).boxed(),
        (-40i64..=40).prop_map(|k| k * 365).boxed(),
        (-20000i64..=20000).boxed(),
        (-600i64..=600).prop_map(|k| k * 146097 / 400 * 1000).boxed(),
    ])
        .prop_map(|(a, delta)| (a, (a + delta).clamp(MIN_DAY, MAX_DAY)));
    boxed_union(vec![(3, near.boxed()), (2, (day(), day()).boxed())])
}

pub const DAY_NS: i128 = NS_PER_DAY;

/// ns of day: uniform + boundaries
pub fn ns_of_day() -> BoxedStrategy<i128> {
    boxed_union(vec![
        (4, (0i128..DAY_NS).boxed()),
        (1, Just(0i128).boxed()),
        (1, (0i128..=2).boxed()),
        (1, (0i128..=2).prop_map(|k| DAY_NS - 1 - k).boxed()),
        (2, ((0i128..24), -2i128..=2).prop_map(|(h, k)| (h * 3_600_000_000_000 + k).rem_euclid(DAY_NS)).boxed()),
        (2, ((0i128..86400), 0i128..1000).prop_map(|(s, ms)| s * 1_000_000_000 + ms * 1_000_000).boxed()),
        (1, ((0i128..1440), prop_oneof![Just(0i128), Just(30_000_000_000i128), Just(29_999_999_999i128), Just(30_000_000_001i128)]).prop_map(|(m, k)| m * 60_000_000_000 + k).boxed()),
    ])
}

/// date-time (day, ns) inside the PlainDateTime range
pub fn datetime() -> BoxedStrategy<(i64, i128)> {
    (day(), ns_of_day())
        .prop_map(|(d, ns)| {
            if datetime_in_range(d, ns) {
                (d, ns)
            } else {
                // only possible on the first day of the range: move to the last ns that is valid
                (d, DAY_NS - 1 - (ns % 1000))
            }
        })
        .prop_filter("datetime in range", |(d, ns)| datetime_in_range(*d, *ns))
        .boxed()
}

/// epoch nanoseconds in range
pub fn instant_ns() -> BoxedStrategy<i128> {
    boxed_union(vec![
        (4, (-MAX_INSTANT..=MAX_INSTANT).boxed()),
        (2, (-4_000_000_000_000_000_000i128..=4_000_000_000_000_000_000).boxed()),
        (1, (-3i128..=3).boxed()),
        (1, (0i128..=3).prop_map(|k| MAX_INSTANT - k).boxed()),
        (1, (0i128..=3).prop_map(|k| -MAX_INSTANT + k).boxed()),
        (1, ((-5_000_000i128..5_000_000), -2i128..=2).prop_map(|(ms, k)| ms * 1_000_000 + k).boxed()),
        (1, ((-100_000_000i128..100_000_000), 0i128..DAY_NS).prop_map(|(d, ns)| (d * DAY_NS + ns).clamp(-MAX_INSTANT, MAX_INSTANT)).boxed()),
    ])
}

pub fn mode() -> BoxedStrategy<Mode> {
    proptest::sample::select(MODES.to_vec()).boxed()
}
pub fn unit_in(lo: usize, hi: usize) -> BoxedStrategy<U> {
    proptest::sample::select(UNITS[lo..=hi].to_vec()).boxed()
}

/// magnitude generator for one duration field with limit `lim` (exclusive upper bound where known)
fn magnitude(lim: i128) -> BoxedStrategy<i128> {
    boxed_union(vec![
        (3, Just(0i128).boxed()),
        (4, (0i128..=40).boxed()),
        (2, (0i128..=100_000).boxed()),
        (1, (0u32..=100).prop_map(move |e| (1i128 << (e % 90)).min(lim.saturating_mul(2))).boxed()),
        (1, (-2i128..=2).prop_map(move |k| (lim + k).max(0)).boxed()),
        (1, (0i128..=lim.max(1)).boxed()),
    ])
}

/// ten integer fields, sign chosen once (valid-by-sign); magnitudes may exceed the limits
pub fn dur_fields_any() -> BoxedStrategy<[i128; 10]> {
    let lims: [i128; 10] = [
        TWO32,
        TWO32,
        TWO32,
        MAX_TIME_NS / UNIT_NS[3],
        MAX_TIME_NS / UNIT_NS[4],
        MAX_TIME_NS / UNIT_NS[5],
        MAX_TIME_NS / UNIT_NS[6],
        MAX_TIME_NS / UNIT_NS[7],
        MAX_TIME_NS / UNIT_NS[8],
        MAX_TIME_NS,
    ];
    (
        prop::bool::ANY,
        (magnitude(lims[0]), magnitude(lims[1]), magnitude(lims[2]), magnitude(lims[3]), magnitude(lims[4])),
        (magnitude(lims[5]), magnitude(lims[6]), magnitude(lims[7]), magnitude(lims[8]), magnitude(lims[9])),
        0u16..1024,
    )
        .prop_map(|(neg, a, b, mask)| {
            let mut f = [a.0, a.1, a.2, a.3, a.4, b.0, b.1, b.2, b.3, b.4];
            // knock out fields so that sparse durations are common
            for i in 0..10 {
                if mask & (1 << i) != 0 && (mask >> 10) == 0 {
                    f[i] = 0;
                }
            }
            if neg {
                for x in f.iter_mut() {
                    *x = -*x;
                }
            }
            f
        })
        .boxed()
}

/// the value of an i128 after a round trip through f64 (fields are doubles in the API)
pub fn through_f64(v: i128) -> i128 {
    (v as f64) as i128
}

/// a *valid* duration (by the reference definition), fields representable exactly as doubles.
/// `date_max`: bound for |years| (months = 12x, weeks = 52x, days = 366x that bound)
pub fn valid_dur(date_max: i128, with_time: bool) -> BoxedStrategy<Dur> {
    let small = move |lim: i128| -> BoxedStrategy<i128> {
        boxed_union(vec![
            (4, Just(0i128).boxed()),
            (4, (0i128..=3).boxed()),
            (3, (0i128..=40).boxed()),
            (2, (0i128..=lim.max(1)).boxed()),
        ])
    };
    let tsmall = move |lim: i128| -> BoxedStrategy<i128> {
        if !with_time {
            return Just(0i128).boxed();
        }
        boxed_union(vec![
            (5, Just(0i128).boxed()),
            (3, (0i128..=70).boxed()),
            (2, (0i128..=2000).boxed()),
            (1, (0i128..=lim.max(1)).boxed()),
        ])
    };
    (
        prop::bool::ANY,
        (small(date_max), small(date_max * 12), small(date_max * 52), small(date_max * 366)),
        (tsmall(1 << 40), tsmall(1 << 44), tsmall(1 << 48), tsmall(1 << 52), tsmall(1 << 60), tsmall(1 << 70)),
    )
        .prop_map(|(neg, d, t)| {
            let mut f = [d.0, d.1, d.2, d.3, t.0, t.1, t.2, t.3, t.4, t.5];
            for x in f.iter_mut() {
                *x = through_f64(*x);
            }
            if neg {
                for x in f.iter_mut() {
                    *x = -*x;
                }
            }
            Dur { f }
        })
        .prop_filter("valid duration", |d| d.valid())
        .boxed()
}

/// a valid pure time duration, including fields far above 2^63 ns
pub fn valid_time_dur() -> BoxedStrategy<Dur> {
    let fld = |lim: i128| -> BoxedStrategy<i128> {
        boxed_union(vec![
            (5, Just(0i128).boxed()),
            (3, (0i128..=100).boxed()),
            (2, (0i128..=100_000).boxed()),
            (2, (0i128..=lim).boxed()),
            (1, (0i128..=3).prop_map(move |k| lim - k).boxed()),
        ])
    };
    (
        prop::bool::ANY,
        fld(MAX_TIME_NS / UNIT_NS[4] - 1),
        fld(MAX_TIME_NS / UNIT_NS[5] - 1),
        fld(MAX_TIME_NS / UNIT_NS[6] - 1),
        fld(MAX_TIME_NS / UNIT_NS[7] - 1),
        fld(MAX_TIME_NS / UNIT_NS[8] - 1),
        fld(MAX_TIME_NS - 1),
    )
        .prop_map(|(neg, h, mi, s, ms, us, ns)| {
            let mut f = [0, 0, 0, 0, h, mi, s, ms, us, ns];
            for x in f.iter_mut() {
                *x = through_f64(*x);
            }
            if neg {
                for x in f.iter_mut() {
                    *x = -*x;
                }
            }
            Dur { f }
        })
        .prop_filter("valid duration", |d| d.valid())
        .boxed()
}

/// increments admissible for a time unit in difference/round operations: proper divisors of the maximum
pub fn divisors_below(max: i128) -> Vec<i128> {
    (1..max).filter(|i| max % i == 0).collect()
}


/// Values x in 0..=cap for which `mult * x` lies within a few units of k * 2^31, 2^32, 2^63 or 2^64 (k = 1..=8): the
/// inputs for which a sum or product narrowed to 32 / 64 bits wraps to an innocent-looking small number.
pub fn wrap_prone(mult: i128, cap: i128) -> BoxedStrategy<i128> {
    (proptest::sample::select(vec![31u32, 32, 32, 32, 63, 64]), 1i128..=8, -3i128..=11)
        .prop_map(move |(b, k, r)| {
            let x = (k * (1i128 << b) + r).div_euclid(mult);
            if x > cap {
                // fall back to the largest k that fits
                let kmax = (cap * mult) >> b;
                if kmax >= 1 {
                    ((kmax.min(k)) * (1i128 << b) + r).div_euclid(mult).clamp(0, cap)
                } else {
                    cap - r.rem_euclid(4)
                }
            } else {
                x.max(0)
            }
        })
        .boxed()
}
