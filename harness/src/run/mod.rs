//! Engine: seeds, counters, distinct hashing, samples, evidence, known findings, replay files,
//! panic capture, watchdog, parallel drivers (proptest runners and exhaustive ranges).

use proptest::strategy::{Strategy, ValueTree};
use proptest::test_runner::{Config, RngAlgorithm, RngSeed, TestCaseError, TestError, TestRunner};
use serde_json::{json, Value};
use std::cell::RefCell;
use std::collections::{BTreeMap, HashSet};
use std::panic::{catch_unwind, AssertUnwindSafe};
use std::sync::atomic::{AtomicBool, AtomicU64, Ordering};
use std::sync::Mutex;
use std::time::Instant as StdInstant;

pub const VERIF_DIR: &str = "/verif";

#[derive(Clone, Copy, PartialEq, Eq, Debug)]
pub enum Tier {
    Quick,
    Thorough,
}
impl Tier {
    pub fn name(self) -> &'static str {
        match self {
            Tier::Quick => "quick",
            Tier::Thorough => "thorough",
        }
    }
    /// pick a count by tier
    pub fn pick(self, quick: u64, thorough: u64) -> u64 {
        match self {
            Tier::Quick => quick,
            Tier::Thorough => thorough,
        }
    }
}

// ---------------------------------------------------------------------------------------------
// panic capture

thread_local! {
    static LAST_PANIC: RefCell<Option<String>> = const { RefCell::new(None) };
    static QUIET: RefCell<bool> = const { RefCell::new(false) };
}

pub fn install_panic_hook() {
    let default = std::panic::take_hook();
    std::panic::set_hook(Box::new(move |info| {
        let quiet = QUIET.with(|q| *q.borrow());
        let loc = info
            .location()
            .map(|l| format!("{}:{}", l.file(), l.line()))
            .unwrap_or_else(|| "?".into());
        let msg = if let Some(s) = info.payload().downcast_ref::<&str>() {
            (*s).to_string()
        } else if let Some(s) = info.payload().downcast_ref::<String>() {
            s.clone()
        } else {
            "<non-string payload>".to_string()
        };
        if quiet {
            LAST_PANIC.with(|p| *p.borrow_mut() = Some(format!("panic@{}: {}", short_loc(&loc), msg)));
        } else {
            default(info);
        }
    }));
}

fn short_loc(loc: &str) -> String {
    // strip absolute prefixes so signatures are stable wherever /repo lives
    if let Some(i) = loc.find("/repo/") {
        return loc[i + 6..].to_string();
    }
    if let Some(i) = loc.find("/registry/src/") {
        let rest = &loc[i + 14..];
        if let Some(j) = rest.find('/') {
            return rest[j + 1..].to_string();
        }
    }
    loc.to_string()
}

/// Runs `f`, converting a panic into `Err("panic@file:line: msg")`.
pub fn guard<T>(f: impl FnOnce() -> T) -> Result<T, String> {
    QUIET.with(|q| *q.borrow_mut() = true);
    LAST_PANIC.with(|p| *p.borrow_mut() = None);
    let r = catch_unwind(AssertUnwindSafe(f));
    QUIET.with(|q| *q.borrow_mut() = false);
    match r {
        Ok(v) => Ok(v),
        Err(_) => Err(LAST_PANIC
            .with(|p| p.borrow_mut().take())
            .unwrap_or_else(|| "panic@?: <unknown>".into())),
    }
}

// ---------------------------------------------------------------------------------------------
// outcomes

/// What one evaluated case reports.
#[derive(Debug, Clone, Default)]
pub struct Outcome {
    /// class labels for the histogram
    pub classes: Vec<&'static str>,
    /// non-trivial by the property's stated rule
    pub nontrivial: bool,
    /// failure, if any
    pub fail: Option<Fail>,
    /// case executed but deliberately not judged (counted)
    pub unjudged: bool,
}

#[derive(Debug, Clone)]
pub struct Fail {
    /// signature: narrow description of (input class, observed wrong output)
    pub sig: String,
    pub expected: String,
    pub actual: String,
}

impl Outcome {
    pub fn pass() -> Self {
        Self::default()
    }
    pub fn class(mut self, c: &'static str) -> Self {
        self.classes.push(c);
        self
    }
    pub fn nontrivial(mut self, b: bool) -> Self {
        self.nontrivial = self.nontrivial || b;
        self
    }
    pub fn fail(mut self, sig: impl Into<String>, expected: impl Into<String>, actual: impl Into<String>) -> Self {
        if self.fail.is_none() {
            self.fail = Some(Fail {
                sig: sig.into(),
                expected: expected.into(),
                actual: actual.into(),
            });
        }
        self
    }
    pub fn failed(&self) -> bool {
        self.fail.is_some()
    }
}

/// Helper for building outcomes: `chk!(o, cond, sig, expected, actual)`.
#[macro_export]
macro_rules! chk {
    ($o:expr, $cond:expr, $sig:expr, $exp:expr, $act:expr) => {
        if !$o.failed() && !($cond) {
            $o = $o.fail($sig, format!("{:?}", $exp), format!("{:?}", $act));
        }
    };
}

// ---------------------------------------------------------------------------------------------
// known findings

#[derive(Debug, Clone)]
pub struct KnownFinding {
    pub id: String,
    pub status: String,
    pub properties: Vec<String>,
    pub signature: String,
    pub summary: String,
}

pub fn load_known_findings() -> Vec<KnownFinding> {
    let mut out = load_known_findings_from(&format!("{}/known_findings.json", VERIF_DIR));
    // development aid: an extra fragment (never set by the registered commands)
    if let Ok(extra) = std::env::var("VERIF_KF_EXTRA") {
        out.extend(load_known_findings_from(&extra));
    }
    out
}

fn load_known_findings_from(path: &str) -> Vec<KnownFinding> {
    let Ok(text) = std::fs::read_to_string(path) else {
        return vec![];
    };
    let v: Value = serde_json::from_str(&text).expect("known findings file must be valid JSON");
    let mut out = vec![];
    for e in v["findings"].as_array().cloned().unwrap_or_default() {
        out.push(KnownFinding {
            id: e["id"].as_str().unwrap_or("").to_string(),
            status: e["status"].as_str().unwrap_or("").to_string(),
            properties: e["properties"]
                .as_array()
                .map(|a| a.iter().filter_map(|x| x.as_str().map(String::from)).collect())
                .unwrap_or_default(),
            signature: e["signature"].as_str().unwrap_or("").to_string(),
            summary: e["summary"].as_str().unwrap_or("").to_string(),
        });
    }
    out
}

// ---------------------------------------------------------------------------------------------
// stats

#[derive(Default)]
pub struct Stats {
    pub evaluations: u64,
    pub nontrivial_total: u64,
    pub unjudged: u64,
    pub distinct: HashSet<u64>,
    pub classes: BTreeMap<String, u64>,
    pub samples: Vec<Value>,
    pub sample_classes: HashSet<String>,
    pub known_hits: BTreeMap<String, (u64, Value)>,
    pub exhaustive_subs: Vec<String>,
    /// non-trivial cases that are distinct by construction (enumerations), counted without hashing
    pub distinct_by_construction: u64,
}

impl Stats {
    pub fn merge(&mut self, other: Stats) {
        self.evaluations += other.evaluations;
        self.nontrivial_total += other.nontrivial_total;
        self.unjudged += other.unjudged;
        self.distinct.extend(other.distinct);
        for (k, v) in other.classes {
            *self.classes.entry(k).or_default() += v;
        }
        for s in other.samples {
            if self.samples.len() < 40 {
                self.samples.push(s);
            }
        }
        self.sample_classes.extend(other.sample_classes);
        for (k, (n, ex)) in other.known_hits {
            let e = self.known_hits.entry(k).or_insert((0, ex));
            e.0 += n;
        }
        self.exhaustive_subs.extend(other.exhaustive_subs);
        self.distinct_by_construction += other.distinct_by_construction;
    }
}

pub fn hash64(bytes: &[u8]) -> u64 {
    // FNV-1a 64 with a final avalanche; deterministic across runs (no RandomState)
    let mut h: u64 = 0xcbf29ce484222325;
    for b in bytes {
        h ^= *b as u64;
        h = h.wrapping_mul(0x100000001b3);
    }
    h ^= h >> 33;
    h = h.wrapping_mul(0xff51afd7ed558ccd);
    h ^= h >> 33;
    h
}

#[derive(Debug, Clone)]
pub struct Violation {
    pub sub: String,
    pub case: Value,
    pub fail: Fail,
    pub replay_path: String,
}

pub struct Ctx {
    pub id: &'static str,
    pub tier: Tier,
    pub seed: u64,
    pub profile: &'static str,
    pub stats: Stats,
    pub violations: Vec<Violation>,
    pub known: Vec<KnownFinding>,
    pub notes: Vec<String>,
    pub rule: String,
    pub assumptions: Vec<String>,
    pub level: &'static str,
    pub extra: BTreeMap<String, Value>,
    pub started: StdInstant,
    pub threads: usize,
    /// replay mode: only this sub-check is run, on this case
    pub strict: bool,
    /// VIOLATION lines reported by a second-profile child run (C02/C03)
    pub external_violations: Vec<String>,
}

impl Ctx {
    pub fn new(id: &'static str, tier: Tier, seed: u64) -> Self {
        let profile = if cfg!(debug_assertions) { "checked" } else { "release" };
        let threads = std::env::var("VERIF_THREADS")
            .ok()
            .and_then(|s| s.parse().ok())
            .unwrap_or_else(|| std::thread::available_parallelism().map(|n| n.get()).unwrap_or(8).min(16));
        Ctx {
            id,
            tier,
            seed,
            profile,
            stats: Stats::default(),
            violations: vec![],
            known: load_known_findings(),
            notes: vec![],
            rule: String::new(),
            assumptions: vec![],
            level: "exploration",
            extra: BTreeMap::new(),
            started: StdInstant::now(),
            threads,
            strict: false,
            external_violations: vec![],
        }
    }

    pub fn is_known(&self, sig: &str) -> Option<&KnownFinding> {
        if self.strict {
            return None;
        }
        self.known.iter().find(|k| {
            k.status == "open" && k.properties.iter().any(|p| p == self.id) && k.signature == sig
        })
    }

    pub fn sub_seed(&self, sub: &str, lane: u64) -> u64 {
        hash64(format!("{}|{}|{}|{}", self.seed, self.id, sub, lane).as_bytes())
    }

    pub fn note(&mut self, s: impl Into<String>) {
        self.notes.push(s.into());
    }
}

// ---------------------------------------------------------------------------------------------
// watchdog

static WATCH_BEATS: [AtomicU64; 64] = [const { AtomicU64::new(0) }; 64];
static WATCH_ON: AtomicBool = AtomicBool::new(false);
static EPOCH: Mutex<Option<StdInstant>> = Mutex::new(None);
thread_local! { static LANE: RefCell<usize> = const { RefCell::new(63) }; }

fn now_ms() -> u64 {
    let mut g = EPOCH.lock().unwrap();
    let e = g.get_or_insert_with(StdInstant::now);
    e.elapsed().as_millis() as u64 + 1
}

pub fn set_lane(l: usize) {
    LANE.with(|x| *x.borrow_mut() = l.min(63));
}
#[inline]
pub fn beat_start() {
    if WATCH_ON.load(Ordering::Relaxed) {
        let l = LANE.with(|x| *x.borrow());
        WATCH_BEATS[l].store(now_ms(), Ordering::Relaxed);
    }
}
#[inline]
pub fn beat_end() {
    if WATCH_ON.load(Ordering::Relaxed) {
        let l = LANE.with(|x| *x.borrow());
        WATCH_BEATS[l].store(0, Ordering::Relaxed);
    }
}

/// Starts a watchdog: if any single case runs longer than `limit_s`, the process exits 2
/// (inconclusive), never 1.
pub fn start_watchdog(id: &'static str, limit_s: u64) {
    WATCH_ON.store(true, Ordering::SeqCst);
    std::thread::spawn(move || loop {
        std::thread::sleep(std::time::Duration::from_millis(500));
        let now = now_ms();
        for b in WATCH_BEATS.iter() {
            let t = b.load(Ordering::Relaxed);
            if t != 0 && now > t && now - t > limit_s * 1000 {
                println!(
                    "INCONCLUSIVE property={} a single case exceeded the {} s watchdog (possible unbounded loop); journal under {}/replays",
                    id, limit_s, VERIF_DIR
                );
                std::process::exit(2);
            }
        }
    });
}

// ---------------------------------------------------------------------------------------------
// journaling (C03: process death attribution)

static JOURNAL_ON: AtomicBool = AtomicBool::new(false);
pub fn enable_journal() {
    JOURNAL_ON.store(true, Ordering::SeqCst);
}
pub fn journal_path(id: &str, lane: usize) -> String {
    format!("{}/replays/{}-journal-{}.json", VERIF_DIR, id, lane)
}
fn journal(id: &str, sub: &str, case: &Value) {
    if JOURNAL_ON.load(Ordering::Relaxed) {
        let l = LANE.with(|x| *x.borrow());
        let _ = std::fs::write(
            journal_path(id, l),
            serde_json::to_vec(&json!({"property": id, "sub": sub, "case": case})).unwrap(),
        );
    }
}

// ---------------------------------------------------------------------------------------------
// sub-checks

pub trait SubCheck: Sync {
    type Case: serde::Serialize + serde::de::DeserializeOwned + std::fmt::Debug + Clone + Send + 'static;
    fn name(&self) -> &'static str;
    fn eval(&self, case: &Self::Case) -> Outcome;
}

fn record(stats: &mut Stats, case_json: &Value, o: &Outcome) {
    stats.evaluations += 1;
    if o.unjudged {
        stats.unjudged += 1;
    }
    for c in &o.classes {
        *stats.classes.entry((*c).to_string()).or_default() += 1;
    }
    if o.nontrivial {
        stats.nontrivial_total += 1;
        // bounded memory: beyond 4M distinct hashes stop inserting (count is then a lower bound)
        if stats.distinct.len() < 4_000_000 {
            let bytes = serde_json::to_vec(case_json).unwrap();
            stats.distinct.insert(hash64(&bytes));
        }
        // keep samples: first of each class combination, up to 12 per lane
        let key = o.classes.join("+");
        if stats.samples.len() < 12 && stats.sample_classes.insert(key) {
            stats.samples.push(case_json.clone());
        }
    }
}

/// Evaluate one case with panic capture; a panic is a failure with signature `panic@file:line`.
pub fn eval_guarded<S: SubCheck>(id: &str, sub: &S, case: &S::Case) -> Outcome {
    beat_start();
    if JOURNAL_ON.load(Ordering::Relaxed) {
        journal(id, sub.name(), &serde_json::to_value(case).unwrap());
    }
    let r = guard(|| sub.eval(case));
    beat_end();
    match r {
        Ok(o) => o,
        Err(p) => {
            let loc = p.split(": ").next().unwrap_or("panic@?").to_string();
            Outcome::pass()
                .class("panic")
                .nontrivial(true)
                .fail(format!("{}/{}/{}", id, sub.name(), loc), "no panic", p)
        }
    }
}

fn write_replay(id: &str, sub: &str, case: &Value, fail: &Fail) -> String {
    let body = json!({"property": id, "sub": sub, "case": case, "signature": fail.sig,
        "expected": fail.expected, "actual": fail.actual});
    let text = serde_json::to_string_pretty(&body).unwrap();
    let h = hash64(serde_json::to_vec(&json!([sub, case])).unwrap().as_slice());
    let path = format!("{}/replays/{}-{:016x}.json", VERIF_DIR, id, h);
    let _ = std::fs::create_dir_all(format!("{}/replays", VERIF_DIR));
    let _ = std::fs::write(&path, text);
    path
}

impl Ctx {
    fn handle_lane_result(&mut self, sub: &str, stats: Stats, viol: Option<(Value, Fail)>) {
        self.stats.merge(stats);
        if let Some((case, fail)) = viol {
            // one violation per (sub, signature) is enough
            if !self.violations.iter().any(|v| v.sub == sub && v.fail.sig == fail.sig) {
                let path = write_replay(self.id, sub, &case, &fail);
                self.violations.push(Violation {
                    sub: sub.to_string(),
                    case,
                    fail,
                    replay_path: path,
                });
            }
        }
    }

    /// Register the outcome of a custom sweep lane (used by exhaustive walks that bypass SubCheck).
    pub fn absorb(&mut self, sub: &str, stats: Stats, viol: Option<(Value, Fail)>) {
        self.handle_lane_result(sub, stats, viol);
    }
    pub fn mark_exhaustive(&mut self, sub: &str) {
        self.stats.exhaustive_subs.push(sub.to_string());
    }

    /// Drive a sub-check with proptest over `cases` generated cases in total, split over the
    /// worker lanes (each lane an independent, deterministically seeded TestRunner). Failures
    /// that are not listed findings are shrunk by proptest; counting stops at the first failure.
    pub fn run_prop<S, St>(&mut self, sub: &S, strategy: &(dyn Fn() -> St + Sync), cases: u64)
    where
        S: SubCheck,
        St: Strategy<Value = S::Case>,
    {
        let lanes = self.threads.max(1) as u64;
        let per = (cases + lanes - 1) / lanes;
        let id = self.id;
        let name = sub.name();
        let mut results: Vec<(Stats, Option<(Value, Fail)>)> = Vec::new();
        let this: &Ctx = self;
        std::thread::scope(|sc| {
            let mut hs = vec![];
            for lane in 0..lanes {
                let seed = this.sub_seed(name, lane);
                hs.push(sc.spawn(move || {
                    set_lane(lane as usize);
                    run_lane(this, id, sub, strategy(), per, seed)
                }));
            }
            for h in hs {
                results.push(h.join().expect("lane thread must not panic"));
            }
        });
        for (st, v) in results {
            self.handle_lane_result(name, st, v);
        }
    }

    /// Drive a sub-check over an explicit finite list / range of cases (enumeration), in parallel.
    /// `make(i)` builds case i of `n`.
    pub fn run_enum<S>(&mut self, sub: &S, n: u64, make: &(dyn Fn(u64) -> S::Case + Sync), exhaustive: bool)
    where
        S: SubCheck,
    {
        let lanes = self.threads.max(1) as u64;
        let id = self.id;
        let name = sub.name();
        let mut results: Vec<(Stats, Option<(Value, Fail)>)> = Vec::new();
        let this: &Ctx = self;
        std::thread::scope(|sc| {
            let mut hs = vec![];
            for lane in 0..lanes {
                hs.push(sc.spawn(move || {
                    set_lane(lane as usize);
                    let mut stats = Stats::default();
                    let mut viol = None;
                    let lo = n * lane / lanes;
                    let hi = n * (lane + 1) / lanes;
                    for i in lo..hi {
                        let case = make(i);
                        let o = eval_guarded(id, sub, &case);
                        let cj = serde_json::to_value(&case).unwrap();
                        record(&mut stats, &cj, &o);
                        if let Some(f) = o.fail {
                            if this.is_known(&f.sig).is_some() {
                                let e = stats.known_hits.entry(f.sig.clone()).or_insert((0, cj.clone()));
                                e.0 += 1;
                            } else if viol.is_none() {
                                viol = Some((cj, f));
                            }
                        }
                    }
                    (stats, viol)
                }));
            }
            for h in hs {
                results.push(h.join().expect("lane thread must not panic"));
            }
        });
        if exhaustive {
            self.stats.exhaustive_subs.push(name.to_string());
        }
        for (st, v) in results {
            self.handle_lane_result(name, st, v);
        }
    }

    /// Replay a single case (strict: known findings are not excused).
    pub fn replay_case<S: SubCheck>(&mut self, sub: &S, case: &Value) -> bool {
        let case: S::Case = match serde_json::from_value(case.clone()) {
            Ok(c) => c,
            Err(e) => {
                println!("replay: cannot decode case for {}: {}", sub.name(), e);
                return false;
            }
        };
        let o = eval_guarded(self.id, sub, &case);
        let cj = serde_json::to_value(&case).unwrap();
        record(&mut self.stats, &cj, &o);
        if let Some(f) = o.fail {
            println!("replay: FAIL sig={} expected={} actual={}", f.sig, f.expected, f.actual);
            let path = write_replay(self.id, sub.name(), &cj, &f);
            self.violations.push(Violation {
                sub: sub.name().to_string(),
                case: cj,
                fail: f,
                replay_path: path,
            });
        } else {
            println!("replay: PASS ({})", sub.name());
        }
        true
    }
}

/// `VERIF_SURVEY=1`: development aid, never set by the registered commands
pub fn survey_mode() -> bool {
    std::env::var("VERIF_SURVEY").map(|v| v == "1").unwrap_or(false)
}

fn run_lane<S, St>(ctx: &Ctx, id: &str, sub: &S, strategy: St, cases: u64, seed: u64) -> (Stats, Option<(Value, Fail)>)
where
    S: SubCheck,
    St: Strategy<Value = S::Case>,
{
    let mut seed_bytes = [0u8; 32];
    for i in 0..4 {
        seed_bytes[i * 8..i * 8 + 8].copy_from_slice(&hash64(&[seed.to_le_bytes().as_slice(), &[i as u8]].concat()).to_le_bytes());
    }
    let _ = RngSeed::Random;
    let config = Config {
        cases: cases.min(u32::MAX as u64) as u32,
        failure_persistence: None,
        max_shrink_iters: 4096,
        max_global_rejects: 1 << 30,
        ..Config::default()
    };
    let rng = proptest::test_runner::TestRng::from_seed(RngAlgorithm::ChaCha, &seed_bytes);
    let mut runner = TestRunner::new_with_rng(config, rng);
    let stats = RefCell::new(Stats::default());
    let failed = RefCell::new(false);
    let last_fail: RefCell<Option<(Value, Fail)>> = RefCell::new(None);
    let result = runner.run(&strategy, |case| {
        let o = eval_guarded(id, sub, &case);
        let counting = !*failed.borrow();
        let cj = serde_json::to_value(&case).unwrap();
        if counting {
            record(&mut stats.borrow_mut(), &cj, &o);
        }
        if let Some(f) = o.fail {
            if ctx.is_known(&f.sig).is_some() {
                if counting {
                    let mut st = stats.borrow_mut();
                    let e = st.known_hits.entry(f.sig.clone()).or_insert((0, cj.clone()));
                    e.0 += 1;
                }
                return Ok(());
            }
            if survey_mode() {
                // development aid: count every unlisted failure signature and keep going
                if counting {
                    let mut st = stats.borrow_mut();
                    *st.classes.entry(format!("SURVEY-FAIL:{}", f.sig)).or_default() += 1;
                    let key = format!("SURVEY-EXAMPLE:{}", f.sig);
                    if !st.sample_classes.contains(&key) {
                        st.sample_classes.insert(key);
                        eprintln!("SURVEY {} :: case={} expected={} actual={}", f.sig, cj, f.expected, f.actual);
                    }
                }
                return Ok(());
            }
            *failed.borrow_mut() = true;
            *last_fail.borrow_mut() = Some((cj, f.clone()));
            return Err(TestCaseError::fail(f.sig));
        }
        Ok(())
    });
    let viol = match result {
        Ok(()) => None,
        Err(TestError::Fail(_, minimal)) => {
            // re-evaluate the minimal case to get its own failure description
            let o = eval_guarded(id, sub, &minimal);
            let cj = serde_json::to_value(&minimal).unwrap();
            match o.fail {
                Some(f) if ctx.is_known(&f.sig).is_none() => Some((cj, f)),
                _ => last_fail.borrow_mut().take(),
            }
        }
        Err(TestError::Abort(reason)) => {
            // generator problem (too many rejects): not a violation of the property
            stats
                .borrow_mut()
                .classes
                .entry(format!("generator-abort:{}", reason))
                .or_default()
                .add_assign(1);
            None
        }
    };
    (stats.into_inner(), viol)
}

use std::ops::AddAssign;

/// Generate a single value from a strategy with a fixed seed (used for fixed operand sets).
pub fn sample_strategy<St: Strategy>(strategy: &St, seed: u64, n: usize) -> Vec<St::Value> {
    let mut seed_bytes = [0u8; 32];
    seed_bytes[..8].copy_from_slice(&seed.to_le_bytes());
    let rng = proptest::test_runner::TestRng::from_seed(RngAlgorithm::ChaCha, &seed_bytes);
    let mut runner = TestRunner::new_with_rng(Config::default(), rng);
    (0..n)
        .map(|_| strategy.new_tree(&mut runner).expect("strategy must generate").current())
        .collect()
}

// ---------------------------------------------------------------------------------------------
// second profile (C02, C03): the same check in the `release` build (wrapping arithmetic, no debug assertions)

impl Ctx {
    /// Runs this property in the release-profile binary named by TVERIF_RELEASE_BIN (built by ./check) and
    /// folds its result into this run: VIOLATION lines are re-printed, its counts go into the evidence.
    pub fn run_release_profile(&mut self) {
        if std::env::var("TVERIF_CHILD").is_ok() || self.profile == "release" {
            return;
        }
        let Ok(bin) = std::env::var("TVERIF_RELEASE_BIN") else {
            self.note("release profile not run: TVERIF_RELEASE_BIN not set (run through ./check)");
            self.extra.insert("release_profile".into(), json!({"ran": false}));
            return;
        };
        if !std::path::Path::new(&bin).exists() {
            self.note(format!("release profile not run: {bin} does not exist"));
            self.extra.insert("release_profile".into(), json!({"ran": false}));
            return;
        }
        let ev_path = format!("{}/replays/{}-release-evidence.json", VERIF_DIR, self.id);
        let out = std::process::Command::new(&bin)
            .arg(self.id)
            .arg(self.tier.name())
            .arg("--evidence-path")
            .arg(&ev_path)
            .env("TVERIF_CHILD", "1")
            .env("VERIF_SEED", self.seed.to_string())
            .output();
        match out {
            Ok(o) => {
                let text = String::from_utf8_lossy(&o.stdout).to_string();
                let code = o.status.code().unwrap_or(-1);
                let mut lines = text.lines().peekable();
                while let Some(l) = lines.next() {
                    if l.starts_with("VIOLATION") {
                        let mut block = format!("{l} [profile=release]");
                        while let Some(n) = lines.peek() {
                            if n.starts_with("  ") {
                                block.push('\n');
                                block.push_str(n);
                                lines.next();
                            } else {
                                break;
                            }
                        }
                        self.external_violations.push(block);
                    } else if l.starts_with("KNOWN-FINDING") {
                        println!("{l} [profile=release]");
                    }
                }
                let ev: Value = std::fs::read_to_string(&ev_path).ok().and_then(|t| serde_json::from_str(&t).ok()).unwrap_or(Value::Null);
                self.extra.insert(
                    "release_profile".into(),
                    json!({"ran": true, "exit_code": code, "evaluations": ev["coverage"]["evaluations"], "distinct_nontrivial": ev["coverage"]["distinct_nontrivial"],
                           "known_findings_hit": ev["coverage"]["known_findings_hit"], "violations": ev["violations"], "wall_s": ev["wall_s"]}),
                );
                if code != 0 && code != 1 {
                    println!("INCONCLUSIVE property={} release-profile run ended with status {code}", self.id);
                    std::process::exit(2);
                }
                if code == 1 && self.external_violations.is_empty() {
                    self.external_violations.push(format!("VIOLATION property={} replay={} [profile=release, see its output]", self.id, ev_path));
                }
            }
            Err(e) => {
                println!("INCONCLUSIVE property={} cannot start the release-profile binary: {e}", self.id);
                std::process::exit(2);
            }
        }
    }
}

// ---------------------------------------------------------------------------------------------
// evidence + exit

impl Ctx {
    pub fn evidence_json(&self) -> Value {
        let mut cov = serde_json::Map::new();
        cov.insert("evaluations".into(), json!(self.stats.evaluations));
        cov.insert("distinct_nontrivial".into(), json!(self.stats.distinct.len() as u64 + self.stats.distinct_by_construction));
        cov.insert("nontrivial_evaluations".into(), json!(self.stats.nontrivial_total));
        cov.insert("unjudged".into(), json!(self.stats.unjudged));
        cov.insert("rule".into(), json!(self.rule));
        cov.insert("samples".into(), json!(self.stats.samples));
        cov.insert("class_histogram".into(), json!(self.stats.classes));
        if !self.stats.exhaustive_subs.is_empty() {
            cov.insert("exhaustive".into(), json!(true));
            cov.insert("exhaustive_subchecks".into(), json!(self.stats.exhaustive_subs));
        }
        let kh: BTreeMap<String, Value> = self
            .stats
            .known_hits
            .iter()
            .map(|(k, (n, ex))| (k.clone(), json!({"cases_excluded": n, "example": ex})))
            .collect();
        cov.insert("known_findings_hit".into(), json!(kh));
        cov.insert("profile".into(), json!(self.profile));
        cov.insert("notes".into(), json!(self.notes));
        for (k, v) in &self.extra {
            cov.insert(k.clone(), v.clone());
        }
        json!({
            "property_id": self.id,
            "tier": self.tier.name(),
            "seed": self.seed,
            "level": self.level,
            "coverage": Value::Object(cov),
            "assumptions": self.assumptions,
            "wall_s": self.started.elapsed().as_secs_f64(),
            "violations": self.violations.len() + self.external_violations.len(),
        })
    }

    /// Print KNOWN-FINDING / VIOLATION lines, write evidence, return exit code.
    pub fn finish(&self, write_evidence_to: Option<&str>) -> i32 {
        for (sig, (n, _)) in &self.stats.known_hits {
            let summary = self
                .known
                .iter()
                .find(|k| &k.signature == sig)
                .map(|k| format!("{} [{}]", k.summary, k.id))
                .unwrap_or_default();
            println!("KNOWN-FINDING: property={} {} :: {} ({} cases)", self.id, sig, summary, n);
        }
        for v in &self.violations {
            println!(
                "VIOLATION property={} replay={}\n  sub={} sig={}\n  case={}\n  expected={}\n  actual={}",
                self.id, v.replay_path, v.sub, v.fail.sig, v.case, v.fail.expected, v.fail.actual
            );
        }
        if let Some(p) = write_evidence_to {
            let ev = self.evidence_json();
            let _ = std::fs::create_dir_all(format!("{}/evidence", VERIF_DIR));
            std::fs::write(p, serde_json::to_string_pretty(&ev).unwrap()).expect("write evidence");
        }
        println!(
            "[{} {} seed={} profile={}] evaluations={} distinct_nontrivial={} known_hit={} violations={} wall={:.1}s",
            self.id,
            self.tier.name(),
            self.seed,
            self.profile,
            self.stats.evaluations,
            self.stats.distinct.len() as u64 + self.stats.distinct_by_construction,
            self.stats.known_hits.values().map(|x| x.0).sum::<u64>(),
            self.violations.len(),
            self.started.elapsed().as_secs_f64()
        );
        if crate::conv::negzero_survey() {
            eprintln!("NEGZERO-SURVEY {}: {} observed durations with a -0.0 field", self.id, crate::conv::NEGZERO.load(std::sync::atomic::Ordering::Relaxed));
        }
        for l in &self.external_violations {
            println!("{l}");
        }
        if self.violations.is_empty() && self.external_violations.is_empty() {
            0
        } else {
            1
        }
    }
}
