//! Conversions between reference-model values and temporal_rs values, plus small API helpers.

use crate::refm::dateadd::{Dt, Overflow, RErr, Ymd};
use crate::refm::dur::{Dur, U};
use crate::refm::round::Mode;
use temporal_rs::error::ErrorKind;
use temporal_rs::options::{
    ArithmeticOverflow, DifferenceSettings, RoundingIncrement, RoundingMode, RoundingOptions, Unit,
};
use temporal_rs::primitive::FiniteF64;
use temporal_rs::{Calendar, Duration, PlainDate, PlainDateTime, PlainTime, TemporalError, TemporalResult};

pub fn unit(u: U) -> Unit {
    match u {
        U::Year => Unit::Year,
        U::Month => Unit::Month,
        U::Week => Unit::Week,
        U::Day => Unit::Day,
        U::Hour => Unit::Hour,
        U::Minute => Unit::Minute,
        U::Second => Unit::Second,
        U::Millisecond => Unit::Millisecond,
        U::Microsecond => Unit::Microsecond,
        U::Nanosecond => Unit::Nanosecond,
    }
}
pub fn mode(m: Mode) -> RoundingMode {
    match m {
        Mode::Ceil => RoundingMode::Ceil,
        Mode::Floor => RoundingMode::Floor,
        Mode::Expand => RoundingMode::Expand,
        Mode::Trunc => RoundingMode::Trunc,
        Mode::HalfCeil => RoundingMode::HalfCeil,
        Mode::HalfFloor => RoundingMode::HalfFloor,
        Mode::HalfExpand => RoundingMode::HalfExpand,
        Mode::HalfTrunc => RoundingMode::HalfTrunc,
        Mode::HalfEven => RoundingMode::HalfEven,
    }
}
pub fn overflow(o: Overflow) -> ArithmeticOverflow {
    match o {
        Overflow::Constrain => ArithmeticOverflow::Constrain,
        Overflow::Reject => ArithmeticOverflow::Reject,
    }
}
pub fn iso() -> Calendar {
    Calendar::default()
}

pub fn diff_settings(largest: Option<Unit>, smallest: Option<Unit>, inc: Option<u32>, mode_: Option<RoundingMode>) -> DifferenceSettings {
    let mut s = DifferenceSettings::default();
    s.largest_unit = largest;
    s.smallest_unit = smallest;
    s.increment = inc.map(|i| RoundingIncrement::try_new(i).expect("increment 1..=1e9"));
    s.rounding_mode = mode_;
    s
}
pub fn round_options(largest: Option<Unit>, smallest: Option<Unit>, inc: Option<u32>, mode_: Option<RoundingMode>) -> RoundingOptions {
    let mut s = RoundingOptions::default();
    s.largest_unit = largest;
    s.smallest_unit = smallest;
    s.increment = inc.map(|i| RoundingIncrement::try_new(i).expect("increment 1..=1e9"));
    s.rounding_mode = mode_;
    s
}

pub fn ff(v: f64) -> FiniteF64 {
    FiniteF64::try_from(v).expect("finite")
}

/// build a Duration from ten doubles through the validating constructor
pub fn duration_from_f64s(v: &[f64; 10]) -> TemporalResult<Duration> {
    Duration::new(ff(v[0]), ff(v[1]), ff(v[2]), ff(v[3]), ff(v[4]), ff(v[5]), ff(v[6]), ff(v[7]), ff(v[8]), ff(v[9]))
}
pub fn duration_from_dur(d: &Dur) -> TemporalResult<Duration> {
    duration_from_f64s(&d.to_f64s())
}
pub fn duration_fields(d: &Duration) -> [f64; 10] {
    let f = duration_fields_raw(d);
    if negzero_survey() && f.iter().any(|v| *v == 0.0 && v.is_sign_negative()) {
        NEGZERO.fetch_add(1, std::sync::atomic::Ordering::Relaxed);
    }
    f
}
/// development aid (`VERIF_NEGZERO_SURVEY=1`): how many observed durations carry a -0.0 field
pub static NEGZERO: std::sync::atomic::AtomicU64 = std::sync::atomic::AtomicU64::new(0);
pub fn negzero_survey() -> bool {
    static ON: std::sync::OnceLock<bool> = std::sync::OnceLock::new();
    *ON.get_or_init(|| std::env::var("VERIF_NEGZERO_SURVEY").is_ok())
}
fn duration_fields_raw(d: &Duration) -> [f64; 10] {
    [
        d.years().as_inner(),
        d.months().as_inner(),
        d.weeks().as_inner(),
        d.days().as_inner(),
        d.hours().as_inner(),
        d.minutes().as_inner(),
        d.seconds().as_inner(),
        d.milliseconds().as_inner(),
        d.microseconds().as_inner(),
        d.nanoseconds().as_inner(),
    ]
}
/// -0.0 and 0.0 compare equal here on purpose (sign of zero is not observable through Temporal)
pub fn fields_eq(a: &[f64; 10], b: &[f64; 10]) -> bool {
    a.iter().zip(b.iter()).all(|(x, y)| x == y)
}

pub fn kind_name(k: ErrorKind) -> &'static str {
    match k {
        ErrorKind::Generic => "Generic",
        ErrorKind::Type => "Type",
        ErrorKind::Range => "Range",
        ErrorKind::Syntax => "Syntax",
        ErrorKind::Assert => "Assert",
    }
}
pub fn err_str(e: &TemporalError) -> String {
    format!("Err({}:{})", kind_name(e.kind()), e.message())
}
pub fn res_kind<T>(r: &TemporalResult<T>) -> &'static str {
    match r {
        Ok(_) => "Ok",
        Err(e) => kind_name(e.kind()),
    }
}
pub fn rerr_name(e: RErr) -> &'static str {
    match e {
        RErr::Range => "Range",
        RErr::Type => "Type",
    }
}

pub fn plain_date(d: Ymd) -> TemporalResult<PlainDate> {
    PlainDate::try_new(d.y as i32, d.m, d.d, iso())
}
pub fn ymd_of(d: &PlainDate) -> Ymd {
    Ymd::new(d.iso_year() as i64, d.iso_month(), d.iso_day())
}
/// split ns-of-day into (h, mi, s, ms, us, ns)
pub fn split_ns(ns: i128) -> (u8, u8, u8, u16, u16, u16) {
    let n = ns as u64;
    (
        (n / 3_600_000_000_000) as u8,
        (n / 60_000_000_000 % 60) as u8,
        (n / 1_000_000_000 % 60) as u8,
        (n / 1_000_000 % 1000) as u16,
        (n / 1_000 % 1000) as u16,
        (n % 1000) as u16,
    )
}
pub fn plain_time(ns: i128) -> TemporalResult<PlainTime> {
    let (h, mi, s, ms, us, n) = split_ns(ns);
    PlainTime::try_new(h, mi, s, ms, us, n)
}
pub fn time_ns(t: &PlainTime) -> i128 {
    ((t.hour() as i128 * 60 + t.minute() as i128) * 60 + t.second() as i128) * 1_000_000_000
        + t.millisecond() as i128 * 1_000_000
        + t.microsecond() as i128 * 1_000
        + t.nanosecond() as i128
}
pub fn plain_datetime(dt: Dt) -> TemporalResult<PlainDateTime> {
    let d = Ymd::from_n(dt.day);
    let (h, mi, s, ms, us, n) = split_ns(dt.ns);
    PlainDateTime::try_new(d.y as i32, d.m, d.d, h, mi, s, ms, us, n, iso())
}
pub fn dt_of(p: &PlainDateTime) -> Dt {
    let day = Ymd::new(p.iso_year() as i64, p.iso_month(), p.iso_day()).n();
    let ns = ((p.hour() as i128 * 60 + p.minute() as i128) * 60 + p.second() as i128) * 1_000_000_000
        + p.millisecond() as i128 * 1_000_000
        + p.microsecond() as i128 * 1_000
        + p.nanosecond() as i128;
    Dt { day, ns }
}
