//! Canonical Temporal / RFC 9557 writers from field values (written from the format rules).

use super::civil::from_days;
use super::dur::Dur;

#[derive(Clone, Copy, Debug, PartialEq, Eq, serde::Serialize, serde::Deserialize)]
pub enum Prec {
    Auto,
    Minute,
    Digits(u8),
}

pub fn year(y: i64) -> String {
    if (0..=9999).contains(&y) {
        format!("{:04}", y)
    } else if y < 0 {
        format!("-{:06}", -y)
    } else {
        format!("+{:06}", y)
    }
}
pub fn date(y: i64, m: u8, d: u8) -> String {
    format!("{}-{:02}-{:02}", year(y), m, d)
}
pub fn date_of_day(n: i64) -> String {
    let (y, m, d) = from_days(n);
    date(y, m, d)
}
/// fraction part (with the leading '.') of `sub_ns` (0..1e9) at a precision
pub fn fraction(sub_ns: u32, p: Prec) -> String {
    match p {
        Prec::Minute => String::new(),
        Prec::Auto => {
            if sub_ns == 0 {
                String::new()
            } else {
                let s = format!("{:09}", sub_ns);
                format!(".{}", s.trim_end_matches('0'))
            }
        }
        Prec::Digits(0) => String::new(),
        Prec::Digits(n) => {
            let s = format!("{:09}", sub_ns);
            format!(".{}", &s[..n as usize])
        }
    }
}
/// HH:MM[:SS[.fff]] of ns-of-day (already rounded to the precision)
pub fn time(ns_of_day: i128, p: Prec) -> String {
    let n = ns_of_day as u64;
    let h = n / 3_600_000_000_000;
    let mi = n / 60_000_000_000 % 60;
    let s = n / 1_000_000_000 % 60;
    let sub = (n % 1_000_000_000) as u32;
    match p {
        Prec::Minute => format!("{:02}:{:02}", h, mi),
        _ => format!("{:02}:{:02}:{:02}{}", h, mi, s, fraction(sub, p)),
    }
}
pub fn datetime(day: i64, ns_of_day: i128, p: Prec) -> String {
    format!("{}T{}", date_of_day(day), time(ns_of_day, p))
}
/// +-HH:MM for an offset given in minutes
pub fn offset_minutes(mins: i64) -> String {
    let sign = if mins < 0 { '-' } else { '+' };
    let a = mins.abs();
    format!("{}{:02}:{:02}", sign, a / 60, a % 60)
}
/// increment (ns) that a precision rounds to
pub fn prec_increment(p: Prec) -> i128 {
    match p {
        Prec::Auto => 1,
        Prec::Minute => 60_000_000_000,
        Prec::Digits(n) => 10i128.pow(9 - n as u32),
    }
}

/// TemporalDurationToString for exact integer fields (sub-second fields folded into seconds).
pub fn duration(d: &Dur, p: Prec) -> String {
    let sign = d.sign();
    let a: Vec<i128> = d.f.iter().map(|v| v.abs()).collect();
    let mut date = String::new();
    if a[0] != 0 {
        date += &format!("{}Y", a[0]);
    }
    if a[1] != 0 {
        date += &format!("{}M", a[1]);
    }
    if a[2] != 0 {
        date += &format!("{}W", a[2]);
    }
    if a[3] != 0 {
        date += &format!("{}D", a[3]);
    }
    let mut t = String::new();
    if a[4] != 0 {
        t += &format!("{}H", a[4]);
    }
    if a[5] != 0 {
        t += &format!("{}M", a[5]);
    }
    let sec_ns: i128 = a[6] * 1_000_000_000 + a[7] * 1_000_000 + a[8] * 1_000 + a[9];
    let secs = sec_ns / 1_000_000_000;
    let sub = (sec_ns % 1_000_000_000) as u32;
    let zero_minutes_and_higher = a[0] == 0 && a[1] == 0 && a[2] == 0 && a[3] == 0 && a[4] == 0 && a[5] == 0;
    if sec_ns != 0 || zero_minutes_and_higher || p != Prec::Auto {
        t += &format!("{}{}S", secs, fraction(sub, p));
    }
    let mut out = String::new();
    if sign < 0 {
        out.push('-');
    }
    out.push('P');
    out += &date;
    if !t.is_empty() {
        out.push('T');
        out += &t;
    }
    out
}

/// +-HH:MM or +-HH:MM:SS for an offset in seconds
pub fn offset_seconds(secs: i64) -> String {
    let sign = if secs < 0 { '-' } else { '+' };
    let a = secs.abs();
    if a % 60 == 0 {
        format!("{}{:02}:{:02}", sign, a / 3600, a / 60 % 60)
    } else {
        format!("{}{:02}:{:02}:{:02}", sign, a / 3600, a / 60 % 60, a % 60)
    }
}
