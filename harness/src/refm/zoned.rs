//! Zone-aware arithmetic on a rule table: AddZonedDateTime, DifferenceZonedDateTime(WithRounding),
//! RoundRelativeDuration / TotalRelativeDuration with a zone.

use super::civil::*;
use super::dateadd::*;
use super::dur::{Dur, U, UNITS};
use super::relround::{choose_up_pub, Internal};
use super::round::{round_int, Mode};
use super::tz::{Disamb, Zone, S};

pub fn wall_dt(z: &Zone, t: i128) -> Dt {
    let w = z.wall_of(t);
    Dt { day: w.div_euclid(NS_PER_DAY) as i64, ns: w.rem_euclid(NS_PER_DAY) }
}
fn resolve_dt(z: &Zone, dt: Dt) -> Result<i128, RErr> {
    if !date_in_range(dt.day) {
        return Err(RErr::Range);
    }
    let t = z.resolve(dt.abs_ns(), Disamb::Compatible).map_err(|_| RErr::Range)?;
    if !instant_in_range(t) {
        return Err(RErr::Range);
    }
    Ok(t)
}

/// AddZonedDateTime
pub fn zoned_add(z: &Zone, t: i128, d: &Dur, ov: Overflow) -> Result<i128, RErr> {
    let out = if d.f[0] == 0 && d.f[1] == 0 && d.f[2] == 0 && d.f[3] == 0 {
        t + d.time_ns()
    } else {
        let w = wall_dt(z, t);
        let date = date_add(Ymd::from_n(w.day), d.f[0], d.f[1], d.f[2], d.f[3], ov)?;
        let inter = Dt { day: date.n(), ns: w.ns };
        if !inter.in_range() {
            return Err(RErr::Range);
        }
        resolve_dt(z, inter)? + d.time_ns()
    };
    if !instant_in_range(out) {
        return Err(RErr::Range);
    }
    Ok(out)
}

/// DifferenceZonedDateTime for a date largest unit
pub fn zoned_diff(z: &Zone, t1: i128, t2: i128, largest: U) -> Result<Internal, RErr> {
    if t1 == t2 {
        return Ok(Internal { y: 0, mo: 0, w: 0, d: 0, t: 0 });
    }
    let start = wall_dt(z, t1);
    let end = wall_dt(z, t2);
    // same wall-clock date: no whole day lies between the two instants whatever their wall-clock order (inside a
    // repeated hour it can be the reverse of their exact order); the result is the exact elapsed time
    if start.day == end.day {
        return Ok(Internal { y: 0, mo: 0, w: 0, d: 0, t: t2 - t1 });
    }
    let sign: i128 = if t2 - t1 < 0 { -1 } else { 1 };
    // the same holds when the two local *dates* are in the reverse of the exact order (a backward transition that
    // crosses local midnight, e.g. America/St_Johns 2005-10-30 00:01 -> 2005-10-29 23:01): no whole day lies between
    // the instants. The specified steps produce a date part of -sign days next to a time part of more than a day there
    // and violate their own sign assertion; the statement (a sign-uniform result that add() maps back, with a time part
    // shorter than the local day) has exactly one answer, the elapsed time
    if ((end.day - start.day).signum() as i128) == -sign {
        return Ok(Internal { y: 0, mo: 0, w: 0, d: 0, t: t2 - t1 });
    }
    let max_corr = if sign == 1 { 2 } else { 1 };
    let mut corr: i128 = if (end.ns - start.ns).signum() == -sign { 1 } else { 0 };
    let mut success = false;
    let mut inter_day = end.day;
    let mut time = 0i128;
    while corr <= max_corr && !success {
        inter_day = end.day - (corr * sign) as i64;
        let inter_ns = resolve_dt(z, Dt { day: inter_day, ns: start.ns })?;
        time = t2 - inter_ns;
        if sign != -time.signum() {
            success = true;
        }
        corr += 1;
    }
    if !success {
        // the specification asserts success; rule sets where it fails are outside the statement
        return Err(RErr::Type);
    }
    let date_largest = largest.larger_of(U::Day);
    let (y, mo, w, d) = date_diff(Ymd::from_n(start.day), Ymd::from_n(inter_day), date_largest);
    let out = Internal { y: y as i128, mo: mo as i128, w: w as i128, d: d as i128, t: time };
    // CombineDateAndTimeDuration asserts that date and time parts agree in sign; around backward
    // transitions (wall clock order opposite to instant order) the specified algorithm itself violates
    // that assertion: outside the regime of the statement
    let ds = [out.y, out.mo, out.w, out.d].iter().map(|v| v.signum()).find(|s| *s != 0).unwrap_or(0);
    if ds != 0 && out.t != 0 && ds != out.t.signum() {
        return Err(RErr::Type);
    }
    Ok(out)
}

fn add_date_zoned(z: &Zone, r: Dt, y: i128, mo: i128, w: i128, d: i128) -> Result<i128, RErr> {
    let date = date_add(Ymd::from_n(r.day), y, mo, w, d, Overflow::Constrain)?;
    resolve_dt(z, Dt { day: date.n(), ns: r.ns })
}

pub struct ZNudge {
    pub dur: Internal,
    pub nudged: i128,
    pub expanded: bool,
    pub total: (i128, i128),
}

fn trunc_to(v: i128, inc: i128) -> i128 {
    (v / inc) * inc
}

/// NudgeToCalendarUnit with a zone (unit may be day)
pub fn nudge_calendar_zoned(z: &Zone, sign: i128, dur: Internal, dest: i128, r: Dt, inc: i128, unit: U, mode: Mode) -> Result<ZNudge, RErr> {
    let (r1, r2, sd, ed) = match unit {
        U::Year => {
            let r1 = trunc_to(dur.y, inc);
            (r1, r1 + inc * sign, Internal { y: r1, mo: 0, w: 0, d: 0, t: 0 }, Internal { y: r1 + inc * sign, mo: 0, w: 0, d: 0, t: 0 })
        }
        U::Month => {
            let r1 = trunc_to(dur.mo, inc);
            (r1, r1 + inc * sign, Internal { y: dur.y, mo: r1, w: 0, d: 0, t: 0 }, Internal { y: dur.y, mo: r1 + inc * sign, w: 0, d: 0, t: 0 })
        }
        U::Week => {
            let weeks = dur.w + dur.d / 7;
            let r1 = trunc_to(weeks, inc);
            (r1, r1 + inc * sign, Internal { y: dur.y, mo: dur.mo, w: r1, d: 0, t: 0 }, Internal { y: dur.y, mo: dur.mo, w: r1 + inc * sign, d: 0, t: 0 })
        }
        U::Day => {
            let r1 = trunc_to(dur.d, inc);
            (r1, r1 + inc * sign, Internal { y: dur.y, mo: dur.mo, w: dur.w, d: r1, t: 0 }, Internal { y: dur.y, mo: dur.mo, w: dur.w, d: r1 + inc * sign, t: 0 })
        }
        _ => panic!("unit"),
    };
    let _ = r2;
    let s_ns = add_date_zoned(z, r, sd.y, sd.mo, sd.w, sd.d)?;
    let e_ns = add_date_zoned(z, r, ed.y, ed.mo, ed.w, ed.d)?;
    if s_ns == e_ns {
        return Err(RErr::Range);
    }
    let num = (dest - s_ns) * sign;
    let den = (e_ns - s_ns) * sign;
    if den <= 0 {
        // the end is not on the far side of the start: outside the regime of the statement
        return Err(RErr::Type);
    }
    let total = (r1 * den + num * inc * sign, den);
    let up = if num <= 0 {
        false
    } else if num >= den {
        true
    } else {
        choose_up_pub(num, den, mode, sign < 0, (r1.abs() / inc) % 2 == 0)
    };
    Ok(if up { ZNudge { dur: ed, nudged: e_ns, expanded: true, total } } else { ZNudge { dur: sd, nudged: s_ns, expanded: false, total } })
}

/// NudgeToZonedTime
pub fn nudge_zoned_time(z: &Zone, sign: i128, dur: Internal, r: Dt, inc: i128, unit: U, mode: Mode) -> Result<ZNudge, RErr> {
    let start_date = date_add(Ymd::from_n(r.day), dur.y, dur.mo, dur.w, dur.d, Overflow::Constrain)?;
    let start_dt = Dt { day: start_date.n(), ns: r.ns };
    let end_dt = Dt { day: start_dt.day + sign as i64, ns: r.ns };
    let s_ns = resolve_dt(z, start_dt)?;
    let e_ns = resolve_dt(z, end_dt)?;
    let day_span = e_ns - s_ns;
    let q = inc * unit.ns();
    let mut rounded = round_int(dur.t, q, mode);
    let beyond = rounded - day_span;
    let (expanded, delta, nudged);
    if beyond.signum() != -sign {
        expanded = true;
        delta = sign;
        rounded = round_int(beyond, q, mode);
        nudged = rounded + e_ns;
    } else {
        expanded = false;
        delta = 0;
        nudged = rounded + s_ns;
    }
    Ok(ZNudge { dur: Internal { y: dur.y, mo: dur.mo, w: dur.w, d: dur.d + delta, t: rounded }, nudged, expanded, total: (0, 1) })
}

pub fn bubble_zoned(z: &Zone, sign: i128, mut dur: Internal, nudged: i128, r: Dt, largest: U, start_unit: U) -> Result<Internal, RErr> {
    if start_unit == largest {
        return Ok(dur);
    }
    let mut idx = start_unit.idx() as i32 - 1;
    while idx >= largest.idx() as i32 {
        let unit = UNITS[idx as usize];
        if unit != U::Week || largest == U::Week {
            let ed = match unit {
                U::Year => Internal { y: dur.y + sign, mo: 0, w: 0, d: 0, t: 0 },
                U::Month => Internal { y: dur.y, mo: dur.mo + sign, w: 0, d: 0, t: 0 },
                U::Week => Internal { y: dur.y, mo: dur.mo, w: dur.w + sign, d: 0, t: 0 },
                _ => panic!("bubble unit"),
            };
            let e_ns = add_date_zoned(z, r, ed.y, ed.mo, ed.w, ed.d)?;
            let beyond = nudged - e_ns;
            if beyond.signum() != -sign {
                dur = ed;
            } else {
                break;
            }
        }
        idx -= 1;
    }
    Ok(dur)
}

/// DifferenceZonedDateTimeWithRounding for a *date* largest unit
pub fn zoned_diff_rounded(z: &Zone, t1: i128, t2: i128, largest: U, inc: i128, smallest: U, mode: Mode) -> Result<Internal, RErr> {
    let diff = zoned_diff(z, t1, t2, largest)?;
    if smallest == U::Nanosecond && inc == 1 {
        return Ok(diff);
    }
    let r = wall_dt(z, t1);
    let sign = if diff.sign() < 0 { -1 } else { 1 };
    let irregular = smallest.is_calendar() || smallest == U::Day;
    let n = if irregular { nudge_calendar_zoned(z, sign, diff, t2, r, inc, smallest, mode)? } else { nudge_zoned_time(z, sign, diff, r, inc, smallest, mode)? };
    let mut out = n.dur;
    if n.expanded && smallest != U::Week {
        let start_unit = smallest.larger_of(U::Day);
        out = bubble_zoned(z, sign, out, n.nudged, r, largest, start_unit)?;
    }
    Ok(out)
}

/// DifferenceZonedDateTimeWithTotal: exact rational
pub fn zoned_total(z: &Zone, t1: i128, t2: i128, unit: U) -> Result<(i128, i128), RErr> {
    if unit.is_time() {
        return Ok((t2 - t1, unit.ns()));
    }
    let diff = zoned_diff(z, t1, t2, unit)?;
    let r = wall_dt(z, t1);
    let sign = if diff.sign() < 0 { -1 } else { 1 };
    // NOTE: no shortcut for t1 == t2: the specification measures from the compatible resolution of the
    // receiver's wall time, which differs from t1 for a receiver in the second occurrence of a repeated hour
    let n = nudge_calendar_zoned(z, sign, diff, t2, r, 1, unit, Mode::Trunc)?;
    Ok(n.total)
}

/// first instant of the local day containing t, and the elapsed length of that day in ns
pub fn day_bounds(z: &Zone, t: i128) -> Option<(i128, i128)> {
    let w = wall_dt(z, t);
    let a = z.start_of_day(w.day)?;
    let b = z.start_of_day(w.day + 1)?;
    Some((a, b - a))
}

pub fn secs(v: i64) -> i128 {
    v as i128 * S
}
