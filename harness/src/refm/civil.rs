//! Proleptic Gregorian calendar on the day line. Day 0 = 1970-01-01.
//! Two independent algorithms: a day-by-day odometer and a closed form with floor divisions.

pub const MIN_DAY: i64 = -100_000_001; // -271821-04-19
pub const MAX_DAY: i64 = 100_000_000; // +275760-09-13
pub const NS_PER_DAY: i128 = 86_400_000_000_000;
pub const MAX_INSTANT: i128 = 8_640_000_000_000_000_000_000;

pub fn is_leap(y: i64) -> bool {
    (y.rem_euclid(4) == 0 && y.rem_euclid(100) != 0) || y.rem_euclid(400) == 0
}
pub fn dim(y: i64, m: u8) -> u8 {
    match m {
        1 | 3 | 5 | 7 | 8 | 10 | 12 => 31,
        4 | 6 | 9 | 11 => 30,
        2 => {
            if is_leap(y) {
                29
            } else {
                28
            }
        }
        _ => panic!("dim: month {m}"),
    }
}
pub fn diy(y: i64) -> u16 {
    if is_leap(y) {
        366
    } else {
        365
    }
}
pub fn valid_ymd(y: i64, m: i64, d: i64) -> bool {
    (1..=12).contains(&m) && d >= 1 && d <= dim(y, m as u8) as i64
}

/// days before Jan 1 of year y, relative to 1970-01-01 (closed form, floor divisions)
pub fn days_before_year(y: i64) -> i64 {
    let p = y - 1; // completed years since year 1 (proleptic, may be negative)
    365 * p + p.div_euclid(4) - p.div_euclid(100) + p.div_euclid(400) - 719_162
}
const CUM: [i64; 13] = [0, 31, 59, 90, 120, 151, 181, 212, 243, 273, 304, 334, 365];
pub fn day_of_year(y: i64, m: u8, d: u8) -> u16 {
    let mut n = CUM[(m - 1) as usize] + d as i64;
    if m > 2 && is_leap(y) {
        n += 1;
    }
    n as u16
}
/// (y,m,d) -> day number. Requires a valid date.
pub fn to_days(y: i64, m: u8, d: u8) -> i64 {
    days_before_year(y) + day_of_year(y, m, d) as i64 - 1
}
/// day number -> (y,m,d), closed form: estimate year then correct.
pub fn from_days(n: i64) -> (i64, u8, u8) {
    // estimate
    let mut y = 1970 + (n as f64 / 365.2425).floor() as i64;
    while days_before_year(y) > n {
        y -= 1;
    }
    while days_before_year(y + 1) <= n {
        y += 1;
    }
    let mut rem = n - days_before_year(y); // 0-based day of year
    let mut m = 1u8;
    loop {
        let l = dim(y, m) as i64;
        if rem < l {
            break;
        }
        rem -= l;
        m += 1;
    }
    (y, m, (rem + 1) as u8)
}
/// ISO weekday 1=Monday..7=Sunday; 1970-01-01 was a Thursday.
pub fn weekday(n: i64) -> u8 {
    ((n + 3).rem_euclid(7) + 1) as u8
}
/// ISO week number and week-year from the definition: the week belongs to the year that contains
/// its Thursday.
pub fn iso_week(n: i64) -> (u8, i64) {
    let thursday = n - (weekday(n) as i64 - 1) + 3;
    let (ty, tm, td) = from_days(thursday);
    let doy = day_of_year(ty, tm, td) as i64;
    (((doy - 1) / 7 + 1) as u8, ty)
}
pub fn weeks_in_year(y: i64) -> u8 {
    // Dec 28 is always in the last ISO week of its year
    iso_week(to_days(y, 12, 28)).0
}

/// Day-by-day odometer.
#[derive(Clone, Copy, Debug)]
pub struct Odo {
    pub n: i64,
    pub y: i64,
    pub m: u8,
    pub d: u8,
    pub doy: u16,
    pub dow: u8,
}
impl Odo {
    /// Starts at a known anchor: 1970-01-01 (n=0, Thursday).
    pub fn epoch() -> Odo {
        Odo { n: 0, y: 1970, m: 1, d: 1, doy: 1, dow: 4 }
    }
    pub fn next(&mut self) {
        self.n += 1;
        self.dow = if self.dow == 7 { 1 } else { self.dow + 1 };
        if self.d < dim(self.y, self.m) {
            self.d += 1;
            self.doy += 1;
        } else if self.m < 12 {
            self.m += 1;
            self.d = 1;
            self.doy += 1;
        } else {
            self.y += 1;
            self.m = 1;
            self.d = 1;
            self.doy = 1;
        }
    }
    pub fn prev(&mut self) {
        self.n -= 1;
        self.dow = if self.dow == 1 { 7 } else { self.dow - 1 };
        if self.d > 1 {
            self.d -= 1;
            self.doy -= 1;
        } else if self.m > 1 {
            self.m -= 1;
            self.d = dim(self.y, self.m);
            self.doy -= 1;
        } else {
            self.y -= 1;
            self.m = 12;
            self.d = 31;
            self.doy = diy(self.y);
        }
    }
    /// Positions an odometer at day n using the closed form (then the walk continues by odometer).
    pub fn at(n: i64) -> Odo {
        let (y, m, d) = from_days(n);
        Odo { n, y, m, d, doy: day_of_year(y, m, d), dow: weekday(n) }
    }
}

/// balance (year, month) with month any integer
pub fn balance_ym(y: i64, m: i64) -> (i64, u8) {
    (y + (m - 1).div_euclid(12), ((m - 1).rem_euclid(12) + 1) as u8)
}

/// date-time in range: strictly inside +-(8.64e21 + 86400e9) ns, as (day, ns-of-day)
pub fn datetime_in_range(day: i64, ns_of_day: i128) -> bool {
    let t = day as i128 * NS_PER_DAY + ns_of_day;
    t > -(MAX_INSTANT + NS_PER_DAY) && t < MAX_INSTANT + NS_PER_DAY
}
pub fn date_in_range(day: i64) -> bool {
    (MIN_DAY..=MAX_DAY).contains(&day)
}
pub fn instant_in_range(ns: i128) -> bool {
    (-MAX_INSTANT..=MAX_INSTANT).contains(&ns)
}
/// year-month within -271821-04 ..= +275760-09
pub fn ym_in_range(y: i64, m: u8) -> bool {
    (y, m) >= (-271821, 4) && (y, m) <= (275760, 9)
}

/// Self-test: closed form vs odometer over the whole range plus anchors. Returns Err(description).
pub fn self_test() -> Result<u64, String> {
    if to_days(1970, 1, 1) != 0 || to_days(2000, 3, 1) != 11017 || to_days(0, 3, 1) != -719468 {
        return Err("anchor mismatch".into());
    }
    if to_days(-271821, 4, 19) != MIN_DAY || to_days(275760, 9, 13) != MAX_DAY {
        return Err("range end mismatch".into());
    }
    let mut count = 0u64;
    // walk forward from the epoch and backward from the epoch with the odometer; compare closed form
    let mut o = Odo::epoch();
    while o.n <= MAX_DAY + 2 {
        if o.n % 97 == 0 || o.d == 1 || o.d >= 28 {
            if to_days(o.y, o.m, o.d) != o.n || from_days(o.n) != (o.y, o.m, o.d) || weekday(o.n) != o.dow
                || day_of_year(o.y, o.m, o.d) != o.doy
            {
                return Err(format!("closed form vs odometer at {:?}", o));
            }
            count += 1;
        }
        o.next();
    }
    let mut o = Odo::epoch();
    while o.n >= MIN_DAY - 2 {
        if o.n % 97 == 0 || o.d == 1 || o.d >= 28 {
            if to_days(o.y, o.m, o.d) != o.n || from_days(o.n) != (o.y, o.m, o.d) || weekday(o.n) != o.dow
                || day_of_year(o.y, o.m, o.d) != o.doy
            {
                return Err(format!("closed form vs odometer at {:?}", o));
            }
            count += 1;
        }
        o.prev();
    }
    Ok(count)
}
