//! A time zone as a rule table: initial offset + sorted (transition second, offset seconds) list.
//! Everything is brute force over the table.

use super::civil::NS_PER_DAY;

pub const S: i128 = 1_000_000_000;

#[derive(Clone, Debug, PartialEq, Eq, serde::Serialize, serde::Deserialize)]
pub struct Zone {
    pub name: String,
    /// offset (seconds east of UTC) before the first transition
    pub initial: i64,
    /// (transition instant in epoch seconds, offset in force from then on), strictly increasing
    pub trans: Vec<(i64, i64)>,
}

#[derive(Clone, Copy, Debug, PartialEq, Eq, serde::Serialize, serde::Deserialize)]
pub enum Disamb {
    Compatible,
    Earlier,
    Later,
    Reject,
}

impl Zone {
    pub fn fixed(name: &str, offset_s: i64) -> Zone {
        Zone { name: name.to_string(), initial: offset_s, trans: vec![] }
    }
    /// index of the interval containing t (ns): -1 = before first transition
    pub fn interval_of(&self, t_ns: i128) -> isize {
        let mut idx: isize = -1;
        for (i, (t, _)) in self.trans.iter().enumerate() {
            if (*t as i128) * S <= t_ns {
                idx = i as isize;
            } else {
                break;
            }
        }
        idx
    }
    pub fn offset_of_interval(&self, i: isize) -> i64 {
        if i < 0 {
            self.initial
        } else {
            self.trans[i as usize].1
        }
    }
    /// offset in seconds at instant t (ns)
    pub fn offset_at(&self, t_ns: i128) -> i64 {
        self.offset_of_interval(self.interval_of(t_ns))
    }
    /// start (seconds) of the transition that began the offset in force at t, None before the first
    pub fn transition_start(&self, t_ns: i128) -> Option<i64> {
        let i = self.interval_of(t_ns);
        if i < 0 {
            None
        } else {
            Some(self.trans[i as usize].0)
        }
    }
    fn bounds(&self, i: isize) -> (i128, i128) {
        let lo = if i < 0 { i128::MIN / 4 } else { self.trans[i as usize].0 as i128 * S };
        let hi = if (i + 1) as usize >= self.trans.len() { i128::MAX / 4 } else { self.trans[(i + 1) as usize].0 as i128 * S };
        (lo, hi)
    }
    /// all instants whose wall reading is `wall_ns` (ns on the local line), ascending
    pub fn instants(&self, wall_ns: i128) -> Vec<i128> {
        let mut out = vec![];
        for i in -1..self.trans.len() as isize {
            let o = self.offset_of_interval(i) as i128 * S;
            let cand = wall_ns - o;
            let (lo, hi) = self.bounds(i);
            if cand >= lo && cand < hi {
                out.push(cand);
            }
        }
        out.sort();
        out.dedup();
        out
    }
    /// (offset before, offset after) of the gap that skips `wall_ns`, if it is skipped
    pub fn gap_offsets(&self, wall_ns: i128) -> Option<(i64, i64)> {
        if !self.instants(wall_ns).is_empty() {
            return None;
        }
        // the transition i whose skipped wall interval [t + before, t + after) contains wall
        for i in 0..self.trans.len() {
            let before = self.offset_of_interval(i as isize - 1);
            let after = self.trans[i].1;
            let t = self.trans[i].0 as i128 * S;
            if wall_ns >= t + before as i128 * S && wall_ns < t + after as i128 * S {
                return Some((before, after));
            }
        }
        None
    }
    /// Temporal's disambiguation expressed on the table. Err(()) = RangeError (reject).
    pub fn resolve(&self, wall_ns: i128, dis: Disamb) -> Result<i128, ()> {
        let c = self.instants(wall_ns);
        match c.len() {
            1 => Ok(c[0]),
            0 => {
                if dis == Disamb::Reject {
                    return Err(());
                }
                // DisambiguatePossibleEpochNanoseconds, literally: the offsets one day before and after the wall
                // reading taken as UTC give the length of the skipped stretch; the reading moved back (earlier) or
                // forward (compatible, later) by that length is looked up again and its first resp. last candidate
                // is the answer. For an isolated transition this is `wall - offset after` resp. `wall - offset
                // before`; it differs when the moved reading falls into a repeated stretch of a nearby transition.
                let ob = self.offset_at(wall_ns - NS_PER_DAY);
                let oa = self.offset_at(wall_ns + NS_PER_DAY);
                let n = (oa - ob) as i128 * S;
                match dis {
                    Disamb::Earlier => self.instants(wall_ns - n).first().copied().ok_or(()),
                    _ => self.instants(wall_ns + n).last().copied().ok_or(()),
                }
            }
            _ => match dis {
                Disamb::Compatible | Disamb::Earlier => Ok(c[0]),
                Disamb::Later => Ok(*c.last().unwrap()),
                Disamb::Reject => Err(()),
            },
        }
    }
    /// first instant whose wall date (day number) is `day`
    pub fn start_of_day(&self, day: i64) -> Option<i128> {
        let d0 = day as i128 * NS_PER_DAY;
        let d1 = d0 + NS_PER_DAY;
        let mut best: Option<i128> = None;
        for i in -1..self.trans.len() as isize {
            let o = self.offset_of_interval(i) as i128 * S;
            let (lo, hi) = self.bounds(i);
            // instants t in [lo,hi) with d0 <= t + o < d1
            let a = lo.max(d0 - o);
            let b = hi.min(d1 - o);
            if a < b {
                best = Some(best.map_or(a, |x: i128| x.min(a)));
            }
        }
        best
    }
    pub fn wall_of(&self, t_ns: i128) -> i128 {
        t_ns + self.offset_at(t_ns) as i128 * S
    }
}

pub fn self_test() -> Result<u64, String> {
    // New York 2017: EST -18000 until 2017-03-12T07:00Z, EDT -14400 until 2017-11-05T06:00Z
    let ny = Zone { name: "NY".into(), initial: -18000, trans: vec![(1489302000, -14400), (1509861600, -18000)] };
    let wall = |y: i64, m: u8, d: u8, h: i128, mi: i128| -> i128 {
        super::civil::to_days(y, m, d) as i128 * NS_PER_DAY + (h * 3600 + mi * 60) * S
    };
    // 2017-11-05T01:30 is repeated: earlier = 05:30Z (EDT), later = 06:30Z (EST)
    let c = ny.instants(wall(2017, 11, 5, 1, 30));
    if c != vec![1509859800 * S, 1509863400 * S] {
        return Err(format!("NY overlap candidates {c:?}"));
    }
    // 2017-03-12T02:30 is skipped: compatible/later -> 03:30 EDT = 07:30Z; earlier -> 01:30 EST = 06:30Z
    let w = wall(2017, 3, 12, 2, 30);
    if ny.resolve(w, Disamb::Compatible) != Ok(1489303800 * S) || ny.resolve(w, Disamb::Earlier) != Ok(1489300200 * S) {
        return Err("NY gap resolution".into());
    }
    if ny.resolve(w, Disamb::Reject).is_ok() {
        return Err("NY gap reject".into());
    }
    // Apia skipped 2011-12-30 entirely: -36000 -> +50400 at 2011-12-30T10:00Z
    let apia = Zone { name: "Apia".into(), initial: -36000, trans: vec![(1325239200, 50400)] };
    let day = super::civil::to_days(2011, 12, 30);
    if apia.start_of_day(day).is_some() {
        return Err("Apia: 2011-12-30 must not exist".into());
    }
    let sod31 = apia.start_of_day(day + 1);
    if sod31 != Some(1325239200 * S) {
        return Err(format!("Apia start of 2011-12-31 {sod31:?}"));
    }
    // noon on the skipped day: compatible -> wall + 24h
    let w = wall(2011, 12, 30, 12, 0);
    if apia.resolve(w, Disamb::Compatible) != Ok(w + 36000 * S) || apia.resolve(w, Disamb::Earlier) != Ok(w - 50400 * S) {
        return Err("Apia gap resolution".into());
    }
    Ok(6)
}
