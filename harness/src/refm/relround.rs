//! DifferencePlainDateTimeWithRounding / RoundRelativeDuration / TotalRelativeDuration relative to a
//! plain (zone-less) date-time, with exact rational progress.

use super::civil::*;
use super::dateadd::*;
use super::dur::{balance_time, Dur, U};
use super::round::{round_int, Mode};

/// internal duration: date part + exact time ns
#[derive(Clone, Copy, Debug, PartialEq, Eq)]
pub struct Internal {
    pub y: i128,
    pub mo: i128,
    pub w: i128,
    pub d: i128,
    pub t: i128,
}
impl Internal {
    pub fn sign(&self) -> i128 {
        for v in [self.y, self.mo, self.w, self.d, self.t] {
            if v != 0 {
                return v.signum();
            }
        }
        0
    }
}

fn add_date_part(r: Dt, y: i128, mo: i128, w: i128, d: i128) -> Result<Dt, RErr> {
    let date = date_add(Ymd::from_n(r.day), y, mo, w, d, Overflow::Constrain)?;
    // CalendarDateAdd checks the *date* limits only; the combined date-time is used as a mathematical
    // UTC epoch value (GetUTCEpochNanoseconds) and may sit on/over the date-time limit by less than a day
    Ok(Dt { day: date.n(), ns: r.ns })
}

#[derive(Clone, Copy, Debug)]
pub struct Nudge {
    pub dur: Internal,
    pub nudged: i128,
    pub expanded: bool,
    /// exact total as a rational (num, den), den > 0
    pub total: (i128, i128),
}

fn trunc_to(v: i128, inc: i128) -> i128 {
    (v / inc) * inc
}

/// unsigned choice between |r1| and |r2| for a value strictly between them
fn choose_up(num: i128, den: i128, mode: Mode, negative: bool, r1_quot_even: bool) -> bool {
    // progress = num/den in (0,1); true = take r2
    // unsigned mode
    #[derive(PartialEq)]
    enum Um {
        Zero,
        Inf,
        HalfZero,
        HalfInf,
        HalfEven,
    }
    let um = match (mode, negative) {
        (Mode::Ceil, false) | (Mode::Floor, true) | (Mode::Expand, _) => Um::Inf,
        (Mode::Ceil, true) | (Mode::Floor, false) | (Mode::Trunc, _) => Um::Zero,
        (Mode::HalfCeil, false) | (Mode::HalfFloor, true) | (Mode::HalfExpand, _) => Um::HalfInf,
        (Mode::HalfCeil, true) | (Mode::HalfFloor, false) | (Mode::HalfTrunc, _) => Um::HalfZero,
        (Mode::HalfEven, _) => Um::HalfEven,
    };
    match um {
        Um::Zero => false,
        Um::Inf => true,
        _ => {
            let twice = 2 * num;
            if twice < den {
                false
            } else if twice > den {
                true
            } else {
                match um {
                    Um::HalfZero => false,
                    Um::HalfInf => true,
                    _ => !r1_quot_even,
                }
            }
        }
    }
}

pub fn choose_up_pub(num: i128, den: i128, mode: Mode, negative: bool, r1_quot_even: bool) -> bool {
    choose_up(num, den, mode, negative, r1_quot_even)
}

/// NudgeToCalendarUnit (no zone)
pub fn nudge_calendar(sign: i128, dur: Internal, dest: i128, r: Dt, inc: i128, unit: U, mode: Mode) -> Result<Nudge, RErr> {
    let (r1, r2, start_d, end_d) = match unit {
        U::Year => {
            let r1 = trunc_to(dur.y, inc);
            let r2 = r1 + inc * sign;
            (r1, r2, Internal { y: r1, mo: 0, w: 0, d: 0, t: 0 }, Internal { y: r2, mo: 0, w: 0, d: 0, t: 0 })
        }
        U::Month => {
            let r1 = trunc_to(dur.mo, inc);
            let r2 = r1 + inc * sign;
            (r1, r2, Internal { y: dur.y, mo: r1, w: 0, d: 0, t: 0 }, Internal { y: dur.y, mo: r2, w: 0, d: 0, t: 0 })
        }
        U::Week => {
            let weeks = dur.w + dur.d / 7; // trunc
            let r1 = trunc_to(weeks, inc);
            let r2 = r1 + inc * sign;
            (r1, r2, Internal { y: dur.y, mo: dur.mo, w: r1, d: 0, t: 0 }, Internal { y: dur.y, mo: dur.mo, w: r2, d: 0, t: 0 })
        }
        U::Day => {
            let r1 = trunc_to(dur.d, inc);
            let r2 = r1 + inc * sign;
            (r1, r2, Internal { y: dur.y, mo: dur.mo, w: dur.w, d: r1, t: 0 }, Internal { y: dur.y, mo: dur.mo, w: dur.w, d: r2, t: 0 })
        }
        _ => panic!("nudge_calendar: unit"),
    };
    let start = add_date_part(r, start_d.y, start_d.mo, start_d.w, start_d.d)?;
    let end = add_date_part(r, end_d.y, end_d.mo, end_d.w, end_d.d)?;
    let (s_ns, e_ns) = (start.abs_ns(), end.abs_ns());
    if s_ns == e_ns {
        return Err(RErr::Range);
    }
    // progress = (dest - start) / (end - start); both differences have sign `sign`
    let num = (dest - s_ns) * sign;
    let den = (e_ns - s_ns) * sign;
    // total = r1 + progress * inc * sign = (r1 den + num inc sign) / den
    let total = (r1 * den + num * inc * sign, den);
    let up = if num <= 0 {
        false
    } else if num >= den {
        true
    } else {
        let q_even = (r1.abs() / inc) % 2 == 0;
        choose_up(num, den, mode, sign < 0, q_even)
    };
    Ok(if up { Nudge { dur: end_d, nudged: e_ns, expanded: true, total } } else { Nudge { dur: start_d, nudged: s_ns, expanded: false, total } })
}

/// NudgeToDayOrTime (no zone)
pub fn nudge_day_or_time(dur: Internal, dest: i128, largest: U, inc: i128, smallest: U, mode: Mode) -> Nudge {
    let norm = dur.t + dur.d * NS_PER_DAY;
    let unit_len = smallest.ns();
    let rounded = round_int(norm, unit_len * inc, mode);
    let diff = rounded - norm;
    let whole = norm / NS_PER_DAY;
    let rwhole = rounded / NS_PER_DAY;
    let delta = rwhole - whole;
    // literally as specified: `dayDeltaSign = TimeDurationSign(timeDuration)` - this is also true for 0 = 0
    // (a zero time part that stays zero), in which case BubbleRelativeDuration runs and can only fail
    // (RangeError) or leave the duration unchanged
    let expanded = delta.signum() == norm.signum();
    let (days, rem) = if largest.is_date() { (rwhole, rounded - rwhole * NS_PER_DAY) } else { (0, rounded) };
    Nudge { dur: Internal { y: dur.y, mo: dur.mo, w: dur.w, d: days, t: rem }, nudged: dest + diff, expanded, total: (norm, unit_len) }
}

/// BubbleRelativeDuration (no zone)
pub fn bubble(sign: i128, mut dur: Internal, nudged: i128, r: Dt, largest: U, start_unit: U) -> Result<Internal, RErr> {
    if start_unit == largest {
        return Ok(dur);
    }
    // units above start_unit up to largest: indices decrease towards year
    let mut idx = start_unit.idx() as i32 - 1;
    while idx >= largest.idx() as i32 {
        let unit = super::dur::UNITS[idx as usize];
        if unit != U::Week || largest == U::Week {
            let end_d = match unit {
                U::Year => Internal { y: dur.y + sign, mo: 0, w: 0, d: 0, t: 0 },
                U::Month => Internal { y: dur.y, mo: dur.mo + sign, w: 0, d: 0, t: 0 },
                U::Week => Internal { y: dur.y, mo: dur.mo, w: dur.w + sign, d: 0, t: 0 },
                _ => panic!("bubble: unit"),
            };
            let end = add_date_part(r, end_d.y, end_d.mo, end_d.w, end_d.d)?;
            let beyond = nudged - end.abs_ns();
            if beyond.signum() != -sign {
                dur = end_d;
            } else {
                break;
            }
        }
        idx -= 1;
    }
    Ok(dur)
}

/// RoundRelativeDuration (no zone)
pub fn round_relative(dur: Internal, dest: i128, r: Dt, largest: U, inc: i128, smallest: U, mode: Mode) -> Result<Internal, RErr> {
    let sign = if dur.sign() < 0 { -1 } else { 1 };
    let nudge = if smallest.is_calendar() { nudge_calendar(sign, dur, dest, r, inc, smallest, mode)? } else { nudge_day_or_time(dur, dest, largest, inc, smallest, mode) };
    let mut out = nudge.dur;
    if nudge.expanded && smallest != U::Week {
        let start_unit = smallest.larger_of(U::Day);
        // only date units bubble
        if largest.is_date() {
            out = bubble(sign, out, nudge.nudged, r, largest, start_unit)?;
        }
    }
    Ok(out)
}

/// DifferencePlainDateTimeWithRounding
pub fn diff_with_rounding(r: Dt, t: Dt, largest: U, inc: i128, smallest: U, mode: Mode) -> Result<Internal, RErr> {
    if r == t {
        return Ok(Internal { y: 0, mo: 0, w: 0, d: 0, t: 0 });
    }
    let (y, mo, w, d, tn) = dt_diff(r, t, largest);
    let dur = Internal { y: y as i128, mo: mo as i128, w: w as i128, d: d as i128, t: tn };
    if smallest == U::Nanosecond && inc == 1 {
        return Ok(dur);
    }
    round_relative(dur, t.abs_ns(), r, largest, inc, smallest, mode)
}

/// TemporalDurationFromInternal
pub fn to_dur(i: Internal, largest: U) -> Dur {
    let mut out = balance_time(i.t, if largest.is_time() { largest } else { U::Hour });
    out.f[0] = i.y;
    out.f[1] = i.mo;
    out.f[2] = i.w;
    out.f[3] += i.d;
    out
}

/// target of R(00:00) + duration with 24 h days: (date part by dateadd constrain, time of day)
pub fn target_of(r_day: i64, d: &Dur) -> Result<Dt, RErr> {
    let tn = d.time_ns();
    let carry = tn.div_euclid(NS_PER_DAY);
    let tod = tn.rem_euclid(NS_PER_DAY);
    let date = date_add(Ymd::from_n(r_day), d.f[0], d.f[1], d.f[2], d.f[3] + carry, Overflow::Constrain)?;
    // the date-time limits of the target are checked by the callers, after the "equal date-times" shortcut
    Ok(Dt { day: date.n(), ns: tod })
}

/// Duration::round relative to a plain date
pub fn duration_round(r_day: i64, d: &Dur, largest: U, inc: i128, smallest: U, mode: Mode) -> Result<Dur, RErr> {
    let r = Dt { day: r_day, ns: 0 };
    let t = target_of(r_day, d)?;
    // DifferencePlainDateTimeWithRounding step 1 (equal date-times give zero) precedes its limits check (step 2)
    if r == t {
        return Ok(Dur::zero());
    }
    if !r.in_range() || !t.in_range() {
        return Err(RErr::Range);
    }
    let i = diff_with_rounding(r, t, largest, inc, smallest, mode)?;
    Ok(to_dur(i, largest))
}

/// Duration::total relative to a plain date: exact rational (num, den)
pub fn duration_total(r_day: i64, d: &Dur, unit: U) -> Result<(i128, i128), RErr> {
    let r = Dt { day: r_day, ns: 0 };
    let t = target_of(r_day, d)?;
    if r == t {
        return Ok((0, 1));
    }
    if !r.in_range() || !t.in_range() {
        return Err(RErr::Range);
    }
    let (y, mo, w, dd, tn) = dt_diff(r, t, unit);
    let dur = Internal { y: y as i128, mo: mo as i128, w: w as i128, d: dd as i128, t: tn };
    if unit.is_calendar() {
        let sign = if dur.sign() < 0 { -1 } else { 1 };
        let n = nudge_calendar(sign, dur, t.abs_ns(), r, 1, unit, Mode::Trunc)?;
        Ok(n.total)
    } else {
        Ok((dur.t + dur.d * NS_PER_DAY, unit.ns()))
    }
}

/// compare two durations relative to a plain date: order of the instants they lead to (24 h days)
pub fn duration_compare(r_day: i64, a: &Dur, b: &Dur) -> Result<std::cmp::Ordering, RErr> {
    let lead = |d: &Dur| -> Result<i128, RErr> {
        let days = if d.has_calendar() {
            let later = date_add(Ymd::from_n(r_day), d.f[0], d.f[1], d.f[2], 0, Overflow::Constrain)?;
            (later.n() - r_day) as i128 + d.f[3]
        } else {
            d.f[3]
        };
        // Add24HourDaysToTimeDuration throws beyond maxTimeDuration
        let total = days * NS_PER_DAY + d.time_ns();
        if total.abs() >= crate::refm::dur::MAX_TIME_NS {
            return Err(RErr::Range);
        }
        Ok(total)
    };
    Ok(lead(a)?.cmp(&lead(b)?))
}

/// Self-test against expectation tables that the repository ported from test262
/// (roundingmode-floor.js / roundingmode-ceil.js, balances-days-up-to-both-years-and-months.js):
/// the expected values come from test262, not from the implementation.
pub fn self_test() -> Result<u64, String> {
    let d = Dur { f: [5, 6, 7, 8, 40, 30, 20, 123, 987, 500] };
    let fwd = to_days(2020, 4, 1);
    let bwd = to_days(2020, 12, 1);
    let units = [U::Year, U::Month, U::Week, U::Day, U::Hour, U::Minute, U::Second, U::Millisecond, U::Microsecond, U::Nanosecond];
    let floor_pos: [[i128; 10]; 10] = [
        [5, 0, 0, 0, 0, 0, 0, 0, 0, 0],
        [5, 7, 0, 0, 0, 0, 0, 0, 0, 0],
        [5, 7, 3, 0, 0, 0, 0, 0, 0, 0],
        [5, 7, 0, 27, 0, 0, 0, 0, 0, 0],
        [5, 7, 0, 27, 16, 0, 0, 0, 0, 0],
        [5, 7, 0, 27, 16, 30, 0, 0, 0, 0],
        [5, 7, 0, 27, 16, 30, 20, 0, 0, 0],
        [5, 7, 0, 27, 16, 30, 20, 123, 0, 0],
        [5, 7, 0, 27, 16, 30, 20, 123, 987, 0],
        [5, 7, 0, 27, 16, 30, 20, 123, 987, 500],
    ];
    let floor_neg: [[i128; 10]; 10] = [
        [-6, 0, 0, 0, 0, 0, 0, 0, 0, 0],
        [-5, -8, 0, 0, 0, 0, 0, 0, 0, 0],
        [-5, -7, -4, 0, 0, 0, 0, 0, 0, 0],
        [-5, -7, 0, -28, 0, 0, 0, 0, 0, 0],
        [-5, -7, 0, -27, -17, 0, 0, 0, 0, 0],
        [-5, -7, 0, -27, -16, -31, 0, 0, 0, 0],
        [-5, -7, 0, -27, -16, -30, -21, 0, 0, 0],
        [-5, -7, 0, -27, -16, -30, -20, -124, 0, 0],
        [-5, -7, 0, -27, -16, -30, -20, -123, -988, 0],
        [-5, -7, 0, -27, -16, -30, -20, -123, -987, -500],
    ];
    let ceil_pos: [[i128; 10]; 9] = [
        [5, 8, 0, 0, 0, 0, 0, 0, 0, 0],
        [5, 7, 4, 0, 0, 0, 0, 0, 0, 0],
        [5, 7, 0, 28, 0, 0, 0, 0, 0, 0],
        [5, 7, 0, 27, 17, 0, 0, 0, 0, 0],
        [5, 7, 0, 27, 16, 31, 0, 0, 0, 0],
        [5, 7, 0, 27, 16, 30, 21, 0, 0, 0],
        [5, 7, 0, 27, 16, 30, 20, 124, 0, 0],
        [5, 7, 0, 27, 16, 30, 20, 123, 988, 0],
        [5, 7, 0, 27, 16, 30, 20, 123, 987, 500],
    ];
    let mut n = 0;
    for (i, u) in units.iter().enumerate() {
        let largest = U::Year.larger_of(*u);
        let got = duration_round(fwd, &d, largest, 1, *u, Mode::Floor).map_err(|e| format!("{e:?}"))?;
        if got.f != floor_pos[i] {
            return Err(format!("floor {:?}: got {:?} want {:?}", u, got.f, floor_pos[i]));
        }
        let got = duration_round(bwd, &d.negated(), largest, 1, *u, Mode::Floor).map_err(|e| format!("{e:?}"))?;
        if got.f != floor_neg[i] {
            return Err(format!("floor negative {:?}: got {:?} want {:?}", u, got.f, floor_neg[i]));
        }
        if i >= 1 {
            let got = duration_round(fwd, &d, largest, 1, *u, Mode::Ceil).map_err(|e| format!("{e:?}"))?;
            if got.f != ceil_pos[i - 1] {
                return Err(format!("ceil {:?}: got {:?} want {:?}", u, got.f, ceil_pos[i - 1]));
            }
        }
        n += 3;
    }
    // balances-days-up-to-both-years-and-months.js: P11M396D relative to 2017-01-01 totals 2 years
    let two = Dur { f: [0, 11, 0, 396, 0, 0, 0, 0, 0, 0] };
    let r = to_days(2017, 1, 1);
    if duration_total(r, &two, U::Year) != Ok((2 * 365 * NS_PER_DAY, 365 * NS_PER_DAY)) && {
        let (a, b) = duration_total(r, &two, U::Year).map_err(|e| format!("{e:?}"))?;
        a != 2 * b
    } {
        return Err("total years of P11M396D".into());
    }
    let (a, b) = duration_total(r, &two.negated(), U::Year).map_err(|e| format!("{e:?}"))?;
    if a != -2 * b {
        return Err("total years of -P11M396D".into());
    }
    // bubbling: P11M20D ceil to months relative to 2023-01-01 with largest year is P1Y
    let b11 = Dur { f: [0, 11, 0, 20, 0, 0, 0, 0, 0, 0] };
    let got = duration_round(to_days(2023, 1, 1), &b11, U::Year, 1, U::Month, Mode::Ceil).map_err(|e| format!("{e:?}"))?;
    if got.f != [1, 0, 0, 0, 0, 0, 0, 0, 0, 0] {
        return Err(format!("bubble: {:?}", got.f));
    }
    Ok(n + 3)
}
