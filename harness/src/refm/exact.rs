//! Exact rational -> nearest double, ulp distance.

/// nearest f64 (ties to even) of num/den, den > 0
pub fn ratio_to_f64(num: i128, den: i128) -> f64 {
    assert!(den > 0);
    if num == 0 {
        return 0.0;
    }
    let neg = num < 0;
    let n = num.unsigned_abs();
    let d = den as u128;
    // choose k so that q = floor(n 2^k / d) has at least 56 bits, without overflowing u128
    let nbits = 128 - n.leading_zeros() as i32;
    let dbits = 128 - d.leading_zeros() as i32;
    let mut k = 57 - (nbits - dbits);
    if k < 0 {
        k = 0;
    }
    assert!(nbits + k <= 127, "ratio_to_f64: operand too large");
    let scaled = n << k;
    let q = scaled / d;
    let sticky = scaled % d != 0;
    let bits = 128 - q.leading_zeros() as i32;
    assert!(bits >= 55);
    let shift = bits - 54;
    let top = q >> shift; // 54 bits
    let rest_nonzero = (q & ((1u128 << shift) - 1)) != 0 || sticky;
    let mut mant = (top >> 1) as u64;
    let guard = top & 1 == 1;
    let mut exp = shift + 1 - k;
    if guard && (rest_nonzero || mant & 1 == 1) {
        mant += 1;
        if mant == 1u64 << 53 {
            mant >>= 1;
            exp += 1;
        }
    }
    let v = (mant as f64) * 2f64.powi(exp);
    if neg {
        -v
    } else {
        v
    }
}

/// distance in units in the last place between two finite doubles of the same sign (or zero)
pub fn ulp_distance(a: f64, b: f64) -> u64 {
    if a == b {
        return 0;
    }
    if a.is_nan() || b.is_nan() || (a < 0.0) != (b < 0.0) && a != 0.0 && b != 0.0 {
        return u64::MAX;
    }
    let (x, y) = (a.abs().to_bits() as i64, b.abs().to_bits() as i64);
    (x - y).unsigned_abs()
}

pub fn self_test() -> Result<u64, String> {
    let mut n = 0;
    for (a, b) in [(1i128, 3i128), (2, 3), (10, 4), (1, 10), (123456789012345678901234, 1000), (9007199254740993, 1), (9007199254740993, 2), (-7, 2), (86399999999999, 86400000000000), (1, 86400000000000)] {
        let got = ratio_to_f64(a, b);
        // compare with f64 division when both operands are exact doubles
        if (a as f64) as i128 == a && (b as f64) as i128 == b {
            let want = a as f64 / b as f64;
            if got != want {
                return Err(format!("ratio_to_f64({a},{b}) = {got:e}, f64 division {want:e}"));
            }
        }
        n += 1;
    }
    if ratio_to_f64(9007199254740993, 1) != 9007199254740992.0 {
        return Err("tie to even".into());
    }
    if ratio_to_f64(9007199254740995, 1) != 9007199254740996.0 {
        return Err("tie to even (odd)".into());
    }
    if ulp_distance(1.0, 1.0000000000000002) != 1 {
        return Err("ulp".into());
    }
    Ok(n + 3)
}
