//! AddISODate / DifferenceISODate / DifferenceISODateTime over the day line, unbounded integers.

use super::civil::*;
use super::dur::{Dur, U};

#[derive(Clone, Copy, Debug, PartialEq, Eq)]
pub enum Overflow {
    Constrain,
    Reject,
}

#[derive(Clone, Copy, Debug, PartialEq, Eq)]
pub enum RErr {
    Range,
    Type,
}

#[derive(Clone, Copy, Debug, PartialEq, Eq, PartialOrd, Ord)]
pub struct Ymd {
    pub y: i64,
    pub m: u8,
    pub d: u8,
}
impl Ymd {
    pub fn new(y: i64, m: u8, d: u8) -> Ymd {
        Ymd { y, m, d }
    }
    pub fn n(&self) -> i64 {
        to_days(self.y, self.m, self.d)
    }
    pub fn from_n(n: i64) -> Ymd {
        let (y, m, d) = from_days(n);
        Ymd { y, m, d }
    }
}

/// AddISODate. Years/months first (constrain or reject the day), intermediate must be in range,
/// then weeks and days, final range check. `days` already includes whole days from time units.
pub fn date_add(a: Ymd, years: i128, months: i128, weeks: i128, days: i128, ov: Overflow) -> Result<Ymd, RErr> {
    // guard against absurd magnitudes first (everything beyond is out of range anyway)
    let big = 1i128 << 40;
    if years.abs() > big || months.abs() > big || weeks.abs() > big || days.abs() > big {
        return Err(RErr::Range);
    }
    let (y2, m2) = balance_ym(a.y + years as i64, a.m as i64 + months as i64);
    if y2.abs() > 400_000 {
        return Err(RErr::Range);
    }
    let l = dim(y2, m2);
    let d2 = if a.d > l {
        match ov {
            Overflow::Reject => return Err(RErr::Range),
            Overflow::Constrain => l,
        }
    } else {
        a.d
    };
    let mid = to_days(y2, m2, d2);
    if !date_in_range(mid) {
        return Err(RErr::Range);
    }
    let n = mid as i128 + 7 * weeks + days;
    if n < MIN_DAY as i128 || n > MAX_DAY as i128 {
        return Err(RErr::Range);
    }
    Ok(Ymd::from_n(n as i64))
}

/// ISODateSurpasses on the unconstrained triple.
fn surpasses(sign: i64, y: i64, m: u8, d: u8, other: Ymd) -> bool {
    let c = (y, m, d).cmp(&(other.y, other.m, other.d)) as i64;
    c * sign > 0
}

/// DifferenceISODate(a, b, largest) -> (years, months, weeks, days)
pub fn date_diff(a: Ymd, b: Ymd, largest: U) -> (i64, i64, i64, i64) {
    let nb = b.n();
    let na = a.n();
    let s = (nb - na).signum();
    if s == 0 {
        return (0, 0, 0, 0);
    }
    let mut years = 0i64;
    let mut months = 0i64;
    if largest == U::Year || largest == U::Month {
        // largest |k| with not surpasses(a.y + k, a.m, a.d)
        let mut k = b.y - a.y;
        // step back until it does not surpass, forward while the next does not surpass
        while surpasses(s, a.y + k, a.m, a.d, b) {
            k -= s;
        }
        while !surpasses(s, a.y + k + s, a.m, a.d, b) {
            k += s;
        }
        years = k;
        let mut mk = 0i64;
        loop {
            let (yy, mm) = balance_ym(a.y + years, a.m as i64 + mk + s);
            if surpasses(s, yy, mm, a.d, b) {
                break;
            }
            mk += s;
        }
        months = mk;
        if largest == U::Month {
            months += 12 * years;
            years = 0;
        }
    }
    let (yy, mm) = balance_ym(a.y + years, a.m as i64 + months);
    let dd = a.d.min(dim(yy, mm));
    let mid = to_days(yy, mm, dd);
    let mut days = nb - mid;
    let mut weeks = 0;
    if largest == U::Week {
        weeks = days / 7; // trunc
        days -= 7 * weeks;
    }
    (years, months, weeks, days)
}

/// date-time as (day number, ns of day)
#[derive(Clone, Copy, Debug, PartialEq, Eq, PartialOrd, Ord)]
pub struct Dt {
    pub day: i64,
    pub ns: i128,
}
impl Dt {
    pub fn abs_ns(&self) -> i128 {
        self.day as i128 * NS_PER_DAY + self.ns
    }
    pub fn in_range(&self) -> bool {
        datetime_in_range(self.day, self.ns)
    }
}

/// DifferenceISODateTime(a, b, largest): (date part y, mo, w, d; time ns)
pub fn dt_diff(a: Dt, b: Dt, largest: U) -> (i64, i64, i64, i64, i128) {
    let mut t = b.ns - a.ns;
    let ds = (b.day - a.day).signum();
    let ts = t.signum() as i64;
    let mut adj = b.day;
    if ds != 0 && ts == -ds {
        adj += ts;
        t -= ts as i128 * NS_PER_DAY;
    }
    let date_largest = largest.larger_of(U::Day);
    let (y, mo, w, mut d) = date_diff(Ymd::from_n(a.day), Ymd::from_n(adj), date_largest);
    if largest != date_largest {
        t += d as i128 * NS_PER_DAY;
        d = 0;
    }
    (y, mo, w, d, t)
}

/// full until() result of two date-times with a largest unit, as a balanced duration
pub fn dt_until(a: Dt, b: Dt, largest: U) -> Dur {
    let (y, mo, w, d, t) = dt_diff(a, b, largest);
    let mut out = super::dur::balance_time(t, if largest.is_time() { largest } else { U::Hour });
    out.f[0] = y as i128;
    out.f[1] = mo as i128;
    out.f[2] = w as i128;
    out.f[3] += d as i128;
    out
}

/// add a duration to a date-time: time part with exact carry, then date part
pub fn dt_add(a: Dt, dur: &Dur, ov: Overflow) -> Result<Dt, RErr> {
    let t = a.ns + dur.time_ns();
    let carry = t.div_euclid(NS_PER_DAY);
    let ns = t.rem_euclid(NS_PER_DAY);
    let date = date_add(Ymd::from_n(a.day), dur.f[0], dur.f[1], dur.f[2], dur.f[3] + carry, ov)?;
    let r = Dt { day: date.n(), ns };
    if !r.in_range() {
        return Err(RErr::Range);
    }
    Ok(r)
}
