//! RoundNumberToIncrement on exact integers and rationals, nine modes.

use serde::{Deserialize, Serialize};

#[derive(Clone, Copy, Debug, PartialEq, Eq, Serialize, Deserialize, Hash)]
pub enum Mode {
    Ceil,
    Floor,
    Expand,
    Trunc,
    HalfCeil,
    HalfFloor,
    HalfExpand,
    HalfTrunc,
    HalfEven,
}
pub const MODES: [Mode; 9] = [
    Mode::Ceil,
    Mode::Floor,
    Mode::Expand,
    Mode::Trunc,
    Mode::HalfCeil,
    Mode::HalfFloor,
    Mode::HalfExpand,
    Mode::HalfTrunc,
    Mode::HalfEven,
];
impl Mode {
    /// the mode that `since` computes with
    pub fn negated(self) -> Mode {
        match self {
            Mode::Ceil => Mode::Floor,
            Mode::Floor => Mode::Ceil,
            Mode::HalfCeil => Mode::HalfFloor,
            Mode::HalfFloor => Mode::HalfCeil,
            m => m,
        }
    }
    pub fn is_half(self) -> bool {
        matches!(self, Mode::HalfCeil | Mode::HalfFloor | Mode::HalfExpand | Mode::HalfTrunc | Mode::HalfEven)
    }
}

/// Round the rational num/den (den > 0) to a multiple of q (q > 0); returns the multiple itself.
pub fn round_rational(num: i128, den: i128, q: i128, mode: Mode) -> i128 {
    round_rational_signed(num, den, q, mode, num > 0)
}

/// RoundNumberToIncrementAsIfPositive: directions are those of a positive number whatever the sign
/// (used by Temporal for values on the epoch line: trunc = floor = towards the Big Bang).
pub fn round_as_if_positive(x: i128, q: i128, mode: Mode) -> i128 {
    round_rational_signed(x, 1, q, mode, true)
}

fn round_rational_signed(num: i128, den: i128, q: i128, mode: Mode, positive: bool) -> i128 {
    assert!(den > 0 && q > 0);
    // k1 = floor(num / (den q)); r1 = k1 q
    let dq = den * q;
    let k1 = num.div_euclid(dq);
    let rem = num.rem_euclid(dq); // (x - r1) * den, in [0, dq)
    let r1 = k1 * q;
    let r2 = r1 + q;
    if rem == 0 {
        return r1;
    }
    match mode {
        Mode::Ceil => r2,
        Mode::Floor => r1,
        Mode::Expand => {
            if positive {
                r2
            } else {
                r1
            }
        }
        Mode::Trunc => {
            if positive {
                r1
            } else {
                r2
            }
        }
        _ => {
            // compare 2 (x - r1) with q  <=>  2 rem with dq
            let twice = 2 * rem;
            if twice < dq {
                r1
            } else if twice > dq {
                r2
            } else {
                match mode {
                    Mode::HalfCeil => r2,
                    Mode::HalfFloor => r1,
                    Mode::HalfExpand => {
                        if positive {
                            r2
                        } else {
                            r1
                        }
                    }
                    Mode::HalfTrunc => {
                        if positive {
                            r1
                        } else {
                            r2
                        }
                    }
                    Mode::HalfEven => {
                        if k1.rem_euclid(2) == 0 {
                            r1
                        } else {
                            r2
                        }
                    }
                    _ => unreachable!(),
                }
            }
        }
    }
}
pub fn round_int(x: i128, q: i128, mode: Mode) -> i128 {
    round_rational(x, 1, q, mode)
}

/// the two neighbouring multiples (r1 <= x <= r2), equal when x is a multiple
pub fn neighbours(x: i128, q: i128) -> (i128, i128) {
    let r1 = x.div_euclid(q) * q;
    if r1 == x {
        (x, x)
    } else {
        (r1, r1 + q)
    }
}

/// brute force cross-check used at self-test: search the nearest multiples explicitly
pub fn self_test() -> Result<u64, String> {
    let mut n = 0;
    for q in 1..=12i128 {
        for x in -40..=40i128 {
            for &m in MODES.iter() {
                let got = round_int(x, q, m);
                // brute force: list all multiples in range
                let mut below = None;
                let mut above = None;
                for k in -50..=50i128 {
                    let v = k * q;
                    if v <= x {
                        below = Some(v);
                    }
                    if v >= x && above.is_none() {
                        above = Some(v);
                    }
                }
                let (b, a) = (below.unwrap(), above.unwrap());
                let want = if a == b {
                    a
                } else {
                    let db = x - b;
                    let da = a - x;
                    let toward_zero = if x > 0 { b } else { a };
                    let away = if x > 0 { a } else { b };
                    match m {
                        Mode::Ceil => a,
                        Mode::Floor => b,
                        Mode::Expand => away,
                        Mode::Trunc => toward_zero,
                        _ if db < da => b,
                        _ if da < db => a,
                        Mode::HalfCeil => a,
                        Mode::HalfFloor => b,
                        Mode::HalfExpand => away,
                        Mode::HalfTrunc => toward_zero,
                        Mode::HalfEven => {
                            if (b / q).rem_euclid(2) == 0 {
                                b
                            } else {
                                a
                            }
                        }
                        _ => unreachable!(),
                    }
                };
                if got != want {
                    return Err(format!("round_int({x},{q},{m:?}) = {got}, brute force {want}"));
                }
                n += 1;
            }
        }
    }
    Ok(n)
}
