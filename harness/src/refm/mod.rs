//! Reference models. Nothing in here depends on temporal_rs.
pub mod civil;
pub mod dur;
pub mod round;
pub mod dateadd;
pub mod tz;
pub mod fmt;
pub mod exact;
pub mod relround;
pub mod zoned;
