//! Durations as ten exact integer fields.

use super::civil::NS_PER_DAY;
use serde::{Deserialize, Serialize};

pub const TWO32: i128 = 1 << 32;
pub const TWO53: i128 = 1 << 53;
/// |total time| must be < 2^53 s
pub const MAX_TIME_NS: i128 = TWO53 * 1_000_000_000;

/// index: 0 y, 1 mo, 2 w, 3 d, 4 h, 5 mi, 6 s, 7 ms, 8 us, 9 ns
pub const UNIT_NS: [i128; 10] = [
    0,
    0,
    0,
    NS_PER_DAY,
    3_600_000_000_000,
    60_000_000_000,
    1_000_000_000,
    1_000_000,
    1_000,
    1,
];

#[derive(Clone, Copy, Debug, PartialEq, Eq, Serialize, Deserialize, Hash, PartialOrd, Ord)]
pub enum U {
    Year,
    Month,
    Week,
    Day,
    Hour,
    Minute,
    Second,
    Millisecond,
    Microsecond,
    Nanosecond,
}
pub const UNITS: [U; 10] = [
    U::Year,
    U::Month,
    U::Week,
    U::Day,
    U::Hour,
    U::Minute,
    U::Second,
    U::Millisecond,
    U::Microsecond,
    U::Nanosecond,
];
impl U {
    pub fn idx(self) -> usize {
        self as usize
    }
    pub fn ns(self) -> i128 {
        UNIT_NS[self.idx()]
    }
    /// larger unit <=> smaller index
    pub fn larger_of(self, o: U) -> U {
        if self.idx() <= o.idx() {
            self
        } else {
            o
        }
    }
    pub fn is_calendar(self) -> bool {
        self.idx() <= 2
    }
    pub fn is_date(self) -> bool {
        self.idx() <= 3
    }
    pub fn is_time(self) -> bool {
        self.idx() >= 4
    }
    pub fn name(self) -> &'static str {
        ["year", "month", "week", "day", "hour", "minute", "second", "millisecond", "microsecond", "nanosecond"][self.idx()]
    }
    pub fn max_increment(self) -> Option<i128> {
        match self {
            U::Hour => Some(24),
            U::Minute | U::Second => Some(60),
            U::Millisecond | U::Microsecond | U::Nanosecond => Some(1000),
            _ => None,
        }
    }
}

#[derive(Clone, Copy, Debug, PartialEq, Eq, Default, Serialize, Deserialize)]
pub struct Dur {
    pub f: [i128; 10],
}

impl Dur {
    pub fn zero() -> Dur {
        Dur::default()
    }
    pub fn sign(&self) -> i32 {
        for v in self.f {
            if v < 0 {
                return -1;
            }
            if v > 0 {
                return 1;
            }
        }
        0
    }
    pub fn sign_uniform(&self) -> bool {
        let s = self.sign();
        self.f.iter().all(|v| (*v == 0) || (v.signum() as i32 == s))
    }
    /// exact nanoseconds of days..nanoseconds with 24 h days
    pub fn time_ns_with_days(&self) -> i128 {
        (3..10).map(|i| self.f[i] * UNIT_NS[i]).sum()
    }
    pub fn time_ns(&self) -> i128 {
        (4..10).map(|i| self.f[i] * UNIT_NS[i]).sum()
    }
    pub fn valid(&self) -> bool {
        self.sign_uniform()
            && self.f[0].abs() < TWO32
            && self.f[1].abs() < TWO32
            && self.f[2].abs() < TWO32
            && self.time_ns_with_days().abs() < MAX_TIME_NS
    }
    pub fn negated(&self) -> Dur {
        let mut d = *self;
        for v in d.f.iter_mut() {
            *v = -*v;
        }
        d
    }
    pub fn largest_unit(&self) -> U {
        for (i, v) in self.f.iter().enumerate() {
            if *v != 0 {
                return UNITS[i];
            }
        }
        U::Nanosecond
    }
    pub fn has_calendar(&self) -> bool {
        self.f[0] != 0 || self.f[1] != 0 || self.f[2] != 0
    }
    pub fn from_f64s(v: &[f64; 10]) -> Option<Dur> {
        let mut d = Dur::zero();
        for i in 0..10 {
            // days..seconds at or beyond 2^53 (each counts at least a second) and sub-second fields at or
            // beyond 1e25 ns-units are certainly invalid; the bound keeps the i128 products in range
            let bound = if (3..=6).contains(&i) { 9007199254740992.0 } else { 1e25 };
            if !v[i].is_finite() || v[i].abs() >= bound || v[i].fract() != 0.0 {
                return None;
            }
            d.f[i] = v[i] as i128;
        }
        Some(d)
    }
    pub fn to_f64s(&self) -> [f64; 10] {
        let mut o = [0.0; 10];
        for i in 0..10 {
            o[i] = self.f[i] as f64;
        }
        o
    }
}

/// validity of ten integral doubles straight from the definition; values beyond 1e30 are
/// certainly invalid (every limit is far below).
pub fn valid_f64s(v: &[f64; 10]) -> bool {
    if v.iter().any(|x| !x.is_finite()) {
        return false;
    }
    // sign uniformity on the raw values
    let mut s = 0.0;
    for x in v {
        if *x != 0.0 {
            if s == 0.0 {
                s = x.signum();
            } else if x.signum() != s {
                return false;
            }
        }
    }
    match Dur::from_f64s(v) {
        Some(d) => d.valid(),
        None => false, // some |field| >= 1e30 (or non-integral: not in the generated domain)
    }
}

/// BalanceTimeDuration: exact ns -> (days, h, mi, s, ms, us, ns) top-heavy from `largest`.
pub fn balance_time(total_ns: i128, largest: U) -> Dur {
    let sign = if total_ns < 0 { -1 } else { 1 };
    let mut rest = total_ns.abs();
    let mut d = Dur::zero();
    let start = largest.idx().max(3);
    for i in start..10 {
        let q = rest / UNIT_NS[i];
        rest -= q * UNIT_NS[i];
        d.f[i] = sign * q;
    }
    d
}

/// The float fields a balanced result is reported with (each field is the nearest double).
pub fn as_reported(d: &Dur) -> [f64; 10] {
    d.to_f64s()
}

/// validity of a *reported* (float) balanced result: Temporal validates the float fields.
pub fn reported_valid(d: &Dur) -> bool {
    // re-read the doubles as integers (they may have been rounded) and validate
    let f = d.to_f64s();
    valid_f64s(&f)
}
