//! C04 - PlainDate add/subtract/until/since follow Temporal date arithmetic exactly.

use crate::chk;
use crate::conv::*;
use crate::gen;
use crate::refm::civil::*;
use crate::refm::dateadd::*;
use crate::refm::dur::{Dur, U};
use crate::refm::round::Mode;
use crate::run::*;
use proptest::prelude::*;
use serde::{Deserialize, Serialize};
use serde_json::Value;
use temporal_rs::error::ErrorKind;

// ------------------------------------------------------------------------------------------
// add / subtract

#[derive(Serialize, Deserialize, Debug, Clone)]
pub struct AddCase {
    pub day: i64,
    pub dur: Dur,
    pub reject: bool,
    pub subtract: bool,
}
pub struct AddSub;

impl SubCheck for AddSub {
    type Case = AddCase;
    fn name(&self) -> &'static str {
        "add"
    }
    fn eval(&self, c: &AddCase) -> Outcome {
        let a = Ymd::from_n(c.day);
        let ov = if c.reject { Overflow::Reject } else { Overflow::Constrain };
        // the duration that is effectively added
        let eff = if c.subtract { c.dur.negated() } else { c.dur };
        let time_days = eff.time_ns() / NS_PER_DAY; // sign-uniform input: trunc is unambiguous
        let want = date_add(a, eff.f[0], eff.f[1], eff.f[2], eff.f[3] + time_days, ov);
        let mut o = Outcome::pass();
        let month_end = a.d >= 29;
        let has_ym = eff.f[0] != 0 || eff.f[1] != 0;
        let near_limit = match want {
            Ok(r) => r.n() < MIN_DAY + 31 || r.n() > MAX_DAY - 31,
            Err(_) => true,
        };
        o = o.nontrivial((month_end && has_ym) || near_limit || (a.m == 2 && a.d == 29) || eff.time_ns() != 0);
        if month_end && has_ym {
            o = o.class("month-end+ym");
        }
        if near_limit {
            o = o.class("near-limit-or-out");
        }
        if eff.time_ns() != 0 {
            o = o.class("time-units");
        }
        if c.reject {
            o = o.class("reject");
        }
        if eff.f.iter().any(|v| v.abs() >= (1 << 31)) {
            o = o.class("field>=2^31");
        }
        let pd = plain_date(a).expect("valid date");
        let d = match duration_from_dur(&c.dur) {
            Ok(d) => d,
            Err(e) => return o.fail("C04/add/duration-construct", "valid duration", err_str(&e)),
        };
        let got = if c.subtract { pd.subtract(&d, Some(overflow(ov))) } else { pd.add(&d, Some(overflow(ov))) };
        match (want, got) {
            (Ok(w), Ok(g)) => chk!(o, ymd_of(&g) == w, "C04/add/mismatch", w, ymd_of(&g)),
            (Err(_), Err(e)) => chk!(o, e.kind() == ErrorKind::Range, "C04/add/error-kind", "Range", err_str(&e)),
            (Ok(w), Err(e)) => o = o.fail("C04/add/unexpected-error", format!("{w:?}"), err_str(&e)),
            (Err(_), Ok(g)) => o = o.fail("C04/add/accepted", "RangeError", format!("{:?}", ymd_of(&g))),
        }
        o
    }
}

// ------------------------------------------------------------------------------------------
// until / since + laws

#[derive(Serialize, Deserialize, Debug, Clone)]
pub struct DiffCase {
    pub a: i64,
    pub b: i64,
    pub largest: U,
}
pub struct DiffSub;

impl SubCheck for DiffSub {
    type Case = DiffCase;
    fn name(&self) -> &'static str {
        "until"
    }
    fn eval(&self, c: &DiffCase) -> Outcome {
        let (a, b) = (Ymd::from_n(c.a), Ymd::from_n(c.b));
        let (y, mo, w, d) = date_diff(a, b, c.largest);
        let mut o = Outcome::pass();
        let crosses_zero = (a.y <= 0) != (b.y <= 0);
        let near_limit = c.a < MIN_DAY + 31 || c.b < MIN_DAY + 31 || c.a > MAX_DAY - 31 || c.b > MAX_DAY - 31;
        // sign of raw component differences differ before balancing
        let raw = [(b.y - a.y).signum(), (b.m as i64 - a.m as i64).signum(), (b.d as i64 - a.d as i64).signum()];
        let mixed = raw.iter().any(|s| *s > 0) && raw.iter().any(|s| *s < 0);
        o = o.nontrivial(a.d >= 29 || (a.m == 2 && a.d == 29) || (b.m == 2 && b.d == 29) || mixed || crosses_zero || near_limit);
        if a.d >= 29 {
            o = o.class("start-day>=29");
        }
        if mixed {
            o = o.class("mixed-component-signs");
        }
        if crosses_zero {
            o = o.class("crosses-year-0");
        }
        if near_limit {
            o = o.class("near-limit");
        }
        if c.b < c.a {
            o = o.class("negative");
        }
        let (pa, pb) = (plain_date(a).expect("valid"), plain_date(b).expect("valid"));
        let st = diff_settings(Some(unit(c.largest)), None, None, None);
        let want = [y as f64, mo as f64, w as f64, d as f64, 0., 0., 0., 0., 0., 0.];
        let until = match pa.until(&pb, st) {
            Ok(u) => u,
            Err(e) => return o.fail("C04/until/error", format!("{want:?}"), err_str(&e)),
        };
        let got = duration_fields(&until);
        chk!(o, fields_eq(&got, &want), "C04/until/mismatch", want, got);
        // model-independent laws
        let s = (c.b - c.a).signum() as f64;
        chk!(o, got.iter().all(|v| *v == 0.0 || v.signum() == s), "C04/until/not-sign-uniform", s, got);
        match c.largest {
            U::Year => chk!(o, got[1].abs() < 12.0 && got[2] == 0.0 && got[3].abs() <= 31.0, "C04/until/unbalanced", "months<12, days<=31", got),
            U::Month => chk!(o, got[0] == 0.0 && got[2] == 0.0 && got[3].abs() <= 31.0, "C04/until/unbalanced", "no years/weeks, days<=31", got),
            U::Week => chk!(o, got[0] == 0.0 && got[1] == 0.0 && got[3].abs() < 7.0, "C04/until/unbalanced", "only weeks, days<7", got),
            _ => chk!(o, got[0] == 0.0 && got[1] == 0.0 && got[2] == 0.0 && got[3] == (c.b - c.a) as f64, "C04/until/day-distance", c.b - c.a, got),
        }
        // a.add(a.until(b)) == b
        match pa.add(&until, None) {
            Ok(r) => chk!(o, r == pb, "C04/law/add-until", b, ymd_of(&r)),
            Err(e) => o = o.fail("C04/law/add-until/error", format!("{b:?}"), err_str(&e)),
        }
        // since is the negation
        match pa.since(&pb, st) {
            Ok(si) => {
                let neg = duration_fields(&until.negated());
                let gs = duration_fields(&si);
                chk!(o, fields_eq(&gs, &neg), "C04/law/since-negated", neg, gs);
            }
            Err(e) => o = o.fail("C04/law/since/error", "Ok", err_str(&e)),
        }
        // b.subtract(until) == b.add(-until)
        match (pb.subtract(&until, None), pb.add(&until.negated(), None)) {
            (Ok(x), Ok(y)) => chk!(o, x == y, "C04/law/subtract-is-add-negated", ymd_of(&y), ymd_of(&x)),
            (Err(x), Err(y)) => chk!(o, x.kind() == y.kind(), "C04/law/subtract-is-add-negated/kinds", kind_name(y.kind()), kind_name(x.kind())),
            (x, y) => o = o.fail("C04/law/subtract-is-add-negated/verdict", format!("{:?}", y.map(|p| ymd_of(&p)).map_err(|e| err_str(&e))), format!("{:?}", x.map(|p| ymd_of(&p)).map_err(|e| err_str(&e)))),
        }
        o
    }
}

// ------------------------------------------------------------------------------------------
// since with a rounding mode == negated until with the mirrored mode (metamorphic, no model)

#[derive(Serialize, Deserialize, Debug, Clone)]
pub struct MirrorCase {
    pub a: i64,
    pub b: i64,
    pub largest: U,
    pub smallest: U,
    pub inc: u32,
    pub mode: Mode,
}
pub struct MirrorSub;
impl SubCheck for MirrorSub {
    type Case = MirrorCase;
    fn name(&self) -> &'static str {
        "since-mirror"
    }
    fn eval(&self, c: &MirrorCase) -> Outcome {
        let (pa, pb) = (plain_date(Ymd::from_n(c.a)).unwrap(), plain_date(Ymd::from_n(c.b)).unwrap());
        let mut o = Outcome::pass().nontrivial(c.a != c.b && c.mode.negated() != c.mode).class(if c.mode.negated() != c.mode { "directed-mode" } else { "symmetric-mode" });
        let s1 = diff_settings(Some(unit(c.largest)), Some(unit(c.smallest)), Some(c.inc), Some(mode(c.mode)));
        let s2 = diff_settings(Some(unit(c.largest)), Some(unit(c.smallest)), Some(c.inc), Some(mode(c.mode.negated())));
        match (pa.since(&pb, s1), pa.until(&pb, s2)) {
            (Ok(s), Ok(u)) => {
                let (gs, gu) = (duration_fields(&s), duration_fields(&u.negated()));
                chk!(o, fields_eq(&gs, &gu), "C04/law/since-mirrored-mode", gu, gs);
            }
            (Err(x), Err(y)) => chk!(o, x.kind() == y.kind(), "C04/law/since-mirrored-mode/kinds", kind_name(y.kind()), kind_name(x.kind())),
            (x, y) => o = o.fail("C04/law/since-mirrored-mode/verdict", format!("{:?}", y.map(|d| duration_fields(&d)).map_err(|e| err_str(&e))), format!("{:?}", x.map(|d| duration_fields(&d)).map_err(|e| err_str(&e)))),
        }
        o
    }
}

// ------------------------------------------------------------------------------------------
// generators

fn field(max: i128) -> BoxedStrategy<i128> {
    prop_oneof![
        5 => Just(0i128),
        4 => 0i128..=3,
        3 => 0i128..=40,
        2 => 0i128..=max,
        1 => (-3i128..=3).prop_map(|k| (1i128 << 31) + k),
        1 => (0i128..=3).prop_map(|k| (1i128 << 32) - 1 - k),
    ]
    .boxed()
}

fn date_dur() -> BoxedStrategy<Dur> {
    (
        prop::bool::ANY,
        field(560_000),
        field(560_000 * 12),
        field(560_000 * 53),
        field(210_000_000),
        prop_oneof![6 => Just(0i128), 2 => 0i128..=100, 1 => 0i128..=5_000_000_000i128],
        prop_oneof![8 => Just(0i128), 1 => 0i128..=3000, 1 => 0i128..=300_000_000_000i128],
        prop_oneof![8 => Just(0i128), 1 => 0i128..=200_000],
        prop_oneof![8 => Just(0i128), 1 => (0i128..=3, 0i128..=2).prop_map(|(k, d)| (k * NS_PER_DAY + d * (NS_PER_DAY - 1)).max(0))],
    )
        .prop_map(|(neg, y, mo, w, d, h, mi, s, ns)| {
            let mut f = [y, mo, w, d, h, mi, s, 0, 0, gen::through_f64(ns)];
            if neg {
                for x in f.iter_mut() {
                    *x = -*x;
                }
            }
            Dur { f }
        })
        .prop_filter("valid", |d| d.valid())
        .boxed()
}

/// durations with one field whose scaled value (years*12, weeks*7, time units in days) is within a few units of a
/// multiple of 2^31 / 2^32 / 2^63 / 2^64, the others zero or small: arithmetic narrowed to 32 or 64 bits would wrap
/// to a small, plausible result instead of reporting the range error
pub fn wrap_dur() -> BoxedStrategy<Dur> {
    let lim = (1i128 << 32) - 1;
    let which = prop_oneof![
        2 => gen::wrap_prone(1, lim).prop_map(|v| (0usize, v)),
        2 => gen::wrap_prone(12, lim).prop_map(|v| (0usize, v)),
        2 => gen::wrap_prone(1, lim).prop_map(|v| (1usize, v)),
        3 => gen::wrap_prone(7, lim).prop_map(|v| (2usize, v)),
        2 => gen::wrap_prone(1, lim).prop_map(|v| (2usize, v)),
        2 => gen::wrap_prone(1, 104_249_991_374).prop_map(|v| (3usize, v)),
        1 => gen::wrap_prone(1, 2_501_999_792_983).prop_map(|v| (4usize, v)),
        1 => gen::wrap_prone(1, 150_119_987_579_016).prop_map(|v| (5usize, v)),
    ];
    (prop::bool::ANY, which, prop_oneof![3 => Just(0i128), 1 => 0i128..=12], prop_oneof![3 => Just(0i128), 1 => 0i128..=40])
        .prop_map(|(neg, (i, v), small_mo, small_d)| {
            let mut f = [0i128; 10];
            if i != 1 {
                f[1] = small_mo;
            }
            if i != 3 {
                f[3] = small_d;
            }
            f[i] = gen::through_f64(v);
            if neg {
                for x in f.iter_mut() {
                    *x = -*x;
                }
            }
            Dur { f }
        })
        .prop_filter("valid", |d| d.valid())
        .boxed()
}

pub fn add_case() -> BoxedStrategy<AddCase> {
    (gen::day(), prop_oneof![9 => date_dur(), 1 => wrap_dur()], prop::bool::ANY, prop::bool::weighted(0.3)).prop_map(|(day, dur, reject, subtract)| AddCase { day, dur, reject, subtract }).boxed()
}
/// wrap-prone durations only (also run by C02)
pub fn wrap_case() -> BoxedStrategy<AddCase> {
    (gen::day(), wrap_dur(), prop::bool::ANY, prop::bool::weighted(0.3)).prop_map(|(day, dur, reject, subtract)| AddCase { day, dur, reject, subtract }).boxed()
}
pub fn diff_case() -> BoxedStrategy<DiffCase> {
    (gen::day_pair(), gen::unit_in(0, 3)).prop_map(|((a, b), largest)| DiffCase { a, b, largest }).boxed()
}
pub fn mirror_case() -> BoxedStrategy<MirrorCase> {
    (gen::day_pair(), gen::unit_in(0, 3), gen::unit_in(0, 3), proptest::sample::select(vec![1u32, 2, 3, 5, 7, 10]), gen::mode())
        .prop_map(|((a, b), u1, u2, inc, mode)| {
            let (largest, smallest) = if u1.idx() <= u2.idx() { (u1, u2) } else { (u2, u1) };
            MirrorCase { a, b, largest, smallest, inc, mode }
        })
        .boxed()
}

pub fn run(ctx: &mut Ctx) {
    ctx.rule = "add: generated (date, valid duration over all ten fields incl. 2^31+-k and 2^32-1 magnitudes and - one case in ten - one field whose scaled value (years*12, weeks*7, ...) is within a few units of k*2^31 / 2^32 / 2^63 / 2^64, overflow, add|subtract) against AddISODate in unbounded integers (value or RangeError); until: generated pairs (boundary-biased: month ends, leap days, negative years, spans up to 5.4e5 years) x largestUnit in {year, month, week, day} against DifferenceISODate, plus model-free laws (sign-uniform, balanced, a.add(a.until(b))==b, since==-until, subtract==add(-d)); since-mirror: since(mode) == -until(negated mode) with smallestUnit/increment; thorough adds an exhaustive block of all pairs of days in 1999-12-01..2001-03-31 x 4 units. non-trivial = start day >= 29, Feb 29 involved, mixed signs of raw component differences, span crosses year 0, result within a month of a limit, or time units present.".into();
    let t = ctx.tier;
    ctx.run_prop(&AddSub, &add_case, t.pick(1_000_000, 30_000_000));
    ctx.run_prop(&DiffSub, &diff_case, t.pick(1_000_000, 30_000_000));
    ctx.run_prop(&MirrorSub, &mirror_case, t.pick(300_000, 6_000_000));
    // until / since with smallestUnit, roundingIncrement and roundingMode against the exact model (C08's
    // RoundRelativeDuration reference; a third of these cases are PlainDate pairs): a rounding step that is skipped or
    // carried wrongly keeps the since / until mirror intact and is only visible against a model
    ctx.run_prop(&crate::props::c08::UntilSub, &crate::props::c08::until_case, t.pick(300_000, 6_000_000));
    // exhaustive block
    let lo = to_days(1999, 12, 1);
    let hi = to_days(2001, 3, 31);
    let n = (hi - lo + 1) as u64;
    let stride = t.pick(7, 1); // quick: every 7th start day (still every end day)
    let starts: Vec<i64> = (lo..=hi).step_by(stride as usize).collect();
    let total = starts.len() as u64 * n * 4;
    ctx.run_enum(
        &DiffSub,
        total,
        &|i| {
            let u = [U::Year, U::Month, U::Week, U::Day][(i % 4) as usize];
            let j = i / 4;
            DiffCase { a: starts[(j / n) as usize], b: lo + (j % n) as i64, largest: u }
        },
        stride == 1,
    );
}

pub fn replay(ctx: &mut Ctx, sub: &str, case: &Value) -> bool {
    match sub {
        "add" => ctx.replay_case(&AddSub, case),
        "until" => ctx.replay_case(&DiffSub, case),
        "since-mirror" => ctx.replay_case(&MirrorSub, case),
        "until-rounded" => ctx.replay_case(&crate::props::c08::UntilSub, case),
        _ => false,
    }
}
