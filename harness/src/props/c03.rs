//! C03 - no public operation panics, reports an internal assertion error or loops without bound.
//! Structured op universe over every public entry point with extreme arguments; the byte-level
//! libFuzzer targets live in /verif/fuzz and reuse `run_op`.

use crate::conv::*;
use crate::gen;
use crate::props::c13::{shaped_zones, syn_zone};
use crate::refm::civil::{date_in_range, to_days, MAX_DAY, MAX_INSTANT, MIN_DAY};
use crate::refm::civil::NS_PER_DAY as NS_DAY;
use crate::refm::dateadd::{Dt, Ymd};
use crate::refm::dur::Dur;
use crate::refm::tz::Zone;
use crate::run::*;
use crate::tzp::TableProvider;
use proptest::prelude::*;
use serde::{Deserialize, Serialize};
use serde_json::Value;
use std::str::FromStr;
use std::sync::OnceLock;
use temporal_rs::error::ErrorKind;
use temporal_rs::options::*;
use temporal_rs::parsers::Precision;
use temporal_rs::partial::*;
use temporal_rs::provider::TimeZoneProvider;
use temporal_rs::provider::TransitionDirection;
use temporal_rs::time::EpochNanoseconds;
use temporal_rs::tzdb::FsTzdbProvider;
use temporal_rs::*;

pub const N_OPS: u16 = 120;

#[derive(Serialize, Deserialize, Debug, Clone)]
pub enum ZoneArg {
    Fixed(i32),
    Table(Zone),
    /// a name looked up in the bundled FsTzdbProvider (real IANA names and garbage)
    Named(String),
}

/// raw arguments: nothing here is guaranteed valid
#[derive(Serialize, Deserialize, Debug, Clone)]
pub struct Args {
    pub y: i32,
    pub mo: u8,
    pub d: u8,
    pub h: u8,
    pub mi: u8,
    pub s: u8,
    pub ms: u16,
    pub us: u16,
    pub ns: u16,
    pub y2: i32,
    /// valid receivers
    pub day1: i64,
    pub day2: i64,
    pub tod1: i128,
    pub tod2: i128,
    pub inst1: i128,
    pub inst2: i128,
    /// raw instant-like value (may be out of range)
    pub raw_ns: i128,
    pub raw_ms: i64,
    /// raw duration fields (any finite doubles) and two valid durations
    pub f: [f64; 10],
    pub dur1: Dur,
    pub dur2: Dur,
    /// options: 0 = absent, 1 = auto, 2..=11 units
    pub largest: u8,
    pub smallest: u8,
    pub inc: u32,
    pub inc_f: f64,
    /// 0 = absent, 1..=9
    pub mode: u8,
    /// 0 absent, 1 constrain, 2 reject
    pub overflow: u8,
    pub dis: u8,
    pub offopt: u8,
    pub display: u8,
    /// 0 auto, 1 minute, 2.. digit(n-2)
    pub precision: u8,
    pub cal: u8,
    pub cal2: u8,
    pub zone: ZoneArg,
    pub text: String,
    /// partial-field presence mask
    pub mask: u16,
    pub era: String,
    pub mcode: String,
}

#[derive(Serialize, Deserialize, Debug, Clone)]
pub struct Case {
    pub op: u16,
    pub a: Args,
}

pub const CALS: [&str; 20] = [
    "iso8601", "gregory", "japanese", "buddhist", "chinese", "coptic", "dangi", "ethioaa", "ethiopic", "hebrew", "indian", "islamic", "islamic-civil", "islamic-tbla",
    "islamic-umalqura", "persian", "roc", "japanext", "islamicc", "iso",
];

fn cal(i: u8) -> Calendar {
    Calendar::from_str(CALS[i as usize % CALS.len()]).unwrap_or_default()
}
fn unit_opt(v: u8) -> Option<Unit> {
    match v % 12 {
        0 => None,
        1 => Some(Unit::Auto),
        n => Some(Unit::from((n - 1) as usize)),
    }
}
fn unit_req(v: u8) -> Unit {
    unit_opt(v).unwrap_or(Unit::Auto)
}
fn mode_opt(v: u8) -> Option<RoundingMode> {
    use RoundingMode::*;
    [None, Some(Ceil), Some(Floor), Some(Expand), Some(Trunc), Some(HalfCeil), Some(HalfFloor), Some(HalfExpand), Some(HalfTrunc), Some(HalfEven)][v as usize % 10]
}
fn ov_opt(v: u8) -> Option<ArithmeticOverflow> {
    [None, Some(ArithmeticOverflow::Constrain), Some(ArithmeticOverflow::Reject)][v as usize % 3]
}
fn ov_req(v: u8) -> ArithmeticOverflow {
    ov_opt(v).unwrap_or(ArithmeticOverflow::Constrain)
}
fn dis(v: u8) -> Disambiguation {
    [Disambiguation::Compatible, Disambiguation::Earlier, Disambiguation::Later, Disambiguation::Reject][v as usize % 4]
}
fn offopt(v: u8) -> OffsetDisambiguation {
    [OffsetDisambiguation::Use, OffsetDisambiguation::Prefer, OffsetDisambiguation::Ignore, OffsetDisambiguation::Reject][v as usize % 4]
}
fn dcal(v: u8) -> DisplayCalendar {
    [DisplayCalendar::Auto, DisplayCalendar::Always, DisplayCalendar::Never, DisplayCalendar::Critical][v as usize % 4]
}
fn doff(v: u8) -> DisplayOffset {
    [DisplayOffset::Auto, DisplayOffset::Never][v as usize % 2]
}
fn dtz(v: u8) -> DisplayTimeZone {
    [DisplayTimeZone::Auto, DisplayTimeZone::Never, DisplayTimeZone::Critical][v as usize % 3]
}
fn prec(v: u8) -> Precision {
    match v {
        0 => Precision::Auto,
        1 => Precision::Minute,
        n => Precision::Digit(n - 2),
    }
}
fn settings(a: &Args) -> Option<DifferenceSettings> {
    let mut s = DifferenceSettings::default();
    s.largest_unit = unit_opt(a.largest);
    s.smallest_unit = unit_opt(a.smallest);
    s.rounding_mode = mode_opt(a.mode);
    s.increment = if a.inc == 0 { None } else { Some(RoundingIncrement::try_new(a.inc).ok()?) };
    Some(s)
}
fn ropts(a: &Args) -> Option<RoundingOptions> {
    let mut s = RoundingOptions::default();
    s.largest_unit = unit_opt(a.largest);
    s.smallest_unit = unit_opt(a.smallest);
    s.rounding_mode = mode_opt(a.mode);
    s.increment = if a.inc == 0 { None } else { Some(RoundingIncrement::try_new(a.inc).ok()?) };
    Some(s)
}
fn sopts(a: &Args) -> ToStringRoundingOptions {
    let mut o = ToStringRoundingOptions::default();
    o.precision = prec(a.precision);
    o.smallest_unit = unit_opt(a.smallest);
    o.rounding_mode = mode_opt(a.mode);
    o
}
fn tz_of(z: &ZoneArg) -> TimeZone {
    match z {
        ZoneArg::Fixed(m) => TimeZone::try_from_identifier_str(&crate::refm::fmt::offset_minutes((*m as i64).clamp(-1439, 1439))).unwrap_or_default(),
        ZoneArg::Table(z) => TimeZone::IanaIdentifier(z.name.clone()),
        ZoneArg::Named(n) => TimeZone::IanaIdentifier(n.clone()),
    }
}

enum Prov {
    Table(TableProvider),
    Fs(&'static FsTzdbProvider),
}
// FsTzdbProvider holds a RefCell cache, so it is not Sync: one per thread
thread_local! {
    static FS: &'static FsTzdbProvider = Box::leak(Box::new(FsTzdbProvider::default()));
}
fn prov_of(z: &ZoneArg) -> Prov {
    match z {
        ZoneArg::Table(z) => Prov::Table(TableProvider::new(vec![z.clone()])),
        ZoneArg::Fixed(_) => Prov::Table(TableProvider::utc_only()),
        ZoneArg::Named(_) => Prov::Fs(FS.with(|f| *f)),
    }
}

fn partial_date(a: &Args, c: Calendar) -> PartialDate {
    let mut p = PartialDate::new().with_calendar(c);
    if a.mask & 1 != 0 {
        p = p.with_year(Some(a.y));
    }
    if a.mask & 2 != 0 {
        p = p.with_month(Some(a.mo));
    }
    if a.mask & 4 != 0 {
        p = p.with_month_code(MonthCode::from_str(&a.mcode).ok());
    }
    if a.mask & 8 != 0 {
        p = p.with_day(Some(a.d));
    }
    if a.mask & 16 != 0 {
        p = p.with_era(TinyAsciiStr::<19>::try_from_str(&a.era).ok());
    }
    if a.mask & 32 != 0 {
        p = p.with_era_year(Some(a.y2));
    }
    p
}
fn partial_time(a: &Args) -> PartialTime {
    let mut p = PartialTime::new();
    if a.mask & 64 != 0 {
        p = p.with_hour(Some(a.h));
    }
    if a.mask & 128 != 0 {
        p = p.with_minute(Some(a.mi));
    }
    if a.mask & 256 != 0 {
        p = p.with_second(Some(a.s));
    }
    if a.mask & 512 != 0 {
        p = p.with_millisecond(Some(a.ms));
    }
    if a.mask & 1024 != 0 {
        p = p.with_microsecond(Some(a.us));
    }
    if a.mask & 2048 != 0 {
        p = p.with_nanosecond(Some(a.ns));
    }
    p
}

/// what a call produced, reduced to what C03 judges
pub enum R {
    Ok,
    Err(ErrorKind, String),
    /// the op could not be set up from these arguments (counted, trivial)
    Skip,
}
fn r<T>(x: TemporalResult<T>) -> R {
    match x {
        Ok(_) => R::Ok,
        Err(e) => R::Err(e.kind(), e.message().to_string()),
    }
}
fn first_err(v: Vec<R>) -> R {
    let mut out = R::Ok;
    for x in v {
        if let R::Err(ErrorKind::Assert, _) = x {
            return x;
        }
        if let R::Err(..) = x {
            out = x;
        }
    }
    out
}

macro_rules! some {
    ($e:expr) => {
        match $e {
            Some(v) => v,
            None => return R::Skip,
        }
    };
}
macro_rules! okk {
    ($e:expr) => {
        match $e {
            Ok(v) => v,
            Err(_) => return R::Skip,
        }
    };
}

/// executes op `c.op` (the heart of C03; also driven by the libFuzzer `ops` target)
pub fn run_op(c: &Case) -> R {
    let a = &c.a;
    let d1 = okk!(plain_date(Ymd::from_n(a.day1)));
    let d2 = okk!(plain_date(Ymd::from_n(a.day2)));
    let t1 = okk!(plain_time(a.tod1));
    let t2 = okk!(plain_time(a.tod2));
    let c1 = cal(a.cal);
    let c2 = cal(a.cal2);
    let tz = tz_of(&a.zone);
    macro_rules! prov {
        ($p:ident => $body:expr) => {
            match prov_of(&a.zone) {
                Prov::Table(t) => {
                    let $p = &t;
                    $body
                }
                Prov::Fs(f) => {
                    let $p = f;
                    $body
                }
            }
        };
    }
    match c.op {
        // ---- PlainDate
        0 => r(PlainDate::new(a.y, a.mo, a.d, c1)),
        1 => r(PlainDate::try_new(a.y, a.mo, a.d, c1)),
        2 => r(PlainDate::new_with_overflow(a.y, a.mo, a.d, c1, ov_req(a.overflow))),
        3 => r(PlainDate::from_partial(partial_date(a, c1), ov_opt(a.overflow))),
        4 => r(d1.with_calendar(c1.clone()).and_then(|d| d.with(partial_date(a, c1), ov_opt(a.overflow)))),
        5 => r(duration_from_f64s(&a.f).and_then(|d| d1.add(&d, ov_opt(a.overflow)))),
        6 => r(duration_from_f64s(&a.f).and_then(|d| d1.subtract(&d, ov_opt(a.overflow)))),
        7 => r(duration_from_dur(&a.dur1).and_then(|d| d1.add(&d, ov_opt(a.overflow)))),
        8 => r(d1.until(&d2, some!(settings(a)))),
        9 => r(d1.since(&d2, some!(settings(a)))),
        10 => {
            // calendar getters on any calendar, any date
            let d = okk!(d1.with_calendar(c1));
            let _ = (d.year(), d.month(), d.month_code(), d.day(), d.day_of_week(), d.day_of_year(), d.days_in_month(), d.days_in_year(), d.months_in_year(), d.in_leap_year(), d.era(), d.era_year());
            first_err(vec![r(d.week_of_year()), r(d.year_of_week()), r(d.days_in_week())])
        }
        11 => {
            let d = okk!(d1.with_calendar(c1));
            first_err(vec![r(d.to_plain_year_month()), r(d.to_plain_month_day()), r(d.to_plain_date_time(Some(t1)))])
        }
        12 => {
            let d = okk!(d1.with_calendar(c1));
            let _ = d.to_ixdtf_string(dcal(a.display));
            let _ = d.to_string();
            R::Ok
        }
        13 => prov!(p => r(d1.to_zoned_date_time_with_provider(tz.clone(), if a.mask & 1 != 0 { Some(t1) } else { None }, p))),
        14 => r(PlainDate::from_str(&a.text)),
        15 => {
            // differences across different calendars / with add in non-ISO calendars
            let x = okk!(d1.with_calendar(c1));
            let y = okk!(d2.with_calendar(c2));
            first_err(vec![r(x.until(&y, some!(settings(a)))), r(duration_from_dur(&a.dur1).and_then(|d| x.add(&d, None)))])
        }
        // ---- PlainDateTime
        16 => r(PlainDateTime::new(a.y, a.mo, a.d, a.h, a.mi, a.s, a.ms, a.us, a.ns, c1)),
        17 => r(PlainDateTime::try_new(a.y, a.mo, a.d, a.h, a.mi, a.s, a.ms, a.us, a.ns, c1)),
        18 => r(PlainDateTime::new_with_overflow(a.y, a.mo, a.d, a.h, a.mi, a.s, a.ms, a.us, a.ns, c1, ov_req(a.overflow))),
        19 => r(PlainDateTime::from_date_and_time(d1, t1)),
        20 => r(PlainDateTime::from_partial(PartialDateTime::new().with_partial_date(partial_date(a, c1)).with_partial_time(partial_time(a)), ov_opt(a.overflow))),
        21 => {
            let p = okk!(PlainDateTime::from_date_and_time(d1, t1));
            r(p.with(PartialDateTime::new().with_partial_date(partial_date(a, Calendar::default())).with_partial_time(partial_time(a)), ov_opt(a.overflow)))
        }
        22 => {
            let p = okk!(PlainDateTime::from_date_and_time(d1, t1));
            first_err(vec![r(p.with_time(t2)), r(p.with_calendar(c1)), r(p.to_plain_date()), r(p.to_plain_time())])
        }
        23 => {
            let p = okk!(PlainDateTime::from_date_and_time(d1, t1));
            r(duration_from_f64s(&a.f).and_then(|d| p.add(&d, ov_opt(a.overflow))))
        }
        24 => {
            let p = okk!(PlainDateTime::from_date_and_time(d1, t1));
            r(duration_from_dur(&a.dur1).and_then(|d| p.subtract(&d, ov_opt(a.overflow))))
        }
        25 => {
            let p = okk!(PlainDateTime::from_date_and_time(d1, t1));
            let q = okk!(PlainDateTime::from_date_and_time(d2, t2));
            first_err(vec![r(p.until(&q, some!(settings(a)))), r(p.since(&q, some!(settings(a))))])
        }
        26 => {
            let p = okk!(PlainDateTime::from_date_and_time(d1, t1));
            r(p.round(some!(ropts(a))))
        }
        27 => {
            let p = okk!(PlainDateTime::from_date_and_time(d1, t1));
            prov!(pv => r(p.to_zoned_date_time_with_provider(&tz, dis(a.dis), pv)))
        }
        28 => {
            let p = okk!(PlainDateTime::from_date_and_time(okk!(d1.with_calendar(c1)), t1));
            let _ = p.to_string();
            r(p.to_ixdtf_string(sopts(a), dcal(a.display)))
        }
        29 => r(PlainDateTime::from_str(&a.text)),
        30 => {
            let p = okk!(PlainDateTime::from_date_and_time(okk!(d1.with_calendar(c1)), t1));
            let _ = (p.year(), p.month(), p.month_code(), p.day(), p.day_of_week(), p.day_of_year(), p.days_in_month(), p.days_in_year(), p.months_in_year(), p.in_leap_year(), p.era(), p.era_year(), p.hour(), p.nanosecond());
            first_err(vec![r(p.week_of_year()), r(p.year_of_week()), r(p.days_in_week())])
        }
        // ---- PlainTime
        31 => r(PlainTime::new(a.h, a.mi, a.s, a.ms, a.us, a.ns)),
        32 => r(PlainTime::try_new(a.h, a.mi, a.s, a.ms, a.us, a.ns)),
        33 => r(PlainTime::new_with_overflow(a.h, a.mi, a.s, a.ms, a.us, a.ns, ov_req(a.overflow))),
        34 => r(PlainTime::from_partial(partial_time(a), ov_opt(a.overflow))),
        35 => r(t1.with(partial_time(a), ov_opt(a.overflow))),
        36 => r(duration_from_f64s(&a.f).and_then(|d| t1.add(&d))),
        37 => r(duration_from_dur(&a.dur1).and_then(|d| t1.subtract(&d))),
        38 => first_err(vec![r(t1.until(&t2, some!(settings(a)))), r(t1.since(&t2, some!(settings(a))))]),
        39 => r(t1.round(unit_req(a.smallest), if a.mask & 1 != 0 { Some(a.inc_f) } else { None }, mode_opt(a.mode))),
        40 => r(t1.to_ixdtf_string(sopts(a))),
        41 => r(PlainTime::from_str(&a.text)),
        // ---- PlainYearMonth
        42 => r(PlainYearMonth::new_with_overflow(a.y, a.mo, if a.mask & 1 != 0 { Some(a.d) } else { None }, c1, ov_req(a.overflow))),
        43 => r(PlainYearMonth::from_partial(partial_date(a, c1), ov_req(a.overflow))),
        44 => {
            let ym = okk!(d1.to_plain_year_month());
            r(ym.with(partial_date(a, Calendar::default()), ov_opt(a.overflow)))
        }
        45 => {
            let ym = okk!(d1.to_plain_year_month());
            first_err(vec![r(duration_from_f64s(&a.f).and_then(|d| ym.add(&d, ov_req(a.overflow)))), r(duration_from_dur(&a.dur1).and_then(|d| ym.subtract(&d, ov_req(a.overflow))))])
        }
        46 => {
            let ym = okk!(d1.to_plain_year_month());
            let ym2 = okk!(d2.to_plain_year_month());
            first_err(vec![r(ym.until(&ym2, some!(settings(a)))), r(ym.since(&ym2, some!(settings(a))))])
        }
        47 => {
            let ym = okk!(okk!(d1.with_calendar(c1)).to_plain_year_month());
            let _ = (ym.iso_year(), ym.iso_month(), ym.padded_iso_year_string(), ym.era(), ym.era_year(), ym.year(), ym.month(), ym.month_code(), ym.days_in_year(), ym.days_in_month(), ym.months_in_year(), ym.in_leap_year(), ym.calendar_id());
            let _ = ym.to_ixdtf_string(dcal(a.display));
            r(ym.to_plain_date())
        }
        48 => r(PlainYearMonth::from_str(&a.text)),
        // ---- PlainMonthDay
        49 => r(PlainMonthDay::new_with_overflow(a.mo, a.d, c1, ov_req(a.overflow), if a.mask & 1 != 0 { Some(a.y) } else { None })),
        50 => {
            let md = okk!(d1.to_plain_month_day());
            let _ = (md.iso_day(), md.iso_month(), md.iso_year(), md.calendar_id(), md.month_code());
            let _ = md.to_ixdtf_string(dcal(a.display));
            first_err(vec![r(md.with(partial_date(a, Calendar::default()), ov_req(a.overflow))), r(md.to_plain_date())])
        }
        51 => r(PlainMonthDay::from_str(&a.text)),
        // ---- Instant
        52 => r(Instant::try_new(a.raw_ns)),
        53 => r(Instant::from_epoch_milliseconds(a.raw_ms)),
        54 => {
            let i = okk!(Instant::try_new(a.inst1));
            first_err(vec![r(duration_from_f64s(&a.f).and_then(|d| i.add(d))), r(duration_from_dur(&a.dur1).and_then(|d| i.subtract(d)))])
        }
        55 => {
            let (i, j) = (okk!(Instant::try_new(a.inst1)), okk!(Instant::try_new(a.inst2)));
            first_err(vec![r(i.until(&j, some!(settings(a)))), r(i.since(&j, some!(settings(a))))])
        }
        56 => r(okk!(Instant::try_new(a.inst1)).round(some!(ropts(a)))),
        57 => {
            let i = okk!(Instant::try_new(a.inst1));
            let _ = i.epoch_milliseconds();
            let _ = i.to_zoned_date_time_iso(tz.clone());
            prov!(p => r(i.to_ixdtf_string_with_provider(if a.mask & 1 != 0 { Some(&tz) } else { None }, sopts(a), p)))
        }
        58 => r(Instant::from_str(&a.text)),
        // ---- Duration
        59 => {
            // any duration the constructor lets through (fields need not be integral) prints through `Display`, whose
            // impl `expect`s the result of the explicit string method
            let d = okk!(duration_from_f64s(&a.f));
            let _ = d.to_string();
            let _ = format!("{d:?}");
            r(d.as_temporal_string(sopts(a)))
        }
        60 => {
            let mut p = PartialDuration::default();
            let flds = [&mut p.years, &mut p.months, &mut p.weeks, &mut p.days, &mut p.hours, &mut p.minutes, &mut p.seconds, &mut p.milliseconds, &mut p.microseconds, &mut p.nanoseconds];
            for (i, f) in flds.into_iter().enumerate() {
                if a.mask & (1 << i) != 0 {
                    *f = Some(ff(a.f[i]));
                }
            }
            r(Duration::from_partial_duration(p))
        }
        61 => {
            let t = okk!(TimeDuration::new(ff(a.f[4]), ff(a.f[5]), ff(a.f[6]), ff(a.f[7]), ff(a.f[8]), ff(a.f[9])));
            let d = Duration::from_day_and_time(ff(a.f[3]), &t);
            let _ = (d.sign(), d.is_zero(), d.negated(), d.abs(), d.is_time_within_range(), t.is_within_range(), t.sign(), t.abs(), t.negated());
            r(DateDuration::new(ff(a.f[0]), ff(a.f[1]), ff(a.f[2]), ff(a.f[3])))
        }
        62 => {
            let (x, y) = (okk!(duration_from_dur(&a.dur1)), okk!(duration_from_dur(&a.dur2)));
            first_err(vec![r(x.add(&y)), r(x.subtract(&y))])
        }
        63 | 64 | 65 => {
            // round / total / compare with every kind of relativeTo
            let x = okk!(duration_from_dur(&a.dur1));
            let y = okk!(duration_from_dur(&a.dur2));
            let rel = match a.mask % 3 {
                0 => None,
                1 => Some(RelativeTo::PlainDate(d1.clone())),
                _ => Some(RelativeTo::ZonedDateTime(okk!(ZonedDateTime::try_new(a.inst1, Calendar::default(), tz.clone())))),
            };
            prov!(p => match c.op {
                63 => r(x.round_with_provider(some!(ropts(a)), rel, p)),
                64 => r(x.total_with_provider(unit_req(a.smallest), rel, p)),
                _ => r(x.compare_with_provider(&y, rel, p)),
            })
        }
        66 => {
            // unvalidated durations (from_day_and_time) flowing into arithmetic
            let t = okk!(TimeDuration::new(ff(a.f[4]), ff(a.f[5]), ff(a.f[6]), ff(a.f[7]), ff(a.f[8]), ff(a.f[9])));
            let d = Duration::from_day_and_time(ff(a.f[3]), &t);
            let p = TableProvider::utc_only();
            if d.is_time_within_range() {
                // (`Display` of a duration whose time part exceeds the limit is outside what a constructor can produce)
                let _ = d.to_string();
            }
            first_err(vec![r(d1.add(&d, None)), r(d.round_with_provider(some!(ropts(a)), None, &p)), r(d.total_with_provider(unit_req(a.smallest), None, &p)), r(d.as_temporal_string(sopts(a)))])
        }
        67 => r(okk!(duration_from_dur(&a.dur1)).as_temporal_string(sopts(a))),
        68 => r(Duration::from_str(&a.text)),
        // ---- ZonedDateTime
        69 => r(ZonedDateTime::try_new(a.raw_ns, c1, tz)),
        70 => {
            let mut p = PartialZonedDateTime::new().with_date(partial_date(a, c1)).with_time(partial_time(a)).with_timezone(Some(tz.clone()));
            if a.mask & 4096 != 0 {
                p = p.with_offset(UtcOffset::from_str(&crate::refm::fmt::offset_minutes((a.y2 % 1440) as i64)).ok());
            }
            prov!(pv => r(ZonedDateTime::from_partial_with_provider(p, ov_opt(a.overflow), Some(dis(a.dis)), Some(offopt(a.offopt)), pv)))
        }
        71 => prov!(p => r(ZonedDateTime::from_str_with_provider(&a.text, dis(a.dis), offopt(a.offopt), p))),
        72..=86 => {
            let z = okk!(ZonedDateTime::try_new(a.inst1, c1, tz.clone()));
            let z2 = okk!(ZonedDateTime::try_new(a.inst2, c2.clone(), tz.clone()));
            prov!(p => match c.op {
                72 => first_err(vec![
                    r(z.year_with_provider(p)), r(z.month_with_provider(p)), r(z.month_code_with_provider(p)), r(z.day_with_provider(p)), r(z.hour_with_provider(p)),
                    r(z.minute_with_provider(p)), r(z.second_with_provider(p)), r(z.millisecond_with_provider(p)), r(z.microsecond_with_provider(p)), r(z.nanosecond_with_provider(p)),
                    r(z.offset_with_provider(p)), r(z.offset_nanoseconds_with_provider(p)),
                ]),
                73 => first_err(vec![
                    r(z.era_with_provider(p)), r(z.era_year_with_provider(p)), r(z.day_of_week_with_provider(p)), r(z.day_of_year_with_provider(p)), r(z.week_of_year_with_provider(p)),
                    r(z.year_of_week_with_provider(p)), r(z.days_in_week_with_provider(p)), r(z.days_in_month_with_provider(p)), r(z.days_in_year_with_provider(p)),
                    r(z.months_in_year_with_provider(p)), r(z.in_leap_year_with_provider(p)),
                ]),
                74 => r(duration_from_f64s(&a.f).and_then(|d| z.add_with_provider(&d, ov_opt(a.overflow), p))),
                75 => r(duration_from_dur(&a.dur1).and_then(|d| z.subtract_with_provider(&d, ov_opt(a.overflow), p))),
                76 => r(z.until_with_provider(&z2, some!(settings(a)), p)),
                77 => r(z.since_with_provider(&z2, some!(settings(a)), p)),
                78 => r(z.start_of_day_with_provider(p)),
                79 => r(z.hours_in_day_with_provider(p)),
                80 => r(z.with_plain_time_and_provider(t1, p)),
                81 => first_err(vec![r(z.to_plain_date_with_provider(p)), r(z.to_plain_time_with_provider(p)), r(z.to_plain_datetime_with_provider(p))]),
                82 => {
                    // the convenience `Display` (process-wide provider) for real zone names and for names no provider knows
                    if matches!(a.zone, ZoneArg::Named(_) | ZoneArg::Fixed(_)) {
                        let _ = z.to_string();
                    }
                    first_err(vec![r(z.to_string_with_provider(p)), r(z.to_ixdtf_string_with_provider(doff(a.display), dtz(a.display / 2), dcal(a.display / 6), sopts(a), p))])
                }
                83 => first_err(vec![r(z.get_time_zone_transition_with_provider(TransitionDirection::Next, p).or_else(|e| if e.kind() == ErrorKind::Generic { Ok(None) } else { Err(e) })), r(z.get_time_zone_transition_with_provider(TransitionDirection::Previous, p).or_else(|e| if e.kind() == ErrorKind::Generic { Ok(None) } else { Err(e) }))]),
                84 => {
                    let _ = (z.epoch_milliseconds(), z.epoch_nanoseconds(), z.to_instant(), z.compare_instant(&z2), z.calendar(), z.timezone());
                    first_err(vec![r(z.with_timezone(tz_of(&ZoneArg::Fixed(a.y2 % 1440)))), r(z.with_calendar(c2)), r(z.with(PartialZonedDateTime::new()).or_else(|e| if e.kind() == ErrorKind::Generic { Ok(z.clone()) } else { Err(e) }))])
                }
                85 => {
                    // chain: add then measure back then add again
                    let d = okk!(duration_from_dur(&a.dur1));
                    let w = okk!(z.add_with_provider(&d, None, p));
                    let back = okk!(z.until_with_provider(&w, some!(settings(a)), p));
                    r(z.add_with_provider(&back, None, p))
                }
                _ => {
                    // Now::* with explicit system info
                    let e = okk!(EpochNanoseconds::try_from(a.inst1));
                    first_err(vec![
                        r(Now::zoneddatetime_iso_with_system_info(e, tz.clone())),
                        r(Now::plain_datetime_iso_with_provider_and_system_info(e, tz.clone(), p)),
                        r(Now::plain_date_iso_with_provider_and_system_info(e, tz.clone(), p)),
                        r(Now::plain_time_iso_with_provider_and_system_info(e, tz.clone(), p)),
                    ])
                }
            })
        }
        // ---- identifiers, enums, small types
        87 => r(Calendar::from_str(&a.text)),
        88 => r(Calendar::from_utf8(a.text.as_bytes())),
        89 => first_err(vec![r(MonthCode::from_str(&a.mcode)), r(MonthCode::try_from_utf8(a.text.as_bytes()))]),
        90 => first_err(vec![r(TimeZone::try_from_str(&a.text)), r(TimeZone::try_from_identifier_str(&a.text))]),
        91 => {
            let o = UtcOffset::from_str(&a.text);
            if let Ok(o) = &o {
                let _ = o.to_string();
            }
            r(o)
        }
        92 => {
            let _ = (
                Unit::from_str(&a.text).is_ok(),
                RoundingMode::from_str(&a.text).is_ok(),
                ArithmeticOverflow::from_str(&a.text).is_ok(),
                DurationOverflow::from_str(&a.text).is_ok(),
                Disambiguation::from_str(&a.text).is_ok(),
                OffsetDisambiguation::from_str(&a.text).is_ok(),
                DisplayCalendar::from_str(&a.text).is_ok(),
                DisplayOffset::from_str(&a.text).is_ok(),
                DisplayTimeZone::from_str(&a.text).is_ok(),
                TransitionDirection::from_str(&a.text).is_ok(),
            );
            R::Ok
        }
        93 => prov!(p => r(RelativeTo::try_from_str_with_provider(&a.text, p))),
        94 => {
            let _ = tz.identifier();
            let u = unit_req(a.smallest);
            let _ = (u.as_nanoseconds(), u.is_calendar_unit(), u.is_date_unit(), u.is_time_unit(), u.to_string());
            let _ = u.to_maximum_rounding_increment();
            // the public operator and conversions of `Unit` (`Unit + usize`, `From<usize>`), with a raw operand
            let raw = a.raw_ns as u64 as usize;
            let _ = (u + raw, u + (a.inc as usize), u + usize::MAX, Unit::from(raw), u.max(unit_req(a.largest)));
            first_err(vec![r(RoundingIncrement::try_new(a.inc)), r(RoundingIncrement::try_from(a.inc_f)), r(UnitGroup::Date.validate_unit(unit_opt(a.largest), unit_opt(a.smallest))), r(UnitGroup::Time.validate_required_unit(unit_opt(a.largest), unit_opt(a.smallest))), r(UnitGroup::DateTime.validate_unit(unit_opt(a.largest), None))])
        }
        95 => {
            // the provider trait directly with raw identifiers and instants
            let f = FS.with(|f| *f);
            let _ = f.check_identifier(&a.text);
            let name = match &a.zone {
                ZoneArg::Named(n) => n.clone(),
                _ => a.text.clone(),
            };
            first_err(vec![r(f.get_named_tz_offset_nanoseconds(&name, a.raw_ns)), r(f.get(&name)), r(f.get_named_tz_transition(&name, a.raw_ns, TransitionDirection::Next).or_else(|e| if e.kind() == ErrorKind::Generic { Ok(None) } else { Err(e) }))])
        }
        96 => {
            // calendar methods taking IsoDate are reached through PlainDate; date_from_partial etc. directly
            first_err(vec![r(c1.date_from_partial(&partial_date(a, c1.clone()), ov_req(a.overflow))), r(c1.month_day_from_partial(&partial_date(a, c1.clone()), ov_req(a.overflow))), r(c1.year_month_from_partial(&partial_date(a, c1.clone()), ov_req(a.overflow)))])
        }
        97 => {
            let _ = (c1.identifier(), c1.is_iso(), c1 == c2);
            R::Ok
        }
        // ---- chains through several types
        98 => {
            let p = okk!(PlainDateTime::from_date_and_time(d1, t1));
            prov!(pv => {
                let z = okk!(p.to_zoned_date_time_with_provider(&tz, dis(a.dis), pv));
                let s = okk!(z.to_string_with_provider(pv));
                r(ZonedDateTime::from_str_with_provider(&s, dis(a.dis), offopt(a.offopt), pv))
            })
        }
        99 => {
            let d = okk!(duration_from_dur(&a.dur1));
            let x = okk!(d1.add(&d, None));
            let back = okk!(d1.until(&x, some!(settings(a))));
            r(d1.add(&back, ov_opt(a.overflow)))
        }
        100 => {
            let p = okk!(PlainDateTime::from_date_and_time(d1, t1));
            let rr = okk!(p.round(some!(ropts(a))));
            r(rr.until(&p, some!(settings(a))))
        }
        101 => {
            let i = okk!(Instant::try_new(a.inst1));
            let rr = okk!(i.round(some!(ropts(a))));
            r(rr.since(&i, some!(settings(a))))
        }
        102 => {
            let x = okk!(duration_from_dur(&a.dur1));
            let p = TableProvider::utc_only();
            let rr = okk!(x.round_with_provider(some!(ropts(a)), Some(RelativeTo::PlainDate(d1.clone())), &p));
            first_err(vec![r(rr.total_with_provider(unit_req(a.largest), Some(RelativeTo::PlainDate(d2.clone())), &p)), r(d1.add(&rr, None))])
        }
        // ---- strings printed by the crate parse back without trouble
        103 => {
            let s = d1.to_ixdtf_string(dcal(a.display));
            first_err(vec![r(PlainDate::from_str(&s)), r(PlainYearMonth::from_str(&s)), r(PlainMonthDay::from_str(&s)), r(Calendar::from_str(&s)), r(TimeZone::try_from_str(&s))])
        }
        104 => {
            let d = okk!(duration_from_dur(&a.dur1));
            let s = okk!(d.as_temporal_string(sopts(a)));
            r(Duration::from_str(&s))
        }
        // ---- capi (the Rust-level ffi functions), a sample with raw arguments; the complete set runs in C19
        105 => {
            use temporal_capi::plain_date::ffi as fd;
            let ccal = temporal_capi::calendar::ffi::Calendar(temporal_rs::Calendar::default());
            let x = fd::PlainDate::try_create(a.y, a.mo, a.d, &ccal);
            match x {
                Ok(p) => {
                    let _ = (p.iso_year(), p.iso_month(), p.iso_day(), p.is_valid());
                    R::Ok
                }
                Err(e) => R::Err(capi_kind(e.kind), String::new()),
            }
        }
        106 => {
            use temporal_capi::instant::ffi as fi;
            match fi::Instant::try_new(fi::I128Nanoseconds { high: (a.raw_ns >> 64) as i64, low: a.raw_ns as u64 }) {
                Ok(i) => {
                    let _ = (i.epoch_milliseconds(), i.epoch_nanoseconds());
                    R::Ok
                }
                Err(e) => R::Err(capi_kind(e.kind), String::new()),
            }
        }
        107 => {
            use temporal_capi::duration::ffi as fdur;
            match fdur::Duration::create(a.f[0], a.f[1], a.f[2], a.f[3], a.f[4], a.f[5], a.f[6], a.f[7], a.f[8], a.f[9]) {
                Ok(d) => {
                    let _ = (d.years(), d.nanoseconds(), d.sign(), d.is_zero());
                    R::Ok
                }
                Err(e) => R::Err(capi_kind(e.kind), String::new()),
            }
        }
        // ---- more option combinations on the cheap paths
        108 => r(ResolvedOptionsProbe::probe(a)),
        109 => {
            // PlainDate.until across the whole range with every option
            let lo = okk!(PlainDate::try_new(-271821, 4, 19, Calendar::default()));
            let hi = okk!(PlainDate::try_new(275760, 9, 13, Calendar::default()));
            first_err(vec![r(lo.until(&hi, some!(settings(a)))), r(hi.since(&lo, some!(settings(a)))), r(lo.until(&d1, some!(settings(a)))), r(d1.until(&hi, some!(settings(a))))])
        }
        110 => {
            let lo = okk!(PlainDateTime::try_new(-271821, 4, 19, 0, 0, 0, 0, 0, 1, Calendar::default()));
            let hi = okk!(PlainDateTime::try_new(275760, 9, 13, 23, 59, 59, 999, 999, 999, Calendar::default()));
            first_err(vec![r(lo.until(&hi, some!(settings(a)))), r(hi.since(&lo, some!(settings(a)))), r(lo.round(some!(ropts(a)))), r(hi.round(some!(ropts(a)))), r(hi.to_ixdtf_string(sopts(a), DisplayCalendar::Auto))])
        }
        111 => {
            let lo = okk!(Instant::try_new(-MAX_INSTANT));
            let hi = okk!(Instant::try_new(MAX_INSTANT));
            let p = TableProvider::utc_only();
            first_err(vec![r(lo.until(&hi, some!(settings(a)))), r(hi.since(&lo, some!(settings(a)))), r(lo.round(some!(ropts(a)))), r(hi.round(some!(ropts(a)))), r(hi.to_ixdtf_string_with_provider(None, sopts(a), &p)), r(lo.to_ixdtf_string_with_provider(None, sopts(a), &p))])
        }
        112 => {
            // zoned values at the limits in every kind of zone
            prov!(p => {
                let lo = okk!(ZonedDateTime::try_new(-MAX_INSTANT + (a.tod1 % 1000), Calendar::default(), tz.clone()));
                let hi = okk!(ZonedDateTime::try_new(MAX_INSTANT - (a.tod2 % 1000), Calendar::default(), tz.clone()));
                first_err(vec![
                    r(lo.year_with_provider(p)), r(hi.year_with_provider(p)), r(lo.start_of_day_with_provider(p)), r(hi.start_of_day_with_provider(p)), r(lo.hours_in_day_with_provider(p)),
                    r(hi.hours_in_day_with_provider(p)), r(lo.to_string_with_provider(p)), r(hi.to_string_with_provider(p)), r(lo.until_with_provider(&hi, some!(settings(a)), p)),
                    r(hi.with_plain_time_and_provider(t1, p)), r(lo.with_plain_time_and_provider(t1, p)),
                ])
            })
        }
        113 => {
            // every real zone at instants after 2037 (rule-based footer) and far in the past
            let f = FS.with(|f| *f);
            let name = match &a.zone {
                ZoneArg::Named(n) => n.clone(),
                _ => "America/New_York".to_string(),
            };
            let z = okk!(ZonedDateTime::try_new(a.inst1, Calendar::default(), TimeZone::IanaIdentifier(name)));
            first_err(vec![r(z.hour_with_provider(f)), r(z.start_of_day_with_provider(f)), r(z.hours_in_day_with_provider(f)), r(duration_from_dur(&a.dur1).and_then(|d| z.add_with_provider(&d, None, f))), r(z.to_string_with_provider(f))])
        }
        114 => {
            let f = FS.with(|f| *f);
            let name = match &a.zone {
                ZoneArg::Named(n) => n.clone(),
                _ => "Europe/London".to_string(),
            };
            let p = okk!(PlainDateTime::from_date_and_time(d1.clone(), t1));
            let tzn = TimeZone::IanaIdentifier(name);
            first_err(vec![r(p.to_zoned_date_time_with_provider(&tzn, dis(a.dis), f)), r(d1.to_zoned_date_time_with_provider(tzn.clone(), None, f))])
        }
        115 => {
            let t = okk!(PlainTime::try_new(23, 59, 59, 999, 999, 999));
            first_err(vec![r(t.round(unit_req(a.smallest), Some(a.inc_f), mode_opt(a.mode))), r(t.to_ixdtf_string(sopts(a))), r(t.until(&t1, some!(settings(a))))])
        }
        116 => {
            let ym = okk!(PlainYearMonth::new_with_overflow(-271821, 4, None, Calendar::default(), ArithmeticOverflow::Reject));
            let ym2 = okk!(PlainYearMonth::new_with_overflow(275760, 9, None, Calendar::default(), ArithmeticOverflow::Reject));
            first_err(vec![r(ym.until(&ym2, some!(settings(a)))), r(ym2.since(&ym, some!(settings(a)))), r(duration_from_dur(&a.dur1).and_then(|d| ym.add(&d, ov_req(a.overflow)))), r(duration_from_dur(&a.dur1).and_then(|d| ym2.subtract(&d, ov_req(a.overflow)))), r(ym.to_plain_date()), r(ym2.to_plain_date())])
        }
        117 => {
            // `Default::default()` of a public value type is a value like any other: every getter, printer and a few
            // operations on it (optionally moved into the case's calendar)
            let d = if a.mask & 1 != 0 { okk!(PlainDate::default().with_calendar(c1)) } else { PlainDate::default() };
            let p = PlainDateTime::default();
            let ym = PlainYearMonth::default();
            let md = PlainMonthDay::default();
            let _ = (d.year(), d.month(), d.month_code(), d.day(), d.day_of_week(), d.day_of_year(), d.days_in_month(), d.days_in_year(), d.months_in_year(), d.in_leap_year(), d.era(), d.era_year());
            let _ = (d.week_of_year(), d.year_of_week(), d.days_in_week(), d.to_ixdtf_string(dcal(a.display)), d.to_string());
            let _ = (p.year(), p.month(), p.month_code(), p.day(), p.day_of_week(), p.day_of_year(), p.days_in_month(), p.days_in_year(), p.months_in_year(), p.in_leap_year(), p.era(), p.era_year(), p.hour(), p.nanosecond());
            let _ = (p.week_of_year(), p.year_of_week(), p.days_in_week(), p.to_string());
            let _ = (ym.iso_year(), ym.iso_month(), ym.padded_iso_year_string(), ym.era(), ym.era_year(), ym.year(), ym.month(), ym.month_code(), ym.days_in_year(), ym.days_in_month(), ym.months_in_year(), ym.in_leap_year(), ym.calendar_id());
            let _ = (ym.to_ixdtf_string(dcal(a.display)), ym.to_string(), md.iso_day(), md.iso_month(), md.iso_year(), md.calendar_id(), md.month_code(), md.to_ixdtf_string(dcal(a.display)), md.to_string());
            let _ = (PlainTime::default().to_ixdtf_string(sopts(a)), Duration::default().to_string(), Calendar::default().identifier(), TimeZone::default().identifier());
            first_err(vec![
                r(duration_from_dur(&a.dur1).and_then(|x| d.add(&x, ov_opt(a.overflow)))),
                r(d.until(&d1, some!(settings(a)))),
                r(d1.since(&d, some!(settings(a)))),
                r(d.to_plain_year_month()),
                r(d.to_plain_month_day()),
                r(d.to_plain_date_time(Some(t1))),
                r(p.round(some!(ropts(a)))),
                r(duration_from_dur(&a.dur1).and_then(|x| p.add(&x, ov_opt(a.overflow)))),
                r(duration_from_dur(&a.dur1).and_then(|x| ym.add(&x, ov_req(a.overflow)))),
                r(ym.to_plain_date()),
                r(md.to_plain_date()),
            ])
        }
        118 => {
            // the `From` / `TryFrom` conversions between the public types, and what their results can then be used for
            let d = okk!(d1.with_calendar(c1));
            let p = PlainDateTime::from(d.clone());
            let _ = (p.year(), p.month_code(), p.day(), p.day_of_week(), p.hour(), p.to_string(), p.to_ixdtf_string(sopts(a), dcal(a.display)).is_ok());
            let back = PlainDate::from(p.clone());
            let _ = (back.to_string(), PlainTime::from(p.clone()).to_ixdtf_string(sopts(a)).is_ok());
            let _ = (Calendar::from(d.clone()).identifier(), Calendar::from(p.clone()).identifier());
            if let Ok(z) = ZonedDateTime::try_new(a.inst1, Calendar::default(), tz.clone()) {
                let _ = (TimeZone::from(&z).identifier(), Calendar::from(z).identifier());
            }
            let _ = (temporal_rs::Sign::from(a.h as i8), temporal_rs::time::EpochNanoseconds::try_from(a.inc_f).is_ok(), temporal_rs::time::EpochNanoseconds::try_from(a.raw_ns as u128).is_ok());
            if let Ok(e) = temporal_rs::time::EpochNanoseconds::try_from(a.raw_ns) {
                let i = Instant::from(e);
                let _ = (i.epoch_milliseconds(), i.as_i128());
            }
            let from_parts = match (TimeDuration::new(ff(a.f[4]), ff(a.f[5]), ff(a.f[6]), ff(a.f[7]), ff(a.f[8]), ff(a.f[9])), DateDuration::new(ff(a.f[0]), ff(a.f[1]), ff(a.f[2]), ff(a.f[3]))) {
                (Ok(t), Ok(dd)) => {
                    let (x, y) = (Duration::from(t), Duration::from(dd));
                    let _ = (x.to_string(), y.to_string(), x.sign(), y.sign());
                    first_err(vec![r(x.add(&y)), r(d1.add(&y, None)), r(t1.add(&x))])
                }
                _ => R::Ok,
            };
            first_err(vec![
                match from_parts {
                    R::Ok => r(Ok::<(), TemporalError>(())),
                    other => return other,
                },
                r(duration_from_dur(&a.dur1).and_then(|x| p.add(&x, ov_opt(a.overflow)))),
                r(p.round(some!(ropts(a)))),
                r(p.until(&p, some!(settings(a)))),
                r(p.with_time(t1)),
            ])
        }
        _ => {
            // Display impls
            let p = okk!(PlainDateTime::from_date_and_time(okk!(d1.with_calendar(c1)), t1));
            let ym = okk!(d1.to_plain_year_month());
            let md = okk!(d1.to_plain_month_day());
            let _ = (p.to_string(), ym.to_string(), md.to_string(), d1.to_string());
            if let Ok(d) = duration_from_dur(&a.dur1) {
                let _ = d.to_string();
            }
            R::Ok
        }
    }
}

fn capi_kind(k: temporal_capi::error::ffi::ErrorKind) -> ErrorKind {
    use temporal_capi::error::ffi::ErrorKind as K;
    match k {
        K::Generic => ErrorKind::Generic,
        K::Type => ErrorKind::Type,
        K::Range => ErrorKind::Range,
        K::Syntax => ErrorKind::Syntax,
        K::Assert => ErrorKind::Assert,
    }
}

/// helper so that options validation alone is also an op
struct ResolvedOptionsProbe;
impl ResolvedOptionsProbe {
    fn probe(a: &Args) -> TemporalResult<()> {
        let o = sopts(a);
        let t = plain_time(a.tod1)?;
        let _ = t.to_ixdtf_string(o)?;
        Ok(())
    }
}

pub struct Sub;
impl SubCheck for Sub {
    type Case = Case;
    fn name(&self) -> &'static str {
        "ops"
    }
    fn eval(&self, c: &Case) -> Outcome {
        let mut o = Outcome::pass().class(OP_CLASS[(c.op as usize).min(OP_CLASS.len() - 1)]);
        let a = &c.a;
        // non-trivial: at least one boundary-class value or a non-default option
        let boundary = a.y.unsigned_abs() >= 271_000 || a.f.iter().any(|v| v.abs() >= 2147483648.0) || a.inc > 1 || a.largest != 0 || a.smallest != 0 || a.mode != 0 || a.day1 <= MIN_DAY + 2 || a.day1 >= MAX_DAY - 2 || a.inst1.abs() >= MAX_INSTANT - 86_400_000_000_000 || !matches!(a.zone, ZoneArg::Fixed(0)) || a.cal != 0;
        o = o.nontrivial(boundary);
        match run_op(c) {
            R::Ok => o = o.class("result:Ok"),
            R::Skip => {
                o = o.class("result:not-applicable");
                o.nontrivial = false;
            }
            R::Err(ErrorKind::Assert, m) => o = o.fail(format!("C03/ops/{}/assert-error", OP_CLASS[(c.op as usize).min(OP_CLASS.len() - 1)]), "Type/Range/Syntax/Generic error or a value", format!("Err(Assert:{m})")),
            R::Err(..) => o = o.class("result:Err"),
        }
        o
    }
}

const OP_CLASS: [&str; 120] = [
    "PlainDate::new", "PlainDate::try_new", "PlainDate::new_with_overflow", "PlainDate::from_partial", "PlainDate::with", "PlainDate::add(raw)", "PlainDate::subtract(raw)", "PlainDate::add",
    "PlainDate::until", "PlainDate::since", "PlainDate::getters", "PlainDate::to_*", "PlainDate::to_string", "PlainDate::to_zoned", "PlainDate::from_str", "PlainDate::non-iso-arith",
    "PlainDateTime::new", "PlainDateTime::try_new", "PlainDateTime::new_with_overflow", "PlainDateTime::from_date_and_time", "PlainDateTime::from_partial", "PlainDateTime::with",
    "PlainDateTime::with_*", "PlainDateTime::add(raw)", "PlainDateTime::subtract", "PlainDateTime::until/since", "PlainDateTime::round", "PlainDateTime::to_zoned", "PlainDateTime::to_string",
    "PlainDateTime::from_str", "PlainDateTime::getters", "PlainTime::new", "PlainTime::try_new", "PlainTime::new_with_overflow", "PlainTime::from_partial", "PlainTime::with", "PlainTime::add(raw)",
    "PlainTime::subtract", "PlainTime::until/since", "PlainTime::round", "PlainTime::to_string", "PlainTime::from_str", "PlainYearMonth::new_with_overflow", "PlainYearMonth::from_partial",
    "PlainYearMonth::with", "PlainYearMonth::add/subtract", "PlainYearMonth::until/since", "PlainYearMonth::getters", "PlainYearMonth::from_str", "PlainMonthDay::new_with_overflow",
    "PlainMonthDay::misc", "PlainMonthDay::from_str", "Instant::try_new", "Instant::from_epoch_milliseconds", "Instant::add/subtract", "Instant::until/since", "Instant::round", "Instant::to_string",
    "Instant::from_str", "Duration::new", "Duration::from_partial_duration", "Duration::parts", "Duration::add/subtract", "Duration::round", "Duration::total", "Duration::compare",
    "Duration::unvalidated", "Duration::as_temporal_string", "Duration::from_str", "ZonedDateTime::try_new", "ZonedDateTime::from_partial", "ZonedDateTime::from_str", "ZonedDateTime::getters",
    "ZonedDateTime::calendar-getters", "ZonedDateTime::add(raw)", "ZonedDateTime::subtract", "ZonedDateTime::until", "ZonedDateTime::since", "ZonedDateTime::start_of_day",
    "ZonedDateTime::hours_in_day", "ZonedDateTime::with_plain_time", "ZonedDateTime::to_plain_*", "ZonedDateTime::to_string", "ZonedDateTime::transition", "ZonedDateTime::with_*",
    "ZonedDateTime::chain", "Now::with_system_info", "Calendar::from_str", "Calendar::from_utf8", "MonthCode::parse", "TimeZone::parse", "UtcOffset::parse", "enums::from_str",
    "RelativeTo::from_str", "options::helpers", "FsTzdbProvider::raw", "Calendar::*_from_partial", "Calendar::misc", "chain:zoned-string", "chain:date-add-until-add", "chain:datetime-round-until",
    "chain:instant-round-since", "chain:duration-round-total", "chain:date-string-reparse", "chain:duration-string-reparse", "capi::PlainDate", "capi::Instant", "capi::Duration", "options::to_string",
    "limits:PlainDate", "limits:PlainDateTime", "limits:Instant", "limits:ZonedDateTime", "real-zones:zoned", "real-zones:wall", "limits:PlainTime", "limits:PlainYearMonth", "Default::default()", "From/TryFrom", "Display",
];

// ------------------------------------------------------------------------------------------
// generators

pub fn iana_names() -> &'static Vec<String> {
    static N: OnceLock<Vec<String>> = OnceLock::new();
    N.get_or_init(|| {
        let mut v = vec![];
        if let Ok(t) = std::fs::read_to_string("/usr/share/zoneinfo/tzdata.zi") {
            for l in t.lines() {
                let mut it = l.split_whitespace();
                match it.next() {
                    Some("Z") => {
                        if let Some(n) = it.next() {
                            v.push(n.to_string());
                        }
                    }
                    Some("L") => {
                        if let Some(n) = it.nth(1) {
                            v.push(n.to_string());
                        }
                    }
                    _ => {}
                }
            }
        }
        if v.is_empty() {
            v = vec!["UTC".into(), "America/New_York".into(), "Europe/London".into(), "Pacific/Apia".into(), "Australia/Lord_Howe".into()];
        }
        v.sort();
        v
    })
}

fn any_i32() -> BoxedStrategy<i32> {
    prop_oneof![
        3 => -271_825i32..=275_765,
        2 => (-3i32..=3).prop_map(|k| -271_821 + k),
        2 => (-3i32..=3).prop_map(|k| 275_760 + k),
        2 => -10_000i32..=10_000,
        1 => any::<i32>(),
        1 => proptest::sample::select(vec![i32::MIN, i32::MIN + 1, i32::MAX, i32::MAX - 1, 0, -1, 1]),
    ]
    .boxed()
}
fn any_u8() -> BoxedStrategy<u8> {
    prop_oneof![3 => any::<u8>(), 3 => proptest::sample::select(vec![0u8, 1, 2, 11, 12, 13, 23, 24, 28, 29, 30, 31, 32, 59, 60, 61, 255]), 3 => 1u8..=12].boxed()
}
fn any_u16() -> BoxedStrategy<u16> {
    prop_oneof![3 => 0u16..=999, 2 => proptest::sample::select(vec![0u16, 1, 999, 1000, 1001, 65535]), 1 => any::<u16>()].boxed()
}
fn raw_f64() -> BoxedStrategy<f64> {
    prop_oneof![
        6 => Just(0.0f64),
        4 => (-50i64..=50).prop_map(|v| v as f64),
        2 => (-1_000_000i64..=1_000_000).prop_map(|v| v as f64),
        1 => proptest::sample::select(vec![2147483647.0f64, 2147483648.0, 2147483649.0, 4294967295.0, 4294967296.0, 9007199254740991.0, 9007199254740992.0, 9.007199254740992e18, 9.007199254740992e24, 1e300, f64::MAX, f64::MIN_POSITIVE, 0.5, 1.5, -0.0]),
        1 => (any::<bool>(), 0u32..=1000).prop_map(|(n, e)| if n { -(2f64.powi(e as i32)) } else { 2f64.powi(e as i32) }),
        1 => any::<f64>().prop_filter("finite", |v| v.is_finite()),
    ]
    .boxed()
}
fn raw_i128() -> BoxedStrategy<i128> {
    prop_oneof![
        4 => gen::instant_ns(),
        2 => (-3i128..=3).prop_map(|k| MAX_INSTANT + k),
        2 => (-3i128..=3).prop_map(|k| -MAX_INSTANT + k),
        1 => any::<i128>(),
        1 => proptest::sample::select(vec![i128::MIN, i128::MAX, i64::MAX as i128, i64::MIN as i128, (1i128 << 64), -(1i128 << 64), (1i128 << 100)]),
    ]
    .boxed()
}
fn text() -> BoxedStrategy<String> {
    let templates = vec![
        "2020-01-01", "2020-01-01T00:00", "2020-01-01T12:30:45.123456789", "2020-01-01T00:00Z", "2020-01-01T00:00+01:00", "2020-01-01T00:00+01:00[Europe/Paris]", "2020-01-01T00:00[UTC]",
        "2020-01-01T00:00Z[America/New_York]", "2020-01-01[u-ca=japanese]", "2020-01-01T00:00[!u-ca=iso8601]", "-271821-04-19", "-271821-04-20T00:00Z", "+275760-09-13T00:00Z", "+275760-09-13T23:59:59.999999999",
        "2020-01", "202001", "01-01", "--01-01", "12:30", "T12:30", "123045", "PT1H", "P1Y2M3W4DT5H6M7.000000008S", "-P1D", "PT0.000000001S", "P4294967295Y", "PT9007199254740991S", "PT2562047788015215H",
        "+01:00", "-23:59", "+00:00:01", "Z", "UTC", "America/New_York", "Etc/GMT+12", "M01", "M13", "M05L", "iso8601", "japanese", "hebrew", "islamic-umalqura", "2017-11-05T01:30[America/New_York]",
        "2011-12-30T12:00[Pacific/Apia]", "1970-01-01T00:00:60Z", "2020-02-30", "0000-01-01", "-000000-01-01", "2020-01-01T24:00", "2020-W01", "9999-12-31T23:59:59.9999999999Z",
        "+275760-09-14T00:00Z", "2038-01-19T03:14:08[America/New_York]", "2500-07-01T00:00[Europe/London]", "1800-01-01T00:00[Asia/Kolkata]", "year", "halfExpand", "constrain", "",
    ];
    prop_oneof![
        5 => proptest::sample::select(templates.clone()).prop_map(String::from),
        4 => (proptest::sample::select(templates.clone()), any::<usize>(), any::<u8>(), 0u8..4).prop_map(|(t, pos, ch, k)| {
            let mut b: Vec<u8> = t.as_bytes().to_vec();
            let c = match ch % 6 { 0 => b'0' + ch % 10, 1 => b"+-:.,TZ[]!=/P"[(ch / 6) as usize % 13], 2 => b'a' + ch % 26, 3 => b'A' + ch % 26, 4 => ch, _ => b' ' };
            if b.is_empty() { return String::from_utf8_lossy(&[c]).into_owned(); }
            let p = pos % b.len();
            match k { 0 => b[p] = c, 1 => b.insert(p, c), 2 => { b.remove(p); } _ => { let q = (p + 1) % b.len(); b.swap(p, q); } }
            String::from_utf8_lossy(&b).into_owned()
        }),
        1 => (proptest::sample::select(templates.clone()), proptest::sample::select(templates)).prop_map(|(a, b)| format!("{}{}", &a[..a.len() / 2], &b[b.len() / 2..])),
        1 => ".{0,24}",
        // Unicode look-alikes: one ASCII digit / sign / separator / letter of a template replaced by a non-ASCII
        // character of the same Unicode class (digits of other scripts, full-width forms, U+2212, the Kelvin sign..):
        // code that validates with `char::is_numeric` / `is_alphabetic` / `to_lowercase` and then assumes ASCII
        2 => (proptest::sample::select(templates_for_confusables()), any::<usize>(), any::<u8>()).prop_map(|(t, pos, pick)| {
            let chars: Vec<char> = t.chars().collect();
            if chars.is_empty() {
                return "\u{ff10}".to_string();
            }
            // find a position (cyclically from `pos`) whose character has a look-alike
            for k in 0..chars.len() {
                let i = (pos % chars.len() + k) % chars.len();
                let c = chars[i];
                let alt: &[char] = match c {
                    '0'..='9' => &['\u{ff10}', '\u{0660}', '\u{0966}', '\u{00b2}', '\u{2460}', '\u{00bd}', '\u{1d7ce}', '\u{2160}'],
                    '+' => &['\u{ff0b}', '\u{207a}'],
                    '-' => &['\u{2212}', '\u{2010}', '\u{ff0d}'],
                    ':' => &['\u{ff1a}', '\u{2236}'],
                    '.' => &['\u{ff0e}', '\u{3002}'],
                    'K' | 'k' => &['\u{212a}'],
                    'T' => &['\u{ff34}', '\u{03a4}'],
                    'Z' => &['\u{ff3a}', '\u{0396}'],
                    'P' => &['\u{ff30}', '\u{03a1}'],
                    'M' => &['\u{ff2d}', '\u{039c}'],
                    'S' | 's' => &['\u{017f}'],
                    'A'..='Z' | 'a'..='z' => &['\u{00e9}', '\u{0131}', '\u{0130}'],
                    _ => continue,
                };
                let mut out: Vec<char> = chars.clone();
                // a digit from another script keeps the digit's value where such a character exists
                out[i] = match (c, alt[pick as usize % alt.len()]) {
                    (d @ '0'..='9', base @ ('\u{ff10}' | '\u{0660}' | '\u{0966}' | '\u{1d7ce}')) => char::from_u32(base as u32 + (d as u32 - '0' as u32)).unwrap_or(base),
                    (_, a) => a,
                };
                return out.into_iter().collect();
            }
            t.to_string()
        }),
    ]
    .boxed()
}
fn templates_for_confusables() -> Vec<&'static str> {
    vec![
        "+05:30", "-08:00", "+01:30:15.5", "+00", "-0130", "2020-01-01", "2020-01-01T12:30:45.123456789", "2020-01-01T00:00Z", "2020-01-01T00:00+01:00[Europe/Paris]", "2020-01-01[u-ca=japanese]",
        "12:30", "T123045", "PT1H30M", "P1Y2M3W4DT5H6M7.5S", "-P1D", "2020-01", "--01-01", "01-01", "M05L", "M12", "Asia/Kolkata", "America/New_York", "Europe/Kyiv", "Etc/GMT+5", "UTC", "iso8601",
        "islamic-umalqura", "2020-01-01T00:00+01:00[+01:00]", "1970-01-01T00:00:60Z",
    ]
}
fn zone_arg() -> BoxedStrategy<ZoneArg> {
    let names = iana_names().clone();
    let shaped = shaped_zones();
    prop_oneof![
        2 => (-1439i32..=1439).prop_map(ZoneArg::Fixed),
        1 => Just(ZoneArg::Fixed(0)),
        3 => syn_zone().prop_map(ZoneArg::Table),
        2 => proptest::sample::select(shaped).prop_map(ZoneArg::Table),
        4 => proptest::sample::select(names).prop_map(ZoneArg::Named),
        1 => proptest::sample::select(vec!["America/New_York", "Pacific/Apia", "Australia/Lord_Howe", "Europe/Dublin", "Africa/Casablanca", "Antarctica/Troll", "Asia/Kathmandu", "Pacific/Kiritimati", "Africa/Monrovia", "Not/AZone", "", "..", "../../etc/passwd", "america/new_york", "Etc"]).prop_map(|s| ZoneArg::Named(s.to_string())),
    ]
    .boxed()
}

pub fn args() -> BoxedStrategy<Args> {
    let nums = (any_i32(), any_u8(), any_u8(), any_u8(), any_u8(), any_u8(), any_u16(), any_u16(), any_u16(), any_i32());
    let recv = (gen::day(), gen::day(), gen::ns_of_day(), gen::ns_of_day(), gen::instant_ns(), gen::instant_ns(), raw_i128(), prop_oneof![any::<i64>(), (-8_640_000_000_000_003i64..=8_640_000_000_000_003)]);
    let durs = (prop::array::uniform10(raw_f64()), gen::valid_dur(600_000, true), gen::valid_dur(40, true));
    let opts = (0u8..12, 0u8..12, prop_oneof![4 => Just(0u32), 3 => 1u32..=60, 2 => proptest::sample::select(vec![1u32, 2, 999, 1000, 86400, 1_000_000_000, 1_000_000_001, u32::MAX]), 1 => any::<u32>()], raw_f64(), 0u8..10, 0u8..3, 0u8..4, 0u8..4, any::<u8>(), 0u8..14);
    let misc = (0u8..20, 0u8..20, zone_arg(), text(), any::<u16>(), proptest::sample::select(vec!["", "ce", "bce", "reiwa", "heisei", "meiji", "showa", "taisho", "roc", "ah", "am", "be", "incar", "mundi", "default", "gregory", "japanese", "zzzzzzzzzzzzzzzzzzz"]).prop_map(String::from), proptest::sample::select(vec!["M01", "M02", "M06", "M12", "M13", "M00", "M05L", "M12L", "M99", "m01", "", "M1", "M001"]).prop_map(String::from));
    (nums, recv, durs, opts, misc)
        .prop_map(|(n, rc, d, o, m)| Args {
            y: n.0, mo: n.1, d: n.2, h: n.3, mi: n.4, s: n.5, ms: n.6, us: n.7, ns: n.8, y2: n.9,
            day1: rc.0, day2: rc.1, tod1: rc.2, tod2: rc.3, inst1: rc.4, inst2: rc.5, raw_ns: rc.6, raw_ms: rc.7,
            f: d.0, dur1: d.1, dur2: d.2,
            largest: o.0, smallest: o.1, inc: o.2, inc_f: o.3, mode: o.4, overflow: o.5, dis: o.6, offopt: o.7, display: o.8, precision: o.9,
            cal: m.0, cal2: m.1, zone: m.2, text: m.3, mask: m.4, era: m.5, mcode: m.6,
        })
        .boxed()
}

thread_local! {
    static ORACLES: std::cell::RefCell<std::collections::HashMap<String, Option<std::rc::Rc<crate::props::c15::tzif::Oracle>>>> = Default::default();
}
fn oracle_of(name: &str) -> Option<std::rc::Rc<crate::props::c15::tzif::Oracle>> {
    ORACLES.with(|m| {
        m.borrow_mut()
            .entry(name.to_string())
            .or_insert_with(|| {
                if name.is_empty() || name.contains("..") {
                    return None;
                }
                crate::props::c15::tzif::Oracle::read("/usr/share/zoneinfo", name).ok().map(std::rc::Rc::new)
            })
            .clone()
    })
}

/// One case in three with a rule-based zone is moved onto one of the zone's transitions: the receiver instant within
/// a day of it (or exactly on it, +-1 ns) and the receiver date = the local day on which it happens. For real zones
/// the transition is a listed one or a POSIX-footer transition of a year up to 275000 (log-uniform), so that the
/// day-of-transition paths (skipped / repeated midnight, start of day, hours in day) are also reached in the far
/// future, where nanosecond counts no longer fit 64 bits.
fn align_to_transition(mut c: Case, pick: u8, yr: u32, place: u8, dsec: i64) -> Case {
    if pick % 3 != 0 {
        return c;
    }
    // (utc second of the transition, offset before it)
    let ev: Option<(i64, i64)> = match &c.a.zone {
        ZoneArg::Table(z) if !z.trans.is_empty() => {
            let i = yr as usize % z.trans.len();
            Some((z.trans[i].0, if i == 0 { z.initial } else { z.trans[i - 1].1 }))
        }
        ZoneArg::Named(name) => oracle_of(name).and_then(|o| {
            let listed = &o.file.times;
            if pick % 2 == 0 && !listed.is_empty() {
                let i = yr as usize % listed.len();
                let before = if i == 0 { o.file.types[0].utoff } else { o.file.types[o.file.idx[i - 1]].utoff };
                Some((listed[i], before))
            } else {
                // log-uniform year in 2038..=275000
                let span = (275_000f64 / 2038f64).ln();
                let y = (2038f64 * ((yr as f64 / u32::MAX as f64) * span).exp()) as i64;
                let evs = o.footer_events(y.clamp(2038, 275_000));
                if evs.is_empty() {
                    None
                } else {
                    let e = evs[place as usize % evs.len()];
                    Some((e.0, e.1))
                }
            }
        }),
        _ => None,
    };
    let Some((t, before)) = ev else { return c };
    let delta: i128 = match place % 6 {
        0 => 0,
        1 => -1,
        2 => 1,
        3 => dsec as i128 * 1_000_000_000 / 24,
        _ => dsec as i128 * 1_000_000_000,
    };
    let max = 8_640_000_000_000_000_000_000i128;
    c.a.inst1 = (t as i128 * 1_000_000_000 + delta).clamp(-max, max);
    let local_day = (t + before).div_euclid(86_400);
    c.a.day1 = (local_day + (place as i64 / 6) % 2).clamp(MIN_DAY, MAX_DAY);
    c
}

pub fn case() -> BoxedStrategy<Case> {
    (0u16..N_OPS, args(), (any::<u8>(), any::<u32>(), any::<u8>(), -86_400i64..=86_400))
        .prop_map(|(op, a, (pick, yr, place, dsec))| align_to_transition(Case { op, a }, pick, yr, place, dsec))
        .boxed()
}

/// observational calendars take seconds per conversion far from the present (a liveness concern that is
/// reported through the watchdog): keep the structured universe inside the range where they terminate quickly
pub fn tame(mut c: Case) -> Case {
    let slow = |i: u8| matches!(CALS[i as usize % CALS.len()], "islamic" | "islamic-umalqura" | "chinese" | "dangi");
    if slow(c.a.cal) || slow(c.a.cal2) {
        let lo = to_days(-8000, 1, 1);
        let hi = to_days(8000, 1, 1);
        c.a.day1 = c.a.day1.clamp(lo, hi);
        c.a.day2 = c.a.day2.clamp(lo, hi);
        c.a.y = c.a.y.clamp(-8000, 8000);
        c.a.y2 = c.a.y2.clamp(-8000, 8000);
        let span = hi as i128 * NS_DAY;
        c.a.inst1 = c.a.inst1.clamp(-span, span);
        c.a.inst2 = c.a.inst2.clamp(-span, span);
        c.a.raw_ns = c.a.raw_ns.clamp(-span, span);
    }
    c
}

pub fn run(ctx: &mut Ctx) {
    ctx.rule = format!("structured op universe: {} operations covering the constructors, from_partial/with, arithmetic, differences, rounding, conversions, getters (every calendar), to-string/from-string of every public type, Duration round/total/compare with every kind of relativeTo, ZonedDateTime over fixed offsets, synthetic rule tables, shaped tables and every real IANA zone of the bundled provider (incl. instants after 2037 and garbage identifiers; one case in three with a rule-based zone sits on / within a day of one of the zone's transitions - listed ones and POSIX-footer ones up to the year 275000 - with the receiver date on the transition's local day), option helpers, identifier/enum parsers, Now::*_with_system_info, a sample of temporal_capi functions (all of them run under panic capture in C19) and multi-step chains; arguments are raw (full i32/u8/u16/i128 ranges, any finite double incl. 1e300 and non-integral values, every unit/mode/option incl. Unit::Auto in every slot, increments up to u32::MAX, strings from templates + mutations + arbitrary) and receivers are valid values biased to the limits. A case fails iff it panics (caught, signature = location), returns ErrorKind::Assert, or exceeds the 60 s watchdog (exit 2). non-trivial = at least one boundary-class value or non-default option; distinct by case hash.", N_OPS);
    ctx.assumptions = vec![
        "observational/lunisolar calendars are exercised within ISO years +-8000 here (beyond that single conversions take seconds; the far range is sampled in C16 and reported there)".into(),
        "'loops without bound' is only observable as the watchdog timeout, reported as exit 2 (inconclusive)".into(),
    ];
    enable_journal();
    let strat = || case().prop_map(tame);
    ctx.run_prop(&Sub, &strat, ctx.tier.pick(400_000, 12_000_000));
    // field records in every shape (subsets of fields, offset with and without time fields, raw values): C17's merge
    // sub-check run under this property's oracle too (its failures include panics and Assert-kind errors)
    ctx.run_prop(&crate::props::c17::MergeSub, &crate::props::c17::merge_case, ctx.tier.pick(200_000, 4_000_000));
    ctx.run_release_profile();
}

pub fn replay(ctx: &mut Ctx, sub: &str, case: &Value) -> bool {
    match sub {
        "ops" => ctx.replay_case(&Sub, case),
        "merge" => ctx.replay_case(&crate::props::c17::MergeSub, case),
        _ => false,
    }
}

#[allow(dead_code)]
fn _unused(d: Dt) -> (Dt, bool) {
    (d, date_in_range(0))
}
