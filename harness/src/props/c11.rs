//! C11 - not built yet.
use crate::run::Ctx;
use serde_json::Value;

pub fn run(_ctx: &mut Ctx) {
    eprintln!("property C11 has no check yet");
    std::process::exit(2);
}

pub fn replay(_ctx: &mut Ctx, _sub: &str, _case: &Value) -> bool {
    false
}
