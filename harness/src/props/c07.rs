//! C07 - rounding picks the neighbouring multiple prescribed by the mode.

use crate::chk;
use crate::conv::*;
use crate::gen;
use crate::refm::civil::*;
use crate::refm::dateadd::Dt;
use crate::refm::dur::{balance_time, U, UNITS};
use crate::refm::fmt::{self, Prec};
use crate::refm::round::*;
use crate::run::*;
use crate::tzp::TableProvider;
use proptest::prelude::*;
use serde::{Deserialize, Serialize};
use serde_json::Value;
use temporal_rs::error::ErrorKind;
use temporal_rs::options::ToStringRoundingOptions;
use temporal_rs::parsers::Precision;
use temporal_rs::verif_hooks as hooks;
use temporal_rs::{Instant, TimeZone, ZonedDateTime};

const DAY: i128 = NS_PER_DAY;

// ------------------------------------------------------------------------------------------
// hook sweep (exhaustive over the stated grid)

#[derive(Serialize, Deserialize, Debug, Clone)]
pub struct HookCase {
    pub float: bool,
    pub num: i128,
    pub den: i128,
    pub q: i128,
    pub mode: Mode,
}
pub struct HookSub;

fn classify(num: i128, den: i128, q: i128) -> (&'static str, bool) {
    let dq = den * q;
    let rem = num.rem_euclid(dq);
    if rem == 0 {
        ("multiple", false)
    } else if 2 * rem == dq {
        ("tie", true)
    } else if (2 * rem - dq).abs() <= 2 * den {
        ("tie+-1", true)
    } else {
        ("off-multiple", true)
    }
}

impl SubCheck for HookSub {
    type Case = HookCase;
    fn name(&self) -> &'static str {
        "hook"
    }
    fn eval(&self, c: &HookCase) -> Outcome {
        let (cl, nt) = classify(c.num, c.den, c.q);
        let mut o = Outcome::pass().class(cl).nontrivial(nt);
        if c.q % 2 == 1 {
            o = o.class("odd-increment");
        }
        if c.num < 0 {
            o = o.class("negative");
        }
        let want = round_rational(c.num, c.den, c.q, c.mode);
        let got = if c.float {
            hooks::round_f64(c.num as f64 / c.den as f64, c.q as u128, conv_mode(c.mode))
        } else {
            hooks::round_i128(c.num, c.q as u128, conv_mode(c.mode))
        };
        match got {
            Ok(g) => {
                let sig = if c.float { "C07/hook/f64/mismatch" } else { "C07/hook/i128/mismatch" };
                chk!(o, g == want, sig, want, g);
            }
            Err(e) => o = o.fail("C07/hook/error", want.to_string(), err_str(&e)),
        }
        o
    }
}
fn conv_mode(m: Mode) -> temporal_rs::options::RoundingMode {
    mode(m)
}

fn hook_cases() -> Vec<HookCase> {
    let mut v = vec![];
    let mut qs: Vec<i128> = (1..=64).collect();
    qs.extend([100, 125, 250, 500, 1000, 60_000_000_000, 3_600_000_000_000, DAY]);
    for &q in &qs {
        let xs: Vec<i128> = if q <= 1000 {
            (-3 * q - 2..=3 * q + 2).collect()
        } else {
            let mut xs = vec![];
            for k in -3..=3i128 {
                for d in [0, 1, -1, q / 2, q / 2 + 1, q / 2 - 1, -(q / 2), q / 3, 12345] {
                    xs.push(k * q + d);
                }
            }
            xs
        };
        for &x in &xs {
            for &m in MODES.iter() {
                v.push(HookCase { float: false, num: x, den: 1, q, mode: m });
            }
        }
        if q <= 64 {
            for den in [1i128, 2, 4] {
                for k in (-3 * q - 2) * den..=(3 * q + 2) * den {
                    for &m in MODES.iter() {
                        v.push(HookCase { float: true, num: k, den, q, mode: m });
                    }
                }
            }
        }
    }
    v
}

// ------------------------------------------------------------------------------------------
// public entry points

#[derive(Serialize, Deserialize, Debug, Clone, Copy, PartialEq, Eq)]
pub enum Op {
    TimeRound,
    DateTimeRound,
    InstantRound,
    TimeUntil,
    TimeSince,
    InstantUntil,
    InstantSince,
    DateTimeUntil,
    DateTimeSince,
    TimeString,
    DateTimeString,
    InstantString,
    ZonedString,
    DurationString,
}

#[derive(Serialize, Deserialize, Debug, Clone)]
pub struct PubCase {
    pub op: Op,
    /// primary value: ns of day / epoch ns; for date-times (day, ns) = (a_day, a)
    pub a: i128,
    pub a_day: i64,
    /// second operand for differences
    pub b: i128,
    pub b_day: i64,
    pub unit: U,
    pub inc: u32,
    pub mode: Mode,
    /// fractional digits for the *String ops when `digits` is Some; otherwise `unit` is smallestUnit
    pub digits: Option<u8>,
    /// fixed offset (minutes) for ZonedString
    pub offset_min: i32,
    /// ZonedString only: the zone changes its offset to `.1` minutes at epoch second `.0` (a rule zone served by the
    /// harness provider); the string is then printed *with* its offset, which must be the offset in force at the
    /// rounded instant
    #[serde(default)]
    pub shift: Option<(i64, i32)>,
}
pub struct PubSub;

fn to_string_opts(c: &PubCase) -> ToStringRoundingOptions {
    let mut o = ToStringRoundingOptions::default();
    o.rounding_mode = Some(mode(c.mode));
    match c.digits {
        Some(d) => o.precision = Precision::Digit(d),
        None => o.smallest_unit = Some(unit(c.unit)),
    }
    o
}
fn string_prec(c: &PubCase) -> Prec {
    match c.digits {
        Some(d) => Prec::Digits(d),
        None => match c.unit {
            U::Minute => Prec::Minute,
            U::Second => Prec::Digits(0),
            U::Millisecond => Prec::Digits(3),
            U::Microsecond => Prec::Digits(6),
            _ => Prec::Digits(9),
        },
    }
}

/// mode-free invariant: r is x or one of the two adjacent multiples
fn is_neighbour(x: i128, q: i128, r: i128) -> bool {
    let (lo, hi) = neighbours(x, q);
    r == lo || r == hi
}

impl SubCheck for PubSub {
    type Case = PubCase;
    fn name(&self) -> &'static str {
        "public"
    }
    fn eval(&self, c: &PubCase) -> Outcome {
        let q: i128 = match c.op {
            Op::TimeString | Op::DateTimeString | Op::InstantString | Op::ZonedString | Op::DurationString => fmt::prec_increment(string_prec(c)),
            _ => c.inc as i128 * c.unit.ns(),
        };
        let mut o = Outcome::pass();
        let opname: &'static str = match c.op {
            Op::TimeRound => "time.round",
            Op::DateTimeRound => "datetime.round",
            Op::InstantRound => "instant.round",
            Op::TimeUntil => "time.until",
            Op::TimeSince => "time.since",
            Op::InstantUntil => "instant.until",
            Op::InstantSince => "instant.since",
            Op::DateTimeUntil => "datetime.until",
            Op::DateTimeSince => "datetime.since",
            Op::TimeString => "time.string",
            Op::DateTimeString => "datetime.string",
            Op::InstantString => "instant.string",
            Op::ZonedString => "zoned.string",
            Op::DurationString => "duration.string",
        };
        o = o.class(opname);
        // the exact value being rounded
        let x: i128 = match c.op {
            Op::TimeRound | Op::DateTimeRound | Op::TimeString | Op::DateTimeString => c.a,
            Op::InstantRound | Op::InstantString => c.a,
            Op::ZonedString => c.a, // epoch ns; rounding happens on the instant
            Op::TimeUntil => c.b - c.a,
            Op::TimeSince => c.a - c.b,
            Op::InstantUntil => c.b - c.a,
            Op::InstantSince => c.a - c.b,
            Op::DateTimeUntil => (c.b_day as i128 * DAY + c.b) - (c.a_day as i128 * DAY + c.a),
            Op::DateTimeSince => (c.a_day as i128 * DAY + c.a) - (c.b_day as i128 * DAY + c.b),
            Op::DurationString => c.a,
        };
        let (cl, nt) = classify(x, 1, q);
        o = o.class(cl).nontrivial(nt);
        if q % 2 == 1 && q > 1 {
            o = o.class("odd-increment");
        }
        if x < 0 {
            o = o.class("negative");
        }
        let want = match c.op {
            // values on the epoch line round as if positive (Temporal: RoundTemporalInstant)
            Op::InstantRound | Op::InstantString | Op::ZonedString => round_as_if_positive(x, q, c.mode),
            // times of day: RoundTime rounds the quantity counted from the start of the parent unit
            // (same multiples; only the parity used by halfEven ties differs from a count from midnight)
            Op::TimeRound | Op::DateTimeRound | Op::TimeString | Op::DateTimeString => {
                let u = match c.op {
                    Op::TimeRound | Op::DateTimeRound => c.unit,
                    _ => match string_prec(c) {
                        Prec::Minute => U::Minute,
                        Prec::Digits(0) => U::Second,
                        Prec::Digits(1..=3) => U::Millisecond,
                        Prec::Digits(4..=6) => U::Microsecond,
                        _ => U::Nanosecond,
                    },
                };
                let parent = match u {
                    U::Minute => 3_600_000_000_000,
                    U::Second => 60_000_000_000,
                    U::Millisecond => 1_000_000_000,
                    U::Microsecond => 1_000_000,
                    U::Nanosecond => 1_000,
                    _ => DAY,
                };
                let base = x - x.rem_euclid(parent);
                base + round_int(x - base, q, c.mode)
            }
            _ => round_int(x, q, c.mode),
        };
        if c.op == Op::DurationString && c.digits.is_none() && c.unit == U::Minute {
            // Duration strings do not admit minute precision
            let d = duration_from_f64s(&[0., 0., 0., 0., 0., 0., 1., 0., 0., 0.]).unwrap();
            return match d.as_temporal_string(to_string_opts(c)) {
                Err(e) if e.kind() == ErrorKind::Range => o.class("duration-minute-rejected"),
                other => o.fail("C07/duration.string/minute-accepted", "RangeError", format!("{:?}", other.map_err(|e| err_str(&e)))),
            };
        }
        macro_rules! fail_kind {
            ($e:expr, $what:expr) => {
                return o.fail(format!("C07/{}/{}", opname, $what), format!("{}", want), err_str(&$e))
            };
        }
        match c.op {
            Op::TimeRound => {
                let t = plain_time(c.a).expect("valid time");
                match t.round(unit(c.unit), Some(c.inc as f64), Some(mode(c.mode))) {
                    Ok(r) => {
                        let got = time_ns(&r);
                        let w = want.rem_euclid(DAY);
                        chk!(o, got == w, format!("C07/{opname}/mismatch"), w, got);
                        chk!(o, is_neighbour(c.a, q, got) || is_neighbour(c.a, q, got + DAY), format!("C07/{opname}/not-a-neighbour"), neighbours(c.a, q), got);
                    }
                    Err(e) => fail_kind!(e, "error"),
                }
            }
            Op::DateTimeRound => {
                let dt = Dt { day: c.a_day, ns: c.a };
                let p = plain_datetime(dt).expect("valid datetime");
                let r = p.round(round_options(None, Some(unit(c.unit)), Some(c.inc), Some(mode(c.mode))));
                let carry = want.div_euclid(DAY);
                let wdt = Dt { day: c.a_day + carry as i64, ns: want.rem_euclid(DAY) };
                match r {
                    Ok(r) => {
                        if !wdt.in_range() {
                            return o.class("leaves-range").nontrivial(true).fail(format!("C07/{opname}/accepted-out-of-range"), "RangeError", format!("{:?}", dt_of(&r)));
                        }
                        chk!(o, dt_of(&r) == wdt, format!("C07/{opname}/mismatch"), wdt, dt_of(&r));
                        if carry != 0 {
                            o = o.class("carry-into-next-day");
                        }
                    }
                    Err(e) => {
                        if wdt.in_range() || e.kind() != ErrorKind::Range {
                            fail_kind!(e, "error");
                        }
                        o = o.class("leaves-range").nontrivial(true);
                    }
                }
            }
            Op::InstantRound => {
                let i = Instant::try_new(c.a).expect("valid instant");
                let r = i.round(round_options(None, Some(unit(c.unit)), Some(c.inc), Some(mode(c.mode))));
                match r {
                    Ok(r) => {
                        if !instant_in_range(want) {
                            return o.fail(format!("C07/{opname}/accepted-out-of-range"), "RangeError", r.as_i128().to_string());
                        }
                        chk!(o, r.as_i128() == want, format!("C07/{opname}/mismatch"), want, r.as_i128());
                        chk!(o, is_neighbour(c.a, q, r.as_i128()), format!("C07/{opname}/not-a-neighbour"), neighbours(c.a, q), r.as_i128());
                    }
                    Err(e) => {
                        if instant_in_range(want) || e.kind() != ErrorKind::Range {
                            fail_kind!(e, "error");
                        }
                        o = o.class("leaves-range");
                    }
                }
            }
            Op::TimeUntil | Op::TimeSince | Op::InstantUntil | Op::InstantSince | Op::DateTimeUntil | Op::DateTimeSince => {
                // largest unit: hours for times and date-times (time largest keeps everything on the exact
                // line), seconds default for instants; we always pass an explicit time largest unit >= smallest
                let largest = U::Hour.larger_of(c.unit);
                let st = diff_settings(Some(unit(largest)), Some(unit(c.unit)), Some(c.inc), Some(mode(c.mode)));
                let r = match c.op {
                    Op::TimeUntil => plain_time(c.a).unwrap().until(&plain_time(c.b).unwrap(), st),
                    Op::TimeSince => plain_time(c.a).unwrap().since(&plain_time(c.b).unwrap(), st),
                    Op::InstantUntil => Instant::try_new(c.a).unwrap().until(&Instant::try_new(c.b).unwrap(), st),
                    Op::InstantSince => Instant::try_new(c.a).unwrap().since(&Instant::try_new(c.b).unwrap(), st),
                    Op::DateTimeUntil => plain_datetime(Dt { day: c.a_day, ns: c.a }).unwrap().until(&plain_datetime(Dt { day: c.b_day, ns: c.b }).unwrap(), st),
                    _ => plain_datetime(Dt { day: c.a_day, ns: c.a }).unwrap().since(&plain_datetime(Dt { day: c.b_day, ns: c.b }).unwrap(), st),
                };
                let wd = balance_time(want, largest);
                match r {
                    Ok(d) => {
                        let got = duration_fields(&d);
                        let wf = wd.to_f64s();
                        chk!(o, fields_eq(&got, &wf), format!("C07/{opname}/mismatch"), wf, got);
                    }
                    Err(e) => {
                        // a rounded total beyond the duration limit is a RangeError
                        if crate::refm::dur::reported_valid(&wd) || e.kind() != ErrorKind::Range {
                            fail_kind!(e, "error");
                        }
                        o = o.class("leaves-range");
                    }
                }
            }
            Op::TimeString => {
                let t = plain_time(c.a).expect("valid time");
                match t.to_ixdtf_string(to_string_opts(c)) {
                    Ok(s) => {
                        let w = fmt::time(want.rem_euclid(DAY), string_prec(c));
                        chk!(o, s == w, format!("C07/{opname}/mismatch"), w, s);
                    }
                    Err(e) => fail_kind!(e, "error"),
                }
            }
            Op::DateTimeString => {
                let p = plain_datetime(Dt { day: c.a_day, ns: c.a }).expect("valid datetime");
                let carry = want.div_euclid(DAY);
                let wdt = Dt { day: c.a_day + carry as i64, ns: want.rem_euclid(DAY) };
                match p.to_ixdtf_string(to_string_opts(c), temporal_rs::options::DisplayCalendar::Never) {
                    Ok(s) => {
                        if !wdt.in_range() {
                            return o.fail(format!("C07/{opname}/accepted-out-of-range"), "RangeError", s);
                        }
                        let w = fmt::datetime(wdt.day, wdt.ns, string_prec(c));
                        chk!(o, s == w, format!("C07/{opname}/mismatch"), w, s);
                    }
                    Err(e) => {
                        if wdt.in_range() || e.kind() != ErrorKind::Range {
                            fail_kind!(e, "error");
                        }
                        o = o.class("leaves-range");
                    }
                }
            }
            Op::InstantString => {
                let i = Instant::try_new(c.a).expect("valid instant");
                let prov = TableProvider::utc_only();
                match i.to_ixdtf_string_with_provider(None, to_string_opts(c), &prov) {
                    Ok(s) => {
                        let w = format!("{}Z", fmt::datetime(want.div_euclid(DAY) as i64, want.rem_euclid(DAY), string_prec(c)));
                        chk!(o, s == w, format!("C07/{opname}/mismatch"), w, s);
                    }
                    Err(e) => {
                        if instant_in_range(want) || e.kind() != ErrorKind::Range {
                            fail_kind!(e, "error");
                        }
                    }
                }
            }
            Op::ZonedString if c.shift.is_some() => {
                let (tr_s, after_min) = c.shift.unwrap();
                let zone = crate::refm::tz::Zone { name: "Test/C07".into(), initial: c.offset_min as i64 * 60, trans: vec![(tr_s, after_min as i64 * 60)] };
                let prov = TableProvider::new(vec![zone.clone()]);
                let z = ZonedDateTime::try_new(c.a, iso(), TimeZone::IanaIdentifier("Test/C07".into())).expect("valid zoned");
                let crosses = (c.a < tr_s as i128 * 1_000_000_000) != (want < tr_s as i128 * 1_000_000_000);
                o = o.class(if crosses { "zoned.string:rounding-crosses-transition" } else { "zoned.string:rule-zone" });
                match z.to_ixdtf_string_with_provider(
                    temporal_rs::options::DisplayOffset::Auto,
                    temporal_rs::options::DisplayTimeZone::Never,
                    temporal_rs::options::DisplayCalendar::Never,
                    to_string_opts(c),
                    &prov,
                ) {
                    Ok(s) => {
                        let off_s = zone.offset_at(want);
                        let local = want + off_s as i128 * 1_000_000_000;
                        let w = format!("{}{}", fmt::datetime(local.div_euclid(DAY) as i64, local.rem_euclid(DAY), string_prec(c)), fmt::offset_minutes(off_s / 60));
                        chk!(o, s == w, format!("C07/{opname}/rule-zone/mismatch"), w, s);
                    }
                    Err(e) => {
                        if instant_in_range(want) || e.kind() != ErrorKind::Range {
                            fail_kind!(e, "error");
                        }
                    }
                }
            }
            Op::ZonedString => {
                let tz = TimeZone::try_from_identifier_str(&fmt::offset_minutes(c.offset_min as i64)).expect("offset zone");
                let z = ZonedDateTime::try_new(c.a, iso(), tz).expect("valid zoned");
                let prov = TableProvider::utc_only();
                let off_ns = c.offset_min as i128 * 60_000_000_000;
                match z.to_ixdtf_string_with_provider(
                    temporal_rs::options::DisplayOffset::Never,
                    temporal_rs::options::DisplayTimeZone::Never,
                    temporal_rs::options::DisplayCalendar::Never,
                    to_string_opts(c),
                    &prov,
                ) {
                    Ok(s) => {
                        let local = want + off_ns;
                        let w = fmt::datetime(local.div_euclid(DAY) as i64, local.rem_euclid(DAY), string_prec(c));
                        chk!(o, s == w, format!("C07/{opname}/mismatch"), w, s);
                    }
                    Err(e) => {
                        if instant_in_range(want) || e.kind() != ErrorKind::Range {
                            fail_kind!(e, "error");
                        }
                    }
                }
            }
            Op::DurationString => {
                // a pure seconds+nanoseconds duration, |a| small enough to be exact in doubles
                let s = x / 1_000_000_000;
                let n = x % 1_000_000_000;
                let mut f = [0.0; 10];
                f[6] = s as f64;
                f[9] = n as f64;
                let d = duration_from_f64s(&f).expect("valid duration");
                match d.as_temporal_string(to_string_opts(c)) {
                    Ok(st) => {
                        let wd = balance_time(want, U::Second);
                        let w = fmt::duration(&wd, string_prec(c));
                        chk!(o, st == w, format!("C07/{opname}/mismatch"), w, st);
                    }
                    Err(e) => fail_kind!(e, "error"),
                }
            }
        }
        o
    }
}

// ------------------------------------------------------------------------------------------
// generators

/// admissible increments for round/difference of a unit: proper divisors of the unit's maximum
fn incs_for(u: U) -> Vec<u32> {
    gen::divisors_below(u.max_increment().unwrap()).into_iter().map(|x| x as u32).collect()
}
/// increments admissible for Instant::round: divisors of units-per-day (inclusive), <= 1e9
fn instant_incs(u: U) -> Vec<u32> {
    let per_day = DAY / u.ns();
    let mut v = vec![];
    // divisors of per_day = 2^a 3^b 5^c
    let mut p2 = 1i128;
    while per_day % p2 == 0 {
        let mut p3 = 1i128;
        while per_day % (p2 * p3) == 0 {
            let mut p5 = 1i128;
            while per_day % (p2 * p3 * p5) == 0 {
                let d = p2 * p3 * p5;
                if d <= 1_000_000_000 {
                    v.push(d as u32);
                }
                p5 *= 5;
            }
            p3 *= 3;
        }
        p2 *= 2;
    }
    v.sort();
    v
}

/// value near a multiple of q inside [lo, hi]: multiple, +-1, tie, tie+-1, random
fn near_multiple(q: i128, lo: i128, hi: i128) -> BoxedStrategy<i128> {
    let kmin = lo.div_euclid(q);
    let kmax = hi.div_euclid(q);
    let deltas: Vec<i128> = vec![0, 1, -1, q / 2, q / 2 + 1, q / 2 - 1, (q + 1) / 2, 2, q - 1];
    prop_oneof![
        4 => (kmin..=kmax, proptest::sample::select(deltas)).prop_map(move |(k, d)| (k * q + d).clamp(lo, hi)),
        1 => (lo..=hi),
    ]
    .boxed()
}

fn time_unit() -> BoxedStrategy<U> {
    gen::unit_in(4, 9)
}

/// PlainDateTime::round cases (also used by C05)
pub fn dt_round_case() -> BoxedStrategy<PubCase> {
    let base = PubCase { op: Op::DateTimeRound, a: 0, a_day: 0, b: 0, b_day: 0, unit: U::Second, inc: 1, mode: Mode::Trunc, digits: None, offset_min: 0, shift: None };
    let unit_inc = time_unit().prop_flat_map(|u| (Just(u), proptest::sample::select(incs_for(u))));
    let dt_unit_inc = prop_oneof![4 => unit_inc, 1 => Just((U::Day, 1u32))];
    (dt_unit_inc, gen::mode(), gen::day())
        .prop_flat_map(move |((u, inc), m, day)| {
            let b = base.clone();
            near_multiple(inc as i128 * u.ns(), 0, DAY - 1)
                .prop_map(move |a| PubCase { op: Op::DateTimeRound, a, a_day: day, unit: u, inc, mode: m, ..b.clone() })
                .prop_filter("in range", |c| datetime_in_range(c.a_day, c.a))
        })
        .boxed()
}

pub fn pub_case() -> BoxedStrategy<PubCase> {
    let base = PubCase { op: Op::TimeRound, a: 0, a_day: 0, b: 0, b_day: 0, unit: U::Second, inc: 1, mode: Mode::Trunc, digits: None, offset_min: 0, shift: None };
    // (unit, inc) admissible for plain rounding / differences
    let unit_inc = time_unit().prop_flat_map(|u| (Just(u), proptest::sample::select(incs_for(u))));
    let b1 = base.clone();
    let time_round = (unit_inc.clone(), gen::mode()).prop_flat_map(move |((u, inc), m)| {
        let b = b1.clone();
        near_multiple(inc as i128 * u.ns(), 0, DAY - 1).prop_map(move |a| PubCase { op: Op::TimeRound, a, unit: u, inc, mode: m, ..b.clone() })
    });
    let dt_round = dt_round_case();
    let b3 = base.clone();
    let inst_unit_inc = time_unit().prop_flat_map(|u| (Just(u), proptest::sample::select(instant_incs(u))));
    let inst_round = (inst_unit_inc, gen::mode(), prop::bool::ANY).prop_flat_map(move |((u, inc), m, edge)| {
        let b = b3.clone();
        let q = inc as i128 * u.ns();
        let (lo, hi) = if edge { (MAX_INSTANT - 3 * q.max(1_000_000), MAX_INSTANT) } else { (-MAX_INSTANT, MAX_INSTANT) };
        prop_oneof![near_multiple(q, lo, hi), near_multiple(q, -hi, -lo), near_multiple(q, -4 * q, 4 * q)]
            .prop_map(move |a| PubCase { op: Op::InstantRound, a, unit: u, inc, mode: m, ..b.clone() })
    });
    let b4 = base.clone();
    let time_diff = (unit_inc.clone(), gen::mode(), gen::ns_of_day(), prop::bool::ANY).prop_flat_map(move |((u, inc), m, a, since)| {
        let b = b4.clone();
        let q = inc as i128 * u.ns();
        // choose the difference near a multiple, then derive b
        near_multiple(q, -(DAY - 1), DAY - 1).prop_map(move |diff| {
            let bb = (a + diff).clamp(0, DAY - 1);
            PubCase { op: if since { Op::TimeSince } else { Op::TimeUntil }, a, b: bb, unit: u, inc, mode: m, ..b.clone() }
        })
    });
    let b5 = base.clone();
    let inst_diff = (unit_inc.clone(), gen::mode(), gen::instant_ns(), prop::bool::ANY, prop::bool::ANY).prop_flat_map(move |((u, inc), m, a, since, far)| {
        let b = b5.clone();
        let q = inc as i128 * u.ns();
        let span = if far { 2 * MAX_INSTANT } else { 1000 * q.max(1_000_000_000) };
        near_multiple(q, -span, span).prop_map(move |diff| {
            let bb = (a + diff).clamp(-MAX_INSTANT, MAX_INSTANT);
            PubCase { op: if since { Op::InstantSince } else { Op::InstantUntil }, a, b: bb, unit: u, inc, mode: m, ..b.clone() }
        })
    });
    let b6 = base.clone();
    let dt_diff = (unit_inc.clone(), gen::mode(), gen::datetime(), prop::bool::ANY).prop_flat_map(move |((u, inc), m, (ad, a), since)| {
        let b = b6.clone();
        let q = inc as i128 * u.ns();
        near_multiple(q, -40 * DAY, 40 * DAY)
            .prop_map(move |diff| {
                let t = ad as i128 * DAY + a + diff;
                let (bd, bn) = (t.div_euclid(DAY) as i64, t.rem_euclid(DAY));
                PubCase { op: if since { Op::DateTimeSince } else { Op::DateTimeUntil }, a, a_day: ad, b: bn, b_day: bd, unit: u, inc, mode: m, ..b.clone() }
            })
            .prop_filter("in range", |c| datetime_in_range(c.b_day, c.b))
    });
    // strings: digits 0..=9 or a smallest unit
    let prec = prop_oneof![(0u8..=9).prop_map(|d| (Some(d), U::Nanosecond)), proptest::sample::select(vec![U::Minute, U::Second, U::Millisecond, U::Microsecond, U::Nanosecond]).prop_map(|u| (None, u))];
    let b7 = base.clone();
    let strings = (prec, gen::mode(), 0u8..5, gen::day(), gen::instant_ns(), -1439i32..=1439).prop_flat_map(move |((digits, u), m, which, day, inst, off)| {
        let b = b7.clone();
        let tmp = PubCase { digits, unit: u, ..b.clone() };
        let q = fmt::prec_increment(string_prec(&tmp));
        let op = [Op::TimeString, Op::DateTimeString, Op::InstantString, Op::ZonedString, Op::DurationString][which as usize];
        let strat: BoxedStrategy<i128> = match op {
            Op::TimeString | Op::DateTimeString => near_multiple(q, 0, DAY - 1),
            Op::DurationString => near_multiple(q, -4_000_000_000_000_000, 4_000_000_000_000_000),
            _ => {
                let centre = inst;
                near_multiple(q, (centre - 5 * q).max(-MAX_INSTANT), (centre + 5 * q).min(MAX_INSTANT))
            }
        };
        strat
            .prop_map(move |a| {
                // a third of the zoned strings: rule zone whose only transition is the upper neighbouring multiple of
                // the increment (whole seconds) - or the next whole second for sub-second increments -, shifting by
                // +-1 h / 30 min
                let shift = if op == Op::ZonedString && (off.rem_euclid(3) == 0) {
                    let up = if q >= 1_000_000_000 { (a.div_euclid(q) + 1) * q } else { (a.div_euclid(1_000_000_000) + 1) * 1_000_000_000 };
                    let after = (off + [60, -60, 30, -30][(day.rem_euclid(4)) as usize]).clamp(-1439, 1439);
                    Some(((up / 1_000_000_000) as i64, after))
                } else {
                    None
                };
                PubCase { op, a, a_day: day, unit: u, digits, mode: m, offset_min: if op == Op::ZonedString { off } else { 0 }, shift, ..b.clone() }
            })
            .prop_filter("in range", |c| c.op != Op::DateTimeString || datetime_in_range(c.a_day, c.a))
    });
    prop_oneof![
        3 => time_round.boxed(),
        3 => dt_round.boxed(),
        3 => inst_round.boxed(),
        2 => time_diff.boxed(),
        2 => inst_diff.boxed(),
        2 => dt_diff.boxed(),
        5 => strings.boxed(),
    ]
    .boxed()
}

/// only the rule-zone ZonedDateTime strings (also run by C13: the printed reading is that of the rounded instant)
pub fn zoned_rule_string_case() -> BoxedStrategy<PubCase> {
    let prec = prop_oneof![(0u8..=9).prop_map(|d| (Some(d), U::Nanosecond)), proptest::sample::select(vec![U::Minute, U::Second, U::Millisecond, U::Microsecond]).prop_map(|u| (None, u))];
    (prec, gen::mode(), gen::instant_ns(), -1439i32..=1439, 0usize..4, prop::bool::weighted(0.7))
        .prop_flat_map(|((digits, u), m, inst, off, k, near_transition)| {
            let base = PubCase { op: Op::ZonedString, a: 0, a_day: 0, b: 0, b_day: 0, unit: u, inc: 1, mode: m, digits, offset_min: off, shift: None };
            let q = fmt::prec_increment(string_prec(&base));
            near_multiple(q, (inst - 5 * q).max(-MAX_INSTANT), (inst + 5 * q).min(MAX_INSTANT)).prop_map(move |a| {
                let up = if q >= 1_000_000_000 { (a.div_euclid(q) + 1) * q } else { (a.div_euclid(1_000_000_000) + 1) * 1_000_000_000 };
                // transition at the upper neighbouring multiple, or a few increments away
                let tr = if near_transition { up } else { up + 1_000_000_000 * (k as i128 + 1) * 97 };
                let after = (off + [60, -60, 30, -30][k]).clamp(-1439, 1439);
                PubCase { a, shift: Some(((tr / 1_000_000_000) as i64, after)), ..base.clone() }
            })
        })
        .boxed()
}

pub fn run(ctx: &mut Ctx) {
    ctx.rule = "hook: exhaustive grid of the internal increment rounder (i128: q in 1..=64 and {100,125,250,500,1000,60e9,3600e9,86400e9}, x in -3q-2..=3q+2 resp. k*q+{0,+-1,q/2,q/2+-1,..}; f64: q in 1..=64, x = k/1, k/2, k/4) x 9 modes against exact rational rounding. public: PlainTime/PlainDateTime/Instant round, until/since with smallestUnit+increment+mode (time largest unit), toString with fractionalSecondDigits 0..9 or smallestUnit on PlainTime/PlainDateTime/Instant/ZonedDateTime(fixed offsets)/Duration; every admissible (unit, increment) is drawn uniformly; values are k*q + {0,+-1,tie,tie+-1,...} or uniform. oracle: exact integer RoundNumberToIncrement; plus the mode-free neighbour invariant. non-trivial = value not a multiple of the increment (classes: tie, tie+-1, off-multiple, odd-increment, negative). cal-tie: constructed ties and tie +-1 ns between start + r1 and start + r2 years/months/weeks (r2 = r1 + increment, increments 1..12, 20, 25, 50, 100, both directions) through PlainDateTime/PlainDate until/since and Duration::round relative to a date; oracle RoundNumberToIncrement(r1 + inc/2 +- eps).".into();
    ctx.assumptions = vec!["since(a,b,mode) == round(a-b, mode) is the reading of 'since applies the mode as if negated' (negate, round other-this, negate back)".into()];
    let cases = hook_cases();
    let n = cases.len() as u64;
    ctx.run_enum(&HookSub, n, &|i| cases[i as usize].clone(), true);
    ctx.run_prop(&PubSub, &pub_case, ctx.tier.pick(2_000_000, 60_000_000));
    ctx.run_prop(&super::c07cal::CalSub, &super::c07cal::cal_case, ctx.tier.pick(400_000, 12_000_000));
    // rounding a zoned difference to hours / minutes with an increment across days that are not 24 h long (C14's
    // reference DifferenceZonedDateTime + NudgeToZonedTime on the rule table)
    ctx.run_prop(&super::c14::Sub, &super::c14::rounding_across_days_case, ctx.tier.pick(150_000, 4_000_000));
    // year-month until / since with smallestUnit year / month and an increment (receivers incl. those with an
    // explicit hidden reference day) against the plain-date model from the first of the month: C18's sub-check
    ctx.run_prop(&super::c18::YmDiffSub, &super::c18::ym_diff_case, ctx.tier.pick(300_000, 5_000_000));
}

pub fn replay(ctx: &mut Ctx, sub: &str, case: &Value) -> bool {
    match sub {
        "hook" => ctx.replay_case(&HookSub, case),
        "public" => ctx.replay_case(&PubSub, case),
        "cal-tie" => ctx.replay_case(&super::c07cal::CalSub, case),
        "zoned" => ctx.replay_case(&super::c14::Sub, case),
        "ym-diff" => ctx.replay_case(&super::c18::YmDiffSub, case),
        _ => false,
    }
}

#[allow(dead_code)]
fn _units() -> [U; 10] {
    UNITS
}
