//! C18 - year-months and month-days are canonical (hidden day 1 / reference year 1972) whichever route
//! built them, and year-month arithmetic counts whole months exactly as plain-date arithmetic from the
//! first of the month.
//!
//! Sub-checks
//!   ym-routes  every construction route of one year-month (strings short/basic/6-digit/full date/date-time
//!              with offset and annotations, PlainDate::to_plain_year_month, from_partial,
//!              Calendar::year_month_from_partial, new_with_overflow(.., None|Some(1), ..), with) must agree:
//!              `==`, compare_iso, the four DisplayCalendar prints (day 01 where the day is shown), month code;
//!              outside -271821-04 ..= +275760-09 every route is a RangeError.
//!   ym-ctor    low-level constructor with explicit reference day / impossible month / both overflow modes
//!              (RegulateISODate + ISOYearMonthWithinLimits), from_partial and with on impossible months.
//!   ym-add     add/subtract against AddISODate from day 1 (refm::dateadd), result canonical.
//!   ym-diff    until/since against DifferenceISODate / DifferencePlainDateTimeWithRounding between the two
//!              first-of-months (refm::relround), option validation (week/day/time units, auto smallest,
//!              largest < smallest are RangeErrors), no day/week/time part ever, add(until) law.
//!   ym-diff-cal until/since between year-months of one non-ISO calendar: zero exactly when both are the same
//!              calendar month (two calendar months can lie inside one ISO month and one calendar month spans two),
//!              sign, no day/week part, month count from the calendar's months-in-year. (The crate has no non-ISO
//!              CalendarDateUntil yet: listed finding.)
//!   md-routes  every construction route of one month-day agrees, reference year 1972.
//!   md-ctor    impossible days/months x overflow x explicit reference year x field records.
//!   md-with    PlainMonthDay::with against the field merge (currently unimplemented: unjudged).

use crate::conv::*;
use crate::gen;
use crate::refm::civil::*;
use crate::refm::dateadd::*;
use crate::refm::dur::{Dur, U};
use crate::refm::fmt as rfmt;
use crate::refm::relround::{diff_with_rounding, Internal};
use crate::refm::round::Mode;
use crate::run::*;
use proptest::prelude::*;
use serde::{Deserialize, Serialize};
use serde_json::Value;
use std::str::FromStr;
use temporal_rs::error::ErrorKind;
use temporal_rs::options::{ArithmeticOverflow, DisplayCalendar, Unit};
use temporal_rs::partial::PartialDate;
use temporal_rs::{MonthCode, PlainDate, PlainMonthDay, PlainYearMonth, TemporalResult};

// ------------------------------------------------------------------------------------------
// small helpers

const SHOWS: [DisplayCalendar; 4] = [DisplayCalendar::Auto, DisplayCalendar::Never, DisplayCalendar::Always, DisplayCalendar::Critical];
const MIN_YM: (i64, u8) = (-271821, 4);
/// month index: months since 0000-01
fn midx(y: i64, m: u8) -> i64 {
    y * 12 + (m as i64 - 1)
}
fn from_midx(i: i64) -> (i64, u8) {
    balance_ym(0, i + 1)
}
const MIN_IDX: i64 = -271821 * 12 + 3;
const MAX_IDX: i64 = 275760 * 12 + 8;

fn ovf(reject: bool) -> ArithmeticOverflow {
    if reject {
        ArithmeticOverflow::Reject
    } else {
        ArithmeticOverflow::Constrain
    }
}
fn rov(reject: bool) -> Overflow {
    if reject {
        Overflow::Reject
    } else {
        Overflow::Constrain
    }
}
fn set_fail(o: &mut Outcome, sig: String, exp: String, act: String) {
    if o.fail.is_none() {
        o.fail = Some(Fail { sig, expected: exp, actual: act });
    }
}
/// RegulateISODate on (month, day) for a given year
fn regulate(y: i64, m: u8, d: u8, reject: bool) -> Option<(u8, u8)> {
    if reject {
        if (1..=12).contains(&m) && d >= 1 && d <= dim(y, m) {
            Some((m, d))
        } else {
            None
        }
    } else {
        let m2 = m.clamp(1, 12);
        Some((m2, d.clamp(1, dim(y, m2))))
    }
}
fn month_code(m: u8) -> MonthCode {
    MonthCode::from_str(&format!("M{:02}", m)).expect("month code literal")
}
fn year_str(y: i64, force6: bool) -> String {
    if force6 && (0..=9999).contains(&y) {
        format!("+{:06}", y)
    } else {
        rfmt::year(y)
    }
}
/// time + offset + annotations tail of a date-time string
fn dt_tail(ns: i128, sep: u8, off_min: Option<i32>, zone: u8, cal: bool) -> String {
    let mut s = String::new();
    s.push(match sep % 3 {
        0 => 'T',
        1 => 't',
        _ => ' ',
    });
    s += &rfmt::time(ns, rfmt::Prec::Auto);
    if let Some(o) = off_min {
        s += &rfmt::offset_minutes(o as i64);
    }
    match zone % 4 {
        1 => s += "[UTC]",
        2 => s += "[Europe/Berlin]",
        3 => s += "[+01:00]",
        _ => {}
    }
    if cal {
        // calendar identifiers are matched case-insensitively; a critical flag does not change the value
        s += ["[u-ca=iso8601]", "[u-ca=ISO8601]", "[!u-ca=iso8601]", "[u-ca=Iso8601]"][(sep as usize / 3 + zone as usize) % 4];
    }
    s
}
fn ym_prints(v: &PlainYearMonth) -> [String; 4] {
    [v.to_ixdtf_string(SHOWS[0]), v.to_ixdtf_string(SHOWS[1]), v.to_ixdtf_string(SHOWS[2]), v.to_ixdtf_string(SHOWS[3])]
}
fn md_prints(v: &PlainMonthDay) -> [String; 4] {
    [v.to_ixdtf_string(SHOWS[0]), v.to_ixdtf_string(SHOWS[1]), v.to_ixdtf_string(SHOWS[2]), v.to_ixdtf_string(SHOWS[3])]
}
/// TemporalYearMonthToString for the ISO calendar: the reference day is shown exactly when the calendar is
fn want_ym_prints(y: i64, m: u8, d: u8) -> [String; 4] {
    let short = format!("{}-{:02}", rfmt::year(y), m);
    [short.clone(), short, format!("{}[u-ca=iso8601]", rfmt::date(y, m, d)), format!("{}[!u-ca=iso8601]", rfmt::date(y, m, d))]
}
/// TemporalMonthDayToString for the ISO calendar
fn want_md_prints(ry: i64, m: u8, d: u8) -> [String; 4] {
    let short = format!("{:02}-{:02}", m, d);
    [short.clone(), short, format!("{}[u-ca=iso8601]", rfmt::date(ry, m, d)), format!("{}[!u-ca=iso8601]", rfmt::date(ry, m, d))]
}
/// the hidden reference day as shown by the `always` print (the field itself is private)
fn hidden_day(v: &PlainYearMonth) -> Option<u8> {
    let s = v.to_ixdtf_string(DisplayCalendar::Always);
    let i = s.find('[')?;
    s.get(i.checked_sub(2)?..i)?.parse().ok()
}
fn ym_of(v: &PlainYearMonth) -> (i64, u8) {
    (v.iso_year() as i64, v.iso_month())
}
fn canon_ym(y: i64, m: u8) -> TemporalResult<PlainYearMonth> {
    PlainYearMonth::new_with_overflow(y as i32, m, None, iso(), ArithmeticOverflow::Reject)
}
fn show_ym(r: &TemporalResult<PlainYearMonth>) -> String {
    match r {
        Ok(v) => format!("Ok({})", v.to_ixdtf_string(DisplayCalendar::Always)),
        Err(e) => err_str(e),
    }
}
fn show_md(r: &TemporalResult<PlainMonthDay>) -> String {
    match r {
        Ok(v) => format!("Ok({})", v.to_ixdtf_string(DisplayCalendar::Always)),
        Err(e) => err_str(e),
    }
}

/// Judge one year-month result. `want`: Some((y, m, hidden day)) or None = RangeError.
/// `canon`: the canonical value of (y, m) (hidden day 1) where it could be built.
fn judge_ym(o: &mut Outcome, pre: &str, got: &TemporalResult<PlainYearMonth>, want: Option<(i64, u8, u8)>, canon: Option<&PlainYearMonth>) {
    if o.failed() {
        return;
    }
    match (want, got) {
        (None, Err(e)) => {
            if e.kind() != ErrorKind::Range {
                set_fail(o, format!("{pre}/error-kind"), "RangeError".into(), err_str(e));
            }
        }
        (None, Ok(_)) => set_fail(o, format!("{pre}/accepted"), "RangeError".into(), show_ym(got)),
        (Some(w), Err(_)) => set_fail(o, format!("{pre}/unexpected-error"), format!("{:?}", want_ym_prints(w.0, w.1, w.2)[2]), show_ym(got)),
        (Some((y, m, d)), Ok(v)) => {
            if ym_of(v) != (y, m) {
                return set_fail(o, format!("{pre}/fields"), format!("{:?}", (y, m)), format!("{:?}", ym_of(v)));
            }
            let (wp, gp) = (want_ym_prints(y, m, d), ym_prints(v));
            if wp != gp {
                // which of the two print families disagrees
                let what = if wp[0] != gp[0] || wp[1] != gp[1] { "print-short" } else { "hidden-day" };
                return set_fail(o, format!("{pre}/{what}"), format!("{wp:?}"), format!("{gp:?}"));
            }
            if v.to_string() != wp[0] {
                return set_fail(o, format!("{pre}/display"), wp[0].clone(), v.to_string());
            }
            if v.month_code().as_str() != format!("M{:02}", m) || v.year() as i64 != y || v.month() != m {
                return set_fail(o, format!("{pre}/calendar-fields"), format!("{y} M{m:02}"), format!("{} {} {}", v.year(), v.month(), v.month_code().as_str()));
            }
            if let Some(c) = canon {
                if (v == c) != (d == 1) {
                    return set_fail(o, format!("{pre}/equality"), format!("== canonical: {}", d == 1), format!("{}", v == c));
                }
                if v.compare_iso(c) != d.cmp(&1) {
                    return set_fail(o, format!("{pre}/compare_iso"), format!("{:?}", d.cmp(&1)), format!("{:?}", v.compare_iso(c)));
                }
            }
        }
    }
}

/// Judge one month-day result. `want`: Some((reference year, m, d)) or None = RangeError.
fn judge_md(o: &mut Outcome, pre: &str, got: &TemporalResult<PlainMonthDay>, want: Option<(i64, u8, u8)>, canon: Option<&PlainMonthDay>) {
    if o.failed() {
        return;
    }
    match (want, got) {
        (None, Err(e)) => {
            if e.kind() != ErrorKind::Range {
                set_fail(o, format!("{pre}/error-kind"), "RangeError".into(), err_str(e));
            }
        }
        (None, Ok(_)) => set_fail(o, format!("{pre}/accepted"), "RangeError".into(), show_md(got)),
        (Some(w), Err(_)) => set_fail(o, format!("{pre}/unexpected-error"), format!("{:?}", want_md_prints(w.0, w.1, w.2)[2]), show_md(got)),
        (Some((ry, m, d)), Ok(v)) => {
            if (v.iso_month(), v.iso_day()) != (m, d) {
                return set_fail(o, format!("{pre}/fields"), format!("{:?}", (m, d)), format!("{:?}", (v.iso_month(), v.iso_day())));
            }
            let (wp, gp) = (want_md_prints(ry, m, d), md_prints(v));
            if wp != gp || v.iso_year() as i64 != ry {
                let what = if wp[0] != gp[0] || wp[1] != gp[1] { "print-short" } else { "reference-year" };
                return set_fail(o, format!("{pre}/{what}"), format!("{wp:?}"), format!("{gp:?}"));
            }
            if v.to_string() != wp[0] {
                return set_fail(o, format!("{pre}/display"), wp[0].clone(), v.to_string());
            }
            if v.month_code().as_str() != format!("M{:02}", m) {
                return set_fail(o, format!("{pre}/month-code"), format!("M{m:02}"), v.month_code().as_str().to_string());
            }
            if let Some(c) = canon {
                if (v == c) != (ry == 1972) {
                    return set_fail(o, format!("{pre}/equality"), format!("== canonical: {}", ry == 1972), format!("{}", v == c));
                }
            }
        }
    }
}

// ------------------------------------------------------------------------------------------
// ym-routes

#[derive(Serialize, Deserialize, Debug, Clone)]
pub struct YmRouteCase {
    pub y: i64,
    pub m: u8,
    /// day used by the routes that go through a full date (1..=days in month)
    pub day: u8,
    /// time of day used by the date-time string route
    pub ns: i128,
    pub off_min: i32,
    pub sep: u8,
    pub zone: u8,
}
pub struct YmRouteSub;

impl SubCheck for YmRouteSub {
    type Case = YmRouteCase;
    fn name(&self) -> &'static str {
        "ym-routes"
    }
    fn eval(&self, c: &YmRouteCase) -> Outcome {
        let (y, m) = (c.y, c.m);
        let day = c.day.clamp(1, dim(y, m));
        let in_range = ym_in_range(y, m);
        let want = if in_range { Some((y, m, 1u8)) } else { None };
        let near_limit = midx(y, m) - MIN_IDX < 12 || MAX_IDX - midx(y, m) < 12;
        let mut o = Outcome::pass().nontrivial(day != 1 || c.ns != 0 || near_limit || (m == 2 && day == 29));
        o = o.class(if in_range { "in-range" } else { "out-of-range" });
        if near_limit {
            o = o.class("within-a-year-of-limit-or-out");
        }
        if day != 1 {
            o = o.class("route-day!=1");
        }
        if m == 2 && day == 29 {
            o = o.class("feb-29");
        }
        if !(0..=9999).contains(&y) {
            o = o.class("extended-year");
        }
        let yi = y as i32;
        let canon = canon_ym(y, m);
        judge_ym(&mut o, "C18/ym.route/ctor-none-reject", &canon, want, None);
        let cref = canon.as_ref().ok();
        let constrain = PlainYearMonth::new_with_overflow(yi, m, None, iso(), ArithmeticOverflow::Constrain);
        judge_ym(&mut o, "C18/ym.route/ctor-none-constrain", &constrain, want, cref);
        let one = PlainYearMonth::new_with_overflow(yi, m, Some(1), iso(), ArithmeticOverflow::Reject);
        judge_ym(&mut o, "C18/ym.route/ctor-ref-1", &one, want, cref);

        // strings
        let ys = rfmt::year(y);
        let s_short = format!("{}-{:02}", ys, m);
        judge_ym(&mut o, "C18/ym.route/str-short", &PlainYearMonth::from_str(&s_short), want, cref);
        let s_basic = format!("{}{:02}", ys, m);
        judge_ym(&mut o, "C18/ym.route/str-basic", &PlainYearMonth::from_str(&s_basic), want, cref);
        let s_six = format!("{}-{:02}", year_str(y, true), m);
        judge_ym(&mut o, "C18/ym.route/str-six-digit-year", &PlainYearMonth::from_str(&s_six), want, cref);
        let s_cal = format!("{}-{:02}[u-ca=iso8601]", ys, m);
        judge_ym(&mut o, "C18/ym.route/str-short-calendar", &PlainYearMonth::from_str(&s_cal), want, cref);
        judge_ym(&mut o, "C18/ym.route/str-short-calendar-upper-case", &PlainYearMonth::from_str(&format!("{}-{:02}[u-ca=ISO8601]", ys, m)), want, cref);
        judge_ym(&mut o, "C18/ym.route/str-short-calendar-critical", &PlainYearMonth::from_str(&format!("{}-{:02}[!u-ca=iso8601]", ys, m)), want, cref);
        let s_date = rfmt::date(y, m, day);
        judge_ym(&mut o, "C18/ym.route/str-date", &PlainYearMonth::from_str(&s_date), want, cref);
        let s_date_basic = format!("{}{:02}{:02}", ys, m, day);
        judge_ym(&mut o, "C18/ym.route/str-date-basic", &PlainYearMonth::from_str(&s_date_basic), want, cref);
        let s_dt = format!("{}{}", s_date, dt_tail(c.ns, c.sep, Some(c.off_min), c.zone, c.sep % 2 == 0));
        judge_ym(&mut o, "C18/ym.route/str-datetime-offset", &PlainYearMonth::from_str(&s_dt), want, cref);
        let s_dt2 = format!("{}{}", s_date, dt_tail(c.ns, c.sep.wrapping_add(1), None, c.zone.wrapping_add(1), c.sep % 2 == 1));
        judge_ym(&mut o, "C18/ym.route/str-datetime", &PlainYearMonth::from_str(&s_dt2), want, cref);

        // from a date (only where the date itself exists)
        if date_in_range(to_days(y, m, day)) {
            o = o.class("date-route");
            match PlainDate::try_new(yi, m, day, iso()) {
                Ok(d) => judge_ym(&mut o, "C18/ym.route/from-date", &d.to_plain_year_month(), want, cref),
                Err(e) => set_fail(&mut o, "C18/ym.route/from-date/date-construct".into(), "valid date".into(), err_str(&e)),
            }
        }

        // field records without a day
        let p_m = PartialDate { year: Some(yi), month: Some(m), ..Default::default() };
        let p_mc = PartialDate { year: Some(yi), month_code: Some(month_code(m)), ..Default::default() };
        let p_both = PartialDate { year: Some(yi), month: Some(m), month_code: Some(month_code(m)), ..Default::default() };
        for reject in [false, true] {
            judge_ym(&mut o, "C18/ym.route/partial-month", &PlainYearMonth::from_partial(p_m.clone(), ovf(reject)), want, cref);
            judge_ym(&mut o, "C18/ym.route/partial-month-code", &PlainYearMonth::from_partial(p_mc.clone(), ovf(reject)), want, cref);
            judge_ym(&mut o, "C18/ym.route/partial-month+code", &PlainYearMonth::from_partial(p_both.clone(), ovf(reject)), want, cref);
            judge_ym(&mut o, "C18/ym.route/calendar-partial", &iso().year_month_from_partial(&p_m, ovf(reject)), want, cref);
        }

        // with: receivers carry an explicit reference day, the result must not
        let by = 2001 + y.rem_euclid(7);
        let bm = m % 12 + 1;
        if let Ok(base) = PlainYearMonth::new_with_overflow(by as i32, bm, Some(day.min(dim(by, bm))), iso(), ArithmeticOverflow::Reject) {
            judge_ym(&mut o, "C18/ym.route/with-year+month", &base.with(p_m.clone(), None), want, cref);
            judge_ym(&mut o, "C18/ym.route/with-year+month-code", &base.with(p_mc.clone(), Some(ArithmeticOverflow::Reject)), want, cref);
        } else {
            set_fail(&mut o, "C18/ym.route/with/base-construct".into(), "Ok".into(), format!("{by}-{bm}"));
        }
        if let Ok(base) = PlainYearMonth::new_with_overflow(by as i32, m, Some(day.min(dim(by, m))), iso(), ArithmeticOverflow::Reject) {
            judge_ym(&mut o, "C18/ym.route/with-year", &base.with(PartialDate { year: Some(yi), ..Default::default() }, None), want, cref);
        }
        if ym_in_range(y, bm) {
            if let Ok(base) = PlainYearMonth::new_with_overflow(yi, bm, Some(day.min(dim(y, bm))), iso(), ArithmeticOverflow::Reject) {
                judge_ym(&mut o, "C18/ym.route/with-month", &base.with(PartialDate { month: Some(m), ..Default::default() }, None), want, cref);
                // a day in the record is not a year-month field
                judge_ym(&mut o, "C18/ym.route/with-month+day", &base.with(PartialDate { month: Some(m), day: Some(day), ..Default::default() }, None), want, cref);
            }
        }

        // LAST (a recorded defect lives here): a field record that also carries a (valid) day
        if !o.failed() {
            let p_day = PartialDate { year: Some(yi), month: Some(m), day: Some(day), ..Default::default() };
            for (label, got) in [
                ("C18/ym.route/partial-with-day", PlainYearMonth::from_partial(p_day.clone(), ArithmeticOverflow::Constrain)),
                ("C18/ym.route/calendar-partial-with-day", iso().year_month_from_partial(&p_day, ArithmeticOverflow::Reject)),
            ] {
                // defect model: the record's day is stored as the reference day
                let kept = match &got {
                    Ok(v) => in_range && day != 1 && ym_of(v) == (y, m) && hidden_day(v) == Some(day),
                    Err(_) => false,
                };
                if kept {
                    set_fail(&mut o, "C18/ym.route/partial-with-day/record-day-kept-as-reference-day".into(), want_ym_prints(y, m, 1)[2].clone(), show_ym(&got));
                } else {
                    judge_ym(&mut o, label, &got, want, cref);
                }
            }
        }
        o
    }
}

fn ym_route_case_at(idx: i64, seed: u64, k: u64) -> YmRouteCase {
    let (y, m) = from_midx(idx);
    let h = hash64(&[seed.to_le_bytes(), (idx as u64).to_le_bytes(), k.to_le_bytes()].concat());
    let l = dim(y, m);
    let day = match h % 8 {
        0 => 1,
        1 => l,
        2 => l.saturating_sub(1).max(1),
        3 => 19.min(l),
        4 => 13,
        _ => 1 + ((h >> 8) % l as u64) as u8,
    };
    let ns = match (h >> 16) % 6 {
        0 => 0,
        1 => NS_PER_DAY - 1,
        2 => ((h >> 24) % 86400) as i128 * 1_000_000_000,
        3 => ((h >> 24) % 1440) as i128 * 60_000_000_000,
        _ => ((h >> 20) as i128) % NS_PER_DAY,
    };
    let off = ((h >> 40) % (2 * 1439 + 1)) as i32 - 1439;
    YmRouteCase { y, m, day, ns, off_min: off, sep: (h >> 52) as u8 % 6, zone: (h >> 56) as u8 % 4 }
}

fn ym_idx() -> BoxedStrategy<i64> {
    gen::boxed_union(vec![
        (4, (MIN_IDX..=MAX_IDX).boxed()),
        (2, (1800i64 * 12..=2200 * 12).boxed()),
        (2, (0i64..=36).prop_map(|k| MIN_IDX + k).boxed()),
        (2, (0i64..=36).prop_map(|k| MAX_IDX - k).boxed()),
        (1, (proptest::sample::select(vec![0i64, -1, 1, 9999, 10000, 1972, 1970, 2000, -400]), 0i64..12).prop_map(|(y, m)| y * 12 + m).boxed()),
    ])
}
pub fn ym_route_case() -> BoxedStrategy<YmRouteCase> {
    let idx = gen::boxed_union(vec![(6, ym_idx()), (1, (1i64..=30).prop_map(|k| MIN_IDX - k).boxed()), (1, (1i64..=30).prop_map(|k| MAX_IDX + k).boxed())]);
    (idx, 1u8..=31, gen::ns_of_day(), -1439i32..=1439, 0u8..6, 0u8..4)
        .prop_map(|(i, day, ns, off_min, sep, zone)| {
            let (y, m) = from_midx(i);
            YmRouteCase { y, m, day: day.min(dim(y, m)), ns, off_min, sep, zone }
        })
        .boxed()
}

// ------------------------------------------------------------------------------------------
// ym-ctor: explicit reference day, impossible months, both overflow modes

#[derive(Serialize, Deserialize, Debug, Clone)]
pub struct YmCtorCase {
    pub y: i64,
    pub m: u8,
    pub refday: Option<u8>,
    pub reject: bool,
}
pub struct YmCtorSub;

impl SubCheck for YmCtorSub {
    type Case = YmCtorCase;
    fn name(&self) -> &'static str {
        "ym-ctor"
    }
    fn eval(&self, c: &YmCtorCase) -> Outcome {
        let y = c.y;
        let yi = y as i32;
        let valid_month = (1..=12).contains(&c.m);
        let mut o = Outcome::pass().nontrivial(c.refday.is_some() || !valid_month).class(if c.reject { "reject" } else { "constrain" });
        if c.refday.is_some() {
            o = o.class("explicit-reference-day");
        }
        if !valid_month {
            o = o.class("impossible-month");
        }
        // low-level constructor: RegulateISODate(year, month, referenceDay ?? 1, overflow), then the year-month limits
        let d_in = c.refday.unwrap_or(1);
        let want = regulate(y, c.m, d_in, c.reject).and_then(|(m2, d2)| if ym_in_range(y, m2) { Some((y, m2, d2)) } else { None });
        if let Some((_, _, d2)) = want {
            if c.refday.is_some() && d2 != d_in {
                o = o.class("reference-day-constrained");
            }
        } else {
            o = o.class("rejected");
        }
        let canon = want.and_then(|(y2, m2, _)| canon_ym(y2, m2).ok());
        let got = PlainYearMonth::new_with_overflow(yi, c.m, c.refday, iso(), ovf(c.reject));
        judge_ym(&mut o, "C18/ym.ctor/new_with_overflow", &got, want, canon.as_ref());

        // the string route has no overflow option: month 00 / 13.. are RangeErrors
        if c.m <= 99 && y.abs() <= 999_999 && !c.reject {
            let want_str = if valid_month && ym_in_range(y, c.m) { Some((y, c.m, 1u8)) } else { None };
            let canon_str = want_str.and_then(|(a, b, _)| canon_ym(a, b).ok());
            judge_ym(&mut o, "C18/ym.ctor/str-short", &PlainYearMonth::from_str(&format!("{}-{:02}", rfmt::year(y), c.m)), want_str, canon_str.as_ref());
            let want_day = c.refday.and_then(|d| want_str.filter(|_| d >= 1 && d <= dim(y, c.m) && d <= 99));
            if let Some(d) = c.refday.filter(|d| *d <= 99) {
                judge_ym(&mut o, "C18/ym.ctor/str-date", &PlainYearMonth::from_str(&format!("{}-{:02}-{:02}", rfmt::year(y), c.m, d)), want_day, canon_str.as_ref());
            }
        }
        // a field record with an impossible month (no day): constrain clamps, reject refuses
        let want_rec = regulate(y, c.m, 1, c.reject).and_then(|(m2, _)| if ym_in_range(y, m2) { Some((y, m2, 1u8)) } else { None });
        let canon_rec = want_rec.and_then(|(y2, m2, _)| canon_ym(y2, m2).ok());
        if c.m == 0 {
            // month 0 in a field record: Temporal refuses it before the overflow option is looked at
            // (ToPositiveIntegerWithTruncation); the Rust record is a plain u8 - contract doubtful
            o.unjudged = true;
            o = o.class("record-month-0:unjudged");
            let _ = PlainYearMonth::from_partial(PartialDate { year: Some(yi), month: Some(0), ..Default::default() }, ovf(c.reject));
        } else {
            let rec = PlainYearMonth::from_partial(PartialDate { year: Some(yi), month: Some(c.m), ..Default::default() }, ovf(c.reject));
            judge_ym(&mut o, "C18/ym.ctor/partial-month", &rec, want_rec, canon_rec.as_ref());
            // with({year, month}) on an unrelated receiver with a hidden day
            if let Ok(base) = PlainYearMonth::new_with_overflow(2001, 6, Some(30), iso(), ArithmeticOverflow::Reject) {
                let got = base.with(PartialDate { year: Some(yi), month: Some(c.m), ..Default::default() }, Some(ovf(c.reject)));
                let clamped_away = c.m > 12 && !c.reject && want_rec.is_some() && matches!(&got, Err(e) if e.kind() == ErrorKind::Range);
                if clamped_away && !o.failed() {
                    // defect model (fixed in /repo by adcf30e; a recurrence shows up under this signature): `with` turned month > 12 into a month code before clamping
                    set_fail(&mut o, "C18/ym.with/month>12-under-constrain-is-RangeError".into(), format!("{:?}", want_ym_prints(y, 12, 1)[2]), show_ym(&got));
                } else {
                    judge_ym(&mut o, "C18/ym.ctor/with-month", &got, want_rec, canon_rec.as_ref());
                }
            }
        }
        o
    }
}

pub fn ym_ctor_case() -> BoxedStrategy<YmCtorCase> {
    let y = gen::boxed_union(vec![
        (4, (-271823i64..=275762).boxed()),
        (2, prop_oneof![Just(-271821i64), Just(275760), Just(-271822), Just(275761), Just(0), Just(1972), Just(1900), Just(2000)].boxed()),
        (1, prop_oneof![Just(i32::MIN as i64), Just(i32::MAX as i64), Just(-300000i64), Just(300000i64), (-2_000_000i64..=2_000_000)].boxed()),
    ]);
    let m = prop_oneof![6 => 1u8..=12, 1 => Just(0u8), 1 => 13u8..=15, 1 => any::<u8>()];
    let rd = prop_oneof![2 => Just(None), 3 => (1u8..=31).prop_map(Some), 2 => (28u8..=32).prop_map(Some), 1 => Just(Some(0u8)), 1 => any::<u8>().prop_map(Some)];
    (y, m, rd, any::<bool>()).prop_map(|(y, m, refday, reject)| YmCtorCase { y, m, refday, reject }).boxed()
}

// ------------------------------------------------------------------------------------------
// ym-add

#[derive(Serialize, Deserialize, Debug, Clone)]
pub struct YmAddCase {
    pub y: i64,
    pub m: u8,
    /// explicit reference day of the receiver (valid for the month) or None
    pub refday: Option<u8>,
    pub dur: Dur,
    pub reject: bool,
    pub subtract: bool,
}
pub struct YmAddSub;

impl SubCheck for YmAddSub {
    type Case = YmAddCase;
    fn name(&self) -> &'static str {
        "ym-add"
    }
    fn eval(&self, c: &YmAddCase) -> Outcome {
        let (y, m) = (c.y, c.m);
        let mut o = Outcome::pass();
        let eff = if c.subtract { c.dur.negated() } else { c.dur };
        let tdays = eff.time_ns() / NS_PER_DAY; // sign-uniform: truncation is unambiguous
        let pure = eff.f[2] == 0 && eff.f[3] == 0 && eff.time_ns() == 0;
        let ov = rov(c.reject);
        // model A: plain-date arithmetic from the first of the month
        let model_a = date_add(Ymd::new(y, m, 1), eff.f[0], eff.f[1], eff.f[2], eff.f[3] + tdays, ov);
        // whole-month count without any date limit (only used around -271821-04, see below)
        let ub_idx = midx(y, m) as i128 + eff.f[0] * 12 + eff.f[1];
        let ub = if ub_idx >= MIN_IDX as i128 && ub_idx <= MAX_IDX as i128 { Some(from_midx(ub_idx as i64)) } else { None };
        let min_involved = (y, m) == MIN_YM || ub == Some(MIN_YM);
        let near_limit = match model_a {
            Ok(r) => midx(r.y, r.m) - MIN_IDX < 12 || MAX_IDX - midx(r.y, r.m) < 12,
            Err(_) => true,
        };
        o = o.nontrivial(c.refday.is_some_and(|d| d != 1) || near_limit || !pure);
        o = o.class(if pure { "years-months-only" } else { "week/day/time-units" });
        if c.refday.is_some_and(|d| d != 1) {
            o = o.class("receiver-hidden-day!=1");
        }
        if near_limit {
            o = o.class("result-within-a-year-of-limit-or-out");
        }
        if eff.sign() < 0 {
            o = o.class("negative");
        }
        let recv = match PlainYearMonth::new_with_overflow(y as i32, m, c.refday, iso(), ArithmeticOverflow::Reject) {
            Ok(v) => v,
            Err(e) => return o.fail("C18/ym.add/receiver-construct", "valid year-month", err_str(&e)),
        };
        let d = match duration_from_dur(&c.dur) {
            Ok(d) => d,
            Err(e) => return o.fail("C18/ym.add/duration-construct", "valid duration", err_str(&e)),
        };
        let got = if c.subtract { recv.subtract(&d, ovf(c.reject)) } else { recv.add(&d, ovf(c.reject)) };
        if let Err(e) = &got {
            if e.kind() != ErrorKind::Range {
                return o.fail("C18/ym.add/error-kind", "Ok or RangeError", err_str(e));
            }
        }
        if pure {
            if min_involved {
                // The first of -271821-04 is not a representable date: Temporal (CalendarDateFromFields /
                // CalendarDateAdd) answers RangeError, the bare month count would answer the month. Both accepted.
                o = o.class("first-month-involved:RangeError-or-month");
                match (&got, ub) {
                    (Err(_), _) => {}
                    (Ok(_), Some((uy, um))) => judge_ym(&mut o, "C18/ym.add/first-month", &got, Some((uy, um, 1)), canon_ym(uy, um).ok().as_ref()),
                    (Ok(_), None) => judge_ym(&mut o, "C18/ym.add/first-month", &got, None, None),
                }
                return o;
            }
            let want = model_a.ok().map(|r| (r.y, r.m, 1u8));
            let canon = want.and_then(|(a, b, _)| canon_ym(a, b).ok());
            judge_ym(&mut o, "C18/ym.add", &got, want, canon.as_ref());
            return o;
        }
        // week / day / time units: a RangeError (Temporal's current rule) or a canonical month that agrees with date
        // arithmetic from day 1 (or, for negative durations, from the last day: the earlier draft rule)
        let v = match &got {
            Err(_) => return o.class("day-units:RangeError"),
            Ok(v) => v,
        };
        o = o.class("day-units:Ok");
        if (y, m) == MIN_YM {
            o.unjudged = true;
            return o.class("day-units-on-first-month:unjudged");
        }
        let model_b = if eff.sign() < 0 { date_add(Ymd::new(y, m, dim(y, m)), eff.f[0], eff.f[1], eff.f[2], eff.f[3] + tdays, ov) } else { model_a };
        let cands: Vec<(i64, u8)> = [model_a, model_b].iter().filter_map(|r| r.ok().map(|x| (x.y, x.m))).collect();
        if !cands.contains(&ym_of(v)) {
            return o.fail("C18/ym.add/day-units/miscounted", format!("RangeError or one of {cands:?}"), show_ym(&got));
        }
        let hd = hidden_day(v);
        if hd != Some(1) {
            // defect model: the day of the intermediate date (day 1 + days) is stored as the reference day
            let predicted = model_a.ok().filter(|r| (r.y, r.m) == ym_of(v)).map(|r| r.d);
            if predicted.is_some() && hd == predicted {
                return o.fail("C18/ym.add/day-units-leave-hidden-day", format!("RangeError or {}", want_ym_prints(v.iso_year() as i64, v.iso_month(), 1)[2]), show_ym(&got));
            }
            return o.fail("C18/ym.add/day-units/non-canonical", "reference day 01", show_ym(&got));
        }
        let (vy, vm) = ym_of(v);
        judge_ym(&mut o, "C18/ym.add/day-units", &got, Some((vy, vm, 1)), canon_ym(vy, vm).ok().as_ref());
        o
    }
}

fn refday_for(y: i64, m: u8, kind: u8, raw: u8) -> Option<u8> {
    let l = dim(y, m);
    match kind % 8 {
        0..=3 => None,
        4 => Some(1),
        5 | 6 => Some(raw.clamp(1, l)),
        _ => Some(l - raw % 3),
    }
}

fn add_dur() -> BoxedStrategy<Dur> {
    let fld = |max: i128| -> BoxedStrategy<i128> { prop_oneof![4 => Just(0i128), 4 => 0i128..=3, 3 => 0i128..=40, 3 => 0i128..=max, 1 => 0i128..=max / 50].boxed() };
    let big = prop_oneof![30 => Just(0i128), 1 => (-3i128..=3).prop_map(|k| (1i128 << 31) + k), 1 => (0i128..=3).prop_map(|k| (1i128 << 32) - 1 - k)];
    (
        any::<bool>(),
        fld(550_000),
        fld(6_600_000),
        prop_oneof![8 => Just(0i128), 1 => 0i128..=5, 1 => 0i128..=29_000_000],
        prop_oneof![8 => Just(0i128), 2 => 0i128..=62, 1 => 0i128..=201_000_000],
        prop_oneof![10 => Just(0i128), 1 => 0i128..=100, 1 => 0i128..=5_000_000_000i128],
        prop_oneof![12 => Just(0i128), 1 => (0i128..=3, 0i128..=2).prop_map(|(k, d)| (k * NS_PER_DAY + d * (NS_PER_DAY - 1)).max(0))],
        big,
    )
        .prop_map(|(neg, y, mo, w, d, h, ns, big)| {
            let mut f = [y, mo, w, d, h, 0, 0, 0, 0, gen::through_f64(ns)];
            if big != 0 {
                f[(big % 2) as usize] = big;
            }
            if neg {
                for x in f.iter_mut() {
                    *x = -*x;
                }
            }
            Dur { f }
        })
        .prop_filter("valid", |d| d.valid())
        .boxed()
}

pub fn ym_add_case() -> BoxedStrategy<YmAddCase> {
    // half of the durations are aimed: they lead from the receiver to a chosen target month (+- a little)
    let aimed = (ym_idx(), ym_idx(), -2i64..=2, any::<bool>()).prop_map(|(a, b, k, split)| {
        let delta = b - a + k;
        let f = if split { [(delta / 12) as i128, (delta % 12) as i128, 0, 0, 0, 0, 0, 0, 0, 0] } else { [0, delta as i128, 0, 0, 0, 0, 0, 0, 0, 0] };
        (a, Dur { f })
    });
    let free = (ym_idx(), add_dur());
    (prop_oneof![1 => aimed, 1 => free], 0u8..8, 1u8..=31, any::<bool>(), prop::bool::weighted(0.3))
        .prop_map(|((i, dur), kind, raw, reject, subtract)| {
            let (y, m) = from_midx(i);
            // for `subtract` the aimed duration is negated so that the effective one still points at the target
            let dur = if subtract { dur.negated() } else { dur };
            YmAddCase { y, m, refday: refday_for(y, m, kind, raw), dur, reject, subtract }
        })
        .boxed()
}

// ------------------------------------------------------------------------------------------
// ym-diff

#[derive(Serialize, Deserialize, Debug, Clone, Copy, PartialEq, Eq)]
pub enum OptUnit {
    Absent,
    Auto,
    Is(U),
}
impl OptUnit {
    fn to_api(self) -> Option<Unit> {
        match self {
            OptUnit::Absent => None,
            OptUnit::Auto => Some(Unit::Auto),
            OptUnit::Is(u) => Some(unit(u)),
        }
    }
}
#[derive(Serialize, Deserialize, Debug, Clone, Copy)]
pub struct YmRef {
    pub y: i64,
    pub m: u8,
    pub refday: Option<u8>,
}
#[derive(Serialize, Deserialize, Debug, Clone)]
pub struct YmDiffCase {
    pub a: YmRef,
    pub b: YmRef,
    pub largest: OptUnit,
    pub smallest: OptUnit,
    pub inc: Option<u32>,
    pub mode: Option<Mode>,
    pub since: bool,
}
pub struct YmDiffSub;

/// GetDifferenceSettings for PlainYearMonth (DESIGN Appendix A): Err = RangeError
fn resolve_units(l: OptUnit, s: OptUnit) -> Result<(U, U), ()> {
    let allowed = |u: U| u == U::Year || u == U::Month;
    if let OptUnit::Is(u) = l {
        if !allowed(u) {
            return Err(());
        }
    }
    let sm = match s {
        OptUnit::Auto => return Err(()),
        OptUnit::Is(u) if !allowed(u) => return Err(()),
        OptUnit::Is(u) => u,
        OptUnit::Absent => U::Month,
    };
    let lg = match l {
        OptUnit::Is(u) => u,
        _ => U::Year.larger_of(sm),
    };
    if lg.idx() > sm.idx() {
        return Err(());
    }
    Ok((lg, sm))
}

fn internal_fields(i: &Internal) -> [f64; 10] {
    [i.y as f64, i.mo as f64, i.w as f64, i.d as f64, 0., 0., 0., 0., 0., 0.]
}
fn neg_fields(f: [f64; 10]) -> [f64; 10] {
    let mut o = f;
    for x in o.iter_mut() {
        if *x != 0.0 {
            *x = -*x;
        }
    }
    o
}
/// `stored_dates`: model of the recorded defect (the stored dates, hidden day included, are differenced): the
/// implementation then also range-checks the intermediate date `a + years + months` (day constrained).
fn diff_model(a: Ymd, b: Ymd, lg: U, sm: U, inc: i128, mode: Mode, stored_dates: bool) -> Result<Internal, RErr> {
    if a == b {
        return Ok(Internal { y: 0, mo: 0, w: 0, d: 0, t: 0 });
    }
    if stored_dates {
        let (y, mo, _, _) = date_diff(a, b, lg);
        let (iy, im) = balance_ym(a.y + y, a.m as i64 + mo);
        if !date_in_range(to_days(iy, im, a.d.min(dim(iy, im)))) {
            return Err(RErr::Range);
        }
    }
    if sm == U::Month && inc == 1 {
        // no rounding step at all (step 16 of DifferenceTemporalPlainYearMonth)
        let (y, mo, w, d) = date_diff(a, b, lg);
        return Ok(Internal { y: y as i128, mo: mo as i128, w: w as i128, d: d as i128, t: 0 });
    }
    diff_with_rounding(Dt { day: a.n(), ns: 0 }, Dt { day: b.n(), ns: 0 }, lg, inc, sm, mode)
}

impl SubCheck for YmDiffSub {
    type Case = YmDiffCase;
    fn name(&self) -> &'static str {
        "ym-diff"
    }
    fn eval(&self, c: &YmDiffCase) -> Outcome {
        let mut o = Outcome::pass();
        let hidden_a = c.a.refday.unwrap_or(1);
        let hidden_b = c.b.refday.unwrap_or(1);
        let hidden = hidden_a != 1 || hidden_b != 1;
        let (ia, ib) = (midx(c.a.y, c.a.m), midx(c.b.y, c.b.m));
        let near_limit = [ia, ib].iter().any(|i| i - MIN_IDX < 12 || MAX_IDX - i < 12);
        let rounding = !(matches!(c.smallest, OptUnit::Absent | OptUnit::Is(U::Month)) && c.inc.unwrap_or(1) == 1);
        let units = resolve_units(c.largest, c.smallest);
        o = o.nontrivial(hidden || near_limit || (rounding && ia != ib));
        if hidden {
            o = o.class("explicit-reference-day!=1");
        }
        if near_limit {
            o = o.class("operand-within-a-year-of-limit");
        }
        if units.is_ok() && rounding {
            o = o.class("rounding");
        }
        o = o.class(if c.since { "since" } else { "until" });
        let build = |r: &YmRef| PlainYearMonth::new_with_overflow(r.y as i32, r.m, r.refday, iso(), ArithmeticOverflow::Reject);
        let (pa, pb) = match (build(&c.a), build(&c.b)) {
            (Ok(a), Ok(b)) => (a, b),
            (a, b) => return o.fail("C18/ym.diff/operand-construct", "two valid year-months", format!("{} {}", show_ym(&a), show_ym(&b))),
        };
        let st = diff_settings(c.largest.to_api(), c.smallest.to_api(), c.inc, c.mode.map(mode));
        let got = if c.since { pa.since(&pb, st) } else { pa.until(&pb, st) };
        let got_s = match &got {
            Ok(d) => format!("Ok({:?})", &duration_fields(d)[..4]),
            Err(e) => err_str(e),
        };
        if let Err(e) = &got {
            if e.kind() != ErrorKind::Range {
                return o.fail("C18/ym.diff/error-kind", "Ok or RangeError", got_s);
            }
        }
        let (lg, sm) = match units {
            Err(()) => {
                o = o.class("options-rejected");
                if matches!(c.largest, OptUnit::Is(U::Week | U::Day)) || matches!(c.smallest, OptUnit::Is(U::Week | U::Day)) {
                    o = o.class("week/day-unit").nontrivial(true);
                }
                if got.is_ok() {
                    return o.fail("C18/ym.diff/options-accepted", "RangeError", got_s);
                }
                return o;
            }
            Ok(u) => u,
        };
        let inc = c.inc.unwrap_or(1) as i128;
        let m_eff = {
            let m0 = c.mode.unwrap_or(Mode::Trunc);
            if c.since {
                m0.negated()
            } else {
                m0
            }
        };
        let signed = |r: Result<Internal, RErr>| r.map(|i| if c.since { neg_fields(internal_fields(&i)) } else { internal_fields(&i) });
        let want = signed(diff_model(Ymd::new(c.a.y, c.a.m, 1), Ymd::new(c.b.y, c.b.m, 1), lg, sm, inc, m_eff, false));
        let want_s = match &want {
            Ok(f) => format!("Ok({:?})", &f[..4]),
            Err(_) => "RangeError".to_string(),
        };
        let gotf = got.as_ref().ok().map(duration_fields);
        let min_involved = ia == MIN_IDX || ib == MIN_IDX;
        let agrees = match (&want, &gotf) {
            (Ok(w), Some(g)) => fields_eq(w, g),
            (Err(_), None) => true,
            _ => false,
        };
        if min_involved {
            // the first of -271821-04 is not a representable date: Temporal throws at CalendarDateFromFields;
            // accepted: RangeError, or the value the model gives when it can compute one
            o = o.class("first-month-operand:RangeError-or-value");
            if got.is_err() || agrees {
                return o;
            }
            if want.is_err() {
                o.unjudged = true;
                return o.class("first-month-operand:model-has-no-value:unjudged");
            }
        }
        if !agrees {
            if hidden {
                // defect model: the stored dates (with their hidden days) are differenced instead of the first-of-months
                let pred = signed(diff_model(Ymd::new(c.a.y, c.a.m, hidden_a), Ymd::new(c.b.y, c.b.m, hidden_b), lg, sm, inc, m_eff, true));
                let as_predicted = match (&pred, &gotf) {
                    (Ok(p), Some(g)) => fields_eq(p, g),
                    (Err(_), None) => true,
                    _ => false,
                };
                if as_predicted {
                    return o.fail("C18/ym.diff/hidden-reference-day-used", want_s, got_s);
                }
            }
            let sig = match (&want, &gotf) {
                (Ok(_), Some(g)) if g[2..].iter().any(|v| *v != 0.0) => "C18/ym.diff/day-or-week-part",
                (Ok(_), Some(_)) => "C18/ym.diff/mismatch",
                (Ok(_), None) => "C18/ym.diff/unexpected-error",
                _ => "C18/ym.diff/accepted",
            };
            return o.fail(sig, want_s, got_s);
        }
        // model-free law on canonical operands without rounding: a + (a until b) == b, canonical
        if let (Ok(dur), false, false, false) = (&got, rounding, hidden, min_involved) {
            let back = if c.since { pa.subtract(dur, ArithmeticOverflow::Constrain) } else { pa.add(dur, ArithmeticOverflow::Constrain) };
            let canon_b = canon_ym(c.b.y, c.b.m).ok();
            judge_ym(&mut o, "C18/ym.diff/law-add-until", &back, Some((c.b.y, c.b.m, 1)), canon_b.as_ref());
        }
        o
    }
}

fn ym_pair() -> BoxedStrategy<(i64, i64)> {
    let near = (
        ym_idx(),
        prop_oneof![(-3i64..=3).boxed(), (-40i64..=40).boxed(), (-40i64..=40).prop_map(|k| k * 12).boxed(), (-3000i64..=3000).boxed(), (-7_000_000i64..=7_000_000).boxed()],
    )
        .prop_map(|(a, d)| (a, (a + d).clamp(MIN_IDX, MAX_IDX)));
    gen::boxed_union(vec![(3, near.boxed()), (2, (ym_idx(), ym_idx()).boxed())])
}

pub fn ym_diff_case() -> BoxedStrategy<YmDiffCase> {
    let largest = prop_oneof![8 => Just(OptUnit::Absent), 3 => Just(OptUnit::Auto), 8 => Just(OptUnit::Is(U::Year)), 6 => Just(OptUnit::Is(U::Month)),
        1 => prop_oneof![Just(U::Week), Just(U::Day)].prop_map(OptUnit::Is), 1 => gen::unit_in(4, 9).prop_map(OptUnit::Is)];
    let smallest = prop_oneof![9 => Just(OptUnit::Absent), 8 => Just(OptUnit::Is(U::Year)), 8 => Just(OptUnit::Is(U::Month)),
        1 => prop_oneof![Just(U::Week), Just(U::Day)].prop_map(OptUnit::Is), 1 => prop_oneof![3 => gen::unit_in(4, 9).prop_map(OptUnit::Is), 1 => Just(OptUnit::Auto)]];
    let inc = prop_oneof![4 => Just(None), 2 => Just(Some(1u32)), 4 => (2u32..=13).prop_map(Some), 2 => (14u32..=2000).prop_map(Some),
        1 => prop_oneof![Just(600_000u32), Just(1_000_000_000u32), 100_000u32..=7_000_000].prop_map(Some)];
    let md = prop_oneof![1 => Just(None), 5 => gen::mode().prop_map(Some)];
    (ym_pair(), (0u8..8, 1u8..=31, 0u8..8, 1u8..=31, prop::bool::weighted(0.4)), largest, smallest, inc, md, any::<bool>())
        .prop_map(|((ia, ib), (ka, ra, kb, rb, with_hidden), largest, smallest, inc, mode, since)| {
            let (ay, am) = from_midx(ia);
            let (by, bm) = from_midx(ib);
            // 60 %: both operands canonical (None or an explicit 1), so the arithmetic itself is compared
            let (ka, kb) = if with_hidden { (ka, kb) } else { (ka % 2 * 4, kb % 2 * 4) };
            YmDiffCase {
                a: YmRef { y: ay, m: am, refday: refday_for(ay, am, ka, ra) },
                b: YmRef { y: by, m: bm, refday: refday_for(by, bm, kb, rb) },
                largest,
                smallest,
                inc,
                mode,
                since,
            }
        })
        .boxed()
}

// ------------------------------------------------------------------------------------------
// ym-diff-cal: until / since between year-months of one non-ISO calendar

#[derive(Serialize, Deserialize, Debug, Clone)]
pub struct YmCalDiffCase {
    pub cal: u8,
    /// epoch days of two ISO dates; the operands are the year-months of these dates in the calendar
    pub a: i64,
    pub b: i64,
    pub largest: OptUnit,
    pub since: bool,
}
pub struct YmCalDiffSub;

pub const NON_ISO_CALS: [&str; 16] = [
    "gregory", "japanese", "buddhist", "chinese", "coptic", "dangi", "ethioaa", "ethiopic", "hebrew", "indian", "islamic", "islamic-civil", "islamic-tbla", "islamic-umalqura",
    "persian", "roc",
];

impl SubCheck for YmCalDiffSub {
    type Case = YmCalDiffCase;
    fn name(&self) -> &'static str {
        "ym-diff-cal"
    }
    fn eval(&self, c: &YmCalDiffCase) -> Outcome {
        let name = NON_ISO_CALS[c.cal as usize % NON_ISO_CALS.len()];
        let cal = temporal_rs::Calendar::from_str(name).expect("calendar");
        let mut o = Outcome::pass().class(name);
        let ym_of = |n: i64| -> Option<PlainYearMonth> {
            // (PlainDate::to_plain_year_month fails in every non-ISO calendar and records with an era are refused in
            // most: C16's listed findings. The year + month code record is the route that works.)
            let (y, m, d) = from_days(n);
            let date = PlainDate::try_new(y as i32, m, d, cal.clone()).ok()?;
            let rec = PartialDate::new().with_year(Some(date.year())).with_month_code(Some(date.month_code())).with_calendar(cal.clone());
            let ym = PlainYearMonth::from_partial(rec, ArithmeticOverflow::Constrain).ok()?;
            // only year-months that are the month of the date they came from (ethioaa reads the year as an era year: C16)
            (ym.year() == date.year() && ym.month_code() == date.month_code()).then_some(ym)
        };
        let (pa, pb) = match (ym_of(c.a), ym_of(c.b)) {
            (Some(a), Some(b)) => (a, b),
            _ => return o.class("operand-not-constructible"),
        };
        // a calendar month is named by year and month code (the ordinal `month()` of leap months is a listed C16 finding);
        // the order of two of them is the order of their first days
        let key = |p: &PlainYearMonth| (p.year(), p.month_code().as_str().to_string());
        let (ka, kb) = (key(&pa), key(&pb));
        // the hidden ISO day is visible only in the print of a non-ISO year-month (`2011-01-06[u-ca=hebrew]`)
        let first = |p: &PlainYearMonth| {
            let s = p.to_string();
            let day = s.split('[').next().and_then(|d| d.rsplit('-').next()).and_then(|d| d.parse::<u8>().ok()).unwrap_or(1);
            to_days(p.iso_year() as i64, p.iso_month(), day)
        };
        let (fa, fb) = (first(&pa), first(&pb));
        let same_iso_month = {
            let (x, y) = (from_days(c.a), from_days(c.b));
            (x.0, x.1) == (y.0, y.1)
        };
        o = o.nontrivial(ka != kb);
        if ka != kb && same_iso_month {
            o = o.class("distinct-calendar-months-inside-one-ISO-month");
        }
        if ka == kb && !same_iso_month {
            o = o.class("one-calendar-month-across-two-ISO-months").nontrivial(true);
        }
        let st = diff_settings(c.largest.to_api(), None, None, None);
        let got = if c.since { pa.since(&pb, st) } else { pa.until(&pb, st) };
        let got_s = match &got {
            Ok(d) => format!("Ok({:?})", &duration_fields(d)[..4]),
            Err(e) => err_str(e),
        };
        let ctx_s = format!("{} {:?} -> {:?}", name, ka, kb);
        if ka == kb {
            return match &got {
                Ok(d) if duration_fields(d).iter().all(|v| *v == 0.0) => o,
                _ => o.fail("C18/ym.diff.cal/same-month-not-zero", format!("zero duration ({ctx_s})"), got_s),
            };
        }
        match &got {
            Err(e) if e.kind() == ErrorKind::Range && err_str(e).contains("Not yet implemented") => {
                // non-ISO CalendarDateUntil is a missing feature of the crate (listed finding)
                o.fail("C18/ym.diff.cal/non-iso-date-until-not-implemented", format!("a non-zero count of months ({ctx_s})"), got_s)
            }
            Err(_) => o.fail("C18/ym.diff.cal/unexpected-error", format!("a non-zero count of months ({ctx_s})"), got_s),
            Ok(d) => {
                let f = duration_fields(d);
                let want_sign = if (fb > fa) != c.since { 1.0 } else { -1.0 };
                let sign = f.iter().copied().find(|v| *v != 0.0).map(f64::signum).unwrap_or(0.0);
                if sign == 0.0 {
                    return o.fail("C18/ym.diff.cal/zero-for-distinct-months", format!("a non-zero count of months ({ctx_s})"), got_s);
                }
                if sign != want_sign {
                    return o.fail("C18/ym.diff.cal/sign", format!("sign {want_sign} ({ctx_s})"), got_s);
                }
                if f[2..].iter().any(|v| *v != 0.0) {
                    return o.fail("C18/ym.diff.cal/day-or-week-part", format!("years and months only ({ctx_s})"), got_s);
                }
                // largest unit month: the number of calendar months between the two = the number of first-of-months
                // passed on the way from the earlier first day to the later one
                if matches!(c.largest, OptUnit::Is(U::Month)) {
                    let (lo, hi) = (fa.min(fb), fa.max(fb));
                    let mut n = 0i64;
                    let mut ok = true;
                    for day in lo + 1..=hi {
                        let (y, m, d) = from_days(day);
                        match PlainDate::try_new(y as i32, m, d, cal.clone()) {
                            Ok(p) => n += (p.day() == 1) as i64,
                            Err(_) => ok = false,
                        }
                    }
                    if ok {
                        let want = n as f64 * want_sign;
                        if !(f[0] == 0.0 && f[1] == want) {
                            return o.fail("C18/ym.diff.cal/month-count", format!("{want} months ({ctx_s})"), got_s);
                        }
                    }
                }
                o
            }
        }
    }
}

pub fn ym_cal_diff_case() -> BoxedStrategy<YmCalDiffCase> {
    let largest = prop_oneof![3 => Just(OptUnit::Absent), 1 => Just(OptUnit::Auto), 3 => Just(OptUnit::Is(U::Year)), 4 => Just(OptUnit::Is(U::Month))];
    // ISO dates 1900..2100 (every calendar's arithmetic is well inside its supported range there)
    let a = -25_000i64..=47_000;
    let delta = prop_oneof![4 => -35i64..=35, 3 => -400i64..=400, 1 => -1500i64..=1500];
    (0u8..NON_ISO_CALS.len() as u8, a, delta, largest, any::<bool>()).prop_map(|(cal, a, d, largest, since)| YmCalDiffCase { cal, a, b: a + d, largest, since }).boxed()
}

// ------------------------------------------------------------------------------------------
// md-routes

#[derive(Serialize, Deserialize, Debug, Clone)]
pub struct MdRouteCase {
    pub m: u8,
    pub d: u8,
    /// year used by the routes that go through a full date; (y, m, d) is a valid date
    pub y: i64,
    pub ns: i128,
    pub off_min: i32,
    pub sep: u8,
    pub zone: u8,
}
pub struct MdRouteSub;

impl SubCheck for MdRouteSub {
    type Case = MdRouteCase;
    fn name(&self) -> &'static str {
        "md-routes"
    }
    fn eval(&self, c: &MdRouteCase) -> Outcome {
        let (m, d, y) = (c.m, c.d, c.y);
        let want = Some((1972i64, m, d));
        let feb29 = m == 2 && d == 29;
        let mut o = Outcome::pass().nontrivial(y != 1972 || c.ns != 0 || feb29).class(if feb29 { "feb-29" } else { "other-day" });
        if y != 1972 {
            o = o.class("route-year!=1972");
        }
        if c.ns != 0 {
            o = o.class("route-time!=0");
        }
        let canon = PlainMonthDay::new_with_overflow(m, d, iso(), ArithmeticOverflow::Reject, None);
        judge_md(&mut o, "C18/md.route/ctor-none-reject", &canon, want, None);
        let cref = canon.as_ref().ok();
        judge_md(&mut o, "C18/md.route/ctor-none-constrain", &PlainMonthDay::new_with_overflow(m, d, iso(), ArithmeticOverflow::Constrain, None), want, cref);
        judge_md(&mut o, "C18/md.route/ctor-ref-1972", &PlainMonthDay::new_with_overflow(m, d, iso(), ArithmeticOverflow::Reject, Some(1972)), want, cref);
        // strings
        judge_md(&mut o, "C18/md.route/str-short", &PlainMonthDay::from_str(&format!("{:02}-{:02}", m, d)), want, cref);
        judge_md(&mut o, "C18/md.route/str-dashes", &PlainMonthDay::from_str(&format!("--{:02}-{:02}", m, d)), want, cref);
        judge_md(&mut o, "C18/md.route/str-basic", &PlainMonthDay::from_str(&format!("{:02}{:02}", m, d)), want, cref);
        judge_md(&mut o, "C18/md.route/str-dashes-basic", &PlainMonthDay::from_str(&format!("--{:02}{:02}", m, d)), want, cref);
        judge_md(&mut o, "C18/md.route/str-short-calendar", &PlainMonthDay::from_str(&format!("{:02}-{:02}[u-ca=iso8601]", m, d)), want, cref);
        judge_md(&mut o, "C18/md.route/str-short-calendar-upper-case", &PlainMonthDay::from_str(&format!("{:02}-{:02}[u-ca=ISO8601]", m, d)), want, cref);
        judge_md(&mut o, "C18/md.route/str-short-calendar-critical", &PlainMonthDay::from_str(&format!("--{:02}-{:02}[!u-ca=Iso8601]", m, d)), want, cref);
        let s_date = rfmt::date(y, m, d);
        judge_md(&mut o, "C18/md.route/str-date", &PlainMonthDay::from_str(&s_date), want, cref);
        judge_md(&mut o, "C18/md.route/str-date-basic", &PlainMonthDay::from_str(&format!("{}{:02}{:02}", rfmt::year(y), m, d)), want, cref);
        let s_dt = format!("{}{}", s_date, dt_tail(c.ns, c.sep, Some(c.off_min), c.zone, c.sep % 2 == 0));
        judge_md(&mut o, "C18/md.route/str-datetime-offset", &PlainMonthDay::from_str(&s_dt), want, cref);
        let s_dt2 = format!("{}{}", s_date, dt_tail(c.ns, c.sep.wrapping_add(1), None, c.zone.wrapping_add(1), c.sep % 2 == 1));
        judge_md(&mut o, "C18/md.route/str-datetime", &PlainMonthDay::from_str(&s_dt2), want, cref);
        // from a date
        match PlainDate::try_new(y as i32, m, d, iso()) {
            Ok(pd) => judge_md(&mut o, "C18/md.route/from-date", &pd.to_plain_month_day(), want, cref),
            Err(e) => set_fail(&mut o, "C18/md.route/from-date/date-construct".into(), "valid date".into(), err_str(&e)),
        }
        // field records with a year (the day is judged in that year, the result carries 1972)
        let yi = y as i32;
        for reject in [false, true] {
            let p = PartialDate { year: Some(yi), month: Some(m), day: Some(d), ..Default::default() };
            judge_md(&mut o, "C18/md.route/partial-year+month", &iso().month_day_from_partial(&p, ovf(reject)), want, cref);
            let p = PartialDate { year: Some(yi), month_code: Some(month_code(m)), day: Some(d), ..Default::default() };
            judge_md(&mut o, "C18/md.route/partial-year+month-code", &iso().month_day_from_partial(&p, ovf(reject)), want, cref);
            let p = PartialDate { year: Some(yi), month: Some(m), month_code: Some(month_code(m)), day: Some(d), ..Default::default() };
            judge_md(&mut o, "C18/md.route/partial-year+month+code", &iso().month_day_from_partial(&p, ovf(reject)), want, cref);
        }
        // LAST (a recorded defect lives here): field records without a year - the ISO calendar needs none
        if !o.failed() {
            for (label, p) in [
                ("C18/md.route/partial-month", PartialDate { month: Some(m), day: Some(d), ..Default::default() }),
                ("C18/md.route/partial-month-code", PartialDate { month_code: Some(month_code(m)), day: Some(d), ..Default::default() }),
            ] {
                let got = iso().month_day_from_partial(&p, ArithmeticOverflow::Reject);
                judge_md_record_without_year(&mut o, label, &got, want, cref);
            }
        }
        o
    }
}

/// field record without year: defect model = TypeError "Required fields missing to determine an era and year."
fn judge_md_record_without_year(o: &mut Outcome, label: &str, got: &TemporalResult<PlainMonthDay>, want: Option<(i64, u8, u8)>, canon: Option<&PlainMonthDay>) {
    if o.failed() {
        return;
    }
    if let Err(e) = got {
        if e.kind() == ErrorKind::Type && e.message().contains("era and year") {
            let exp = match want {
                Some(w) => want_md_prints(w.0, w.1, w.2)[2].clone(),
                None => "RangeError".into(),
            };
            return set_fail(o, "C18/md.partial/record-without-year-is-TypeError".into(), exp, show_md(got));
        }
    }
    judge_md(o, label, got, want, canon);
}

const MD_YEARS: [i64; 12] = [1972, 1973, 2024, 2023, 2000, 1900, 0, -1, 9999, 10000, -271820, 275759];

fn md_route_cases(seed: u64) -> Vec<MdRouteCase> {
    let mut v = vec![];
    for m in 1u8..=12 {
        for d in 1u8..=dim(1972, m) {
            for (yi, y) in MD_YEARS.iter().enumerate() {
                if d > dim(*y, m) {
                    continue;
                }
                for k in 0..3u64 {
                    let h = hash64(&[seed.to_le_bytes(), [m, d, yi as u8, k as u8, 0, 0, 0, 0]].concat());
                    let ns = match k {
                        0 => 0,
                        1 => NS_PER_DAY - 1 - (h % 1000) as i128,
                        _ => (h >> 8) as i128 % NS_PER_DAY,
                    };
                    v.push(MdRouteCase { m, d, y: *y, ns, off_min: ((h >> 40) % 2879) as i32 - 1439, sep: (h >> 52) as u8 % 6, zone: (h >> 56) as u8 % 4 });
                }
            }
        }
    }
    v
}

// ------------------------------------------------------------------------------------------
// md-ctor: impossible days / months, overflow, explicit reference year, field records

#[derive(Serialize, Deserialize, Debug, Clone)]
pub struct MdCtorCase {
    pub m: u8,
    pub d: u8,
    pub reject: bool,
    pub ref_year: Option<i64>,
    /// year of the field-record route (None = record without year)
    pub rec_year: Option<i64>,
}
pub struct MdCtorSub;

impl SubCheck for MdCtorSub {
    type Case = MdCtorCase;
    fn name(&self) -> &'static str {
        "md-ctor"
    }
    fn eval(&self, c: &MdCtorCase) -> Outcome {
        let ry = c.ref_year.unwrap_or(1972);
        let possible = regulate(1972, c.m, c.d, true).is_some();
        let mut o = Outcome::pass().nontrivial(c.ref_year.is_some() || !possible || (c.m == 2 && c.d == 29)).class(if c.reject { "reject" } else { "constrain" });
        o = o.class(if possible { "possible-in-1972" } else { "impossible-in-1972" });
        if c.ref_year.is_some() {
            o = o.class("explicit-reference-year");
        }
        if c.m == 2 && c.d == 29 {
            o = o.class("feb-29");
        }
        // low-level constructor: RegulateISODate(referenceYear ?? 1972, month, day, overflow), then the date limits
        let want = regulate(ry, c.m, c.d, c.reject).and_then(|(m2, d2)| if date_in_range(to_days(ry, m2, d2)) { Some((ry, m2, d2)) } else { None });
        let canon = want.and_then(|(_, m2, d2)| PlainMonthDay::new_with_overflow(m2, d2, iso(), ArithmeticOverflow::Reject, None).ok());
        let got = PlainMonthDay::new_with_overflow(c.m, c.d, iso(), ovf(c.reject), c.ref_year.map(|v| v as i32));
        judge_md(&mut o, "C18/md.ctor/new_with_overflow", &got, want, canon.as_ref());

        // the string routes have no overflow option: an impossible month-day (judged in the leap reference year for
        // the short forms, in its own year for full dates) is a RangeError
        if c.m <= 99 && c.d <= 99 && !c.reject {
            let want_s = regulate(1972, c.m, c.d, true).map(|(a, b)| (1972i64, a, b));
            let canon_s = want_s.and_then(|(_, a, b)| PlainMonthDay::new_with_overflow(a, b, iso(), ArithmeticOverflow::Reject, None).ok());
            judge_md(&mut o, "C18/md.ctor/str-short", &PlainMonthDay::from_str(&format!("{:02}-{:02}", c.m, c.d)), want_s, canon_s.as_ref());
            judge_md(&mut o, "C18/md.ctor/str-dashes-basic", &PlainMonthDay::from_str(&format!("--{:02}{:02}", c.m, c.d)), want_s, canon_s.as_ref());
            let fy = c.rec_year.unwrap_or(1972);
            let want_f = regulate(fy, c.m, c.d, true).map(|(a, b)| (1972i64, a, b));
            judge_md(&mut o, "C18/md.ctor/str-date", &PlainMonthDay::from_str(&format!("{}-{:02}-{:02}", rfmt::year(fy), c.m, c.d)), want_f, canon_s.as_ref());
        }
        // field record {year?, month, day}: the day is regulated in the record's year (1972 without one), the result
        // carries reference year 1972 (CalendarMonthDayToISOReferenceDate)
        if c.m == 0 || c.d == 0 {
            o.unjudged = true;
            o = o.class("record-month-or-day-0:unjudged");
            let _ = iso().month_day_from_partial(&PartialDate { year: c.rec_year.map(|v| v as i32), month: Some(c.m), day: Some(c.d), ..Default::default() }, ovf(c.reject));
            return o;
        }
        let wy = c.rec_year.unwrap_or(1972);
        let want_rec = regulate(wy, c.m, c.d, c.reject).map(|(m2, d2)| (1972i64, m2, d2));
        let canon_rec = want_rec.and_then(|(_, m2, d2)| PlainMonthDay::new_with_overflow(m2, d2, iso(), ArithmeticOverflow::Reject, None).ok());
        let p = PartialDate { year: c.rec_year.map(|v| v as i32), month: Some(c.m), day: Some(c.d), ..Default::default() };
        let got = iso().month_day_from_partial(&p, ovf(c.reject));
        if c.rec_year.is_none() {
            judge_md_record_without_year(&mut o, "C18/md.ctor/partial-month", &got, want_rec, canon_rec.as_ref());
        } else {
            judge_md(&mut o, "C18/md.ctor/partial-year+month", &got, want_rec, canon_rec.as_ref());
            // month code route: codes M01..M12 only exist; M13+ is a RangeError in both modes
            if c.m <= 99 {
                let want_code = if c.m <= 12 { want_rec } else { None };
                let p = PartialDate { year: c.rec_year.map(|v| v as i32), month_code: Some(month_code(c.m)), day: Some(c.d), ..Default::default() };
                judge_md(&mut o, "C18/md.ctor/partial-year+month-code", &iso().month_day_from_partial(&p, ovf(c.reject)), want_code, canon_rec.as_ref());
            }
        }
        o
    }
}

fn md_ctor_cases() -> Vec<MdCtorCase> {
    let mut v = vec![];
    let months: Vec<u8> = (0u8..=14).chain([255u8]).collect();
    let days: Vec<u8> = (0u8..=33).chain([255u8]).collect();
    let refs: [Option<i64>; 9] = [None, Some(1972), Some(1973), Some(2000), Some(1900), Some(-271821), Some(275760), Some(-271822), Some(275761)];
    let recs: [Option<i64>; 3] = [None, Some(1972), Some(2023)];
    for m in &months {
        for d in &days {
            for reject in [false, true] {
                for (i, r) in refs.iter().enumerate() {
                    // the record route does not depend on the reference year: the three record years rotate
                    v.push(MdCtorCase { m: *m, d: *d, reject, ref_year: *r, rec_year: recs[i % 3] });
                }
            }
        }
    }
    v
}

// ------------------------------------------------------------------------------------------
// md-with

#[derive(Serialize, Deserialize, Debug, Clone)]
pub struct MdWithCase {
    pub m: u8,
    pub d: u8,
    pub pm: Option<u8>,
    pub pd: Option<u8>,
    pub py: Option<i64>,
    pub reject: bool,
}
pub struct MdWithSub;
impl SubCheck for MdWithSub {
    type Case = MdWithCase;
    fn name(&self) -> &'static str {
        "md-with"
    }
    fn eval(&self, c: &MdWithCase) -> Outcome {
        let mut o = Outcome::pass().nontrivial(true);
        let recv = match PlainMonthDay::new_with_overflow(c.m, c.d, iso(), ArithmeticOverflow::Reject, None) {
            Ok(v) => v,
            Err(e) => return o.fail("C18/md.with/receiver-construct", "valid month-day", err_str(&e)),
        };
        let p = PartialDate { year: c.py.map(|v| v as i32), month: c.pm, day: c.pd, ..Default::default() };
        let got = recv.with(p, ovf(c.reject));
        if let Err(e) = &got {
            if e.kind() == ErrorKind::Generic && e.message().contains("Not yet implemented") {
                o.unjudged = true;
                return o.class("with:not-implemented:unjudged");
            }
        }
        // merge: record fields win, the receiver supplies month and day, the year is only used to judge the day
        let (m2, d2) = (c.pm.unwrap_or(c.m), c.pd.unwrap_or(c.d));
        let want = regulate(c.py.unwrap_or(1972), m2, d2, c.reject).map(|(a, b)| (1972i64, a, b));
        let canon = want.and_then(|(_, a, b)| PlainMonthDay::new_with_overflow(a, b, iso(), ArithmeticOverflow::Reject, None).ok());
        judge_md(&mut o, "C18/md.with", &got, want, canon.as_ref());
        o.class("with:implemented")
    }
}
fn md_with_cases() -> Vec<MdWithCase> {
    let mut v = vec![];
    for (m, d) in [(2u8, 29u8), (1, 31), (12, 31), (4, 30), (2, 28)] {
        for pm in [None, Some(1u8), Some(2), Some(4), Some(12), Some(13)] {
            for pd in [None, Some(1u8), Some(28), Some(29), Some(30), Some(31), Some(32)] {
                for py in [None, Some(2023i64), Some(2024)] {
                    if pm.is_none() && pd.is_none() {
                        continue; // a record without any month-day field is C17's business
                    }
                    for reject in [false, true] {
                        v.push(MdWithCase { m, d, pm, pd, py, reject });
                    }
                }
            }
        }
    }
    v
}

// ------------------------------------------------------------------------------------------

pub fn run(ctx: &mut Ctx) {
    ctx.rule = "ym-routes: every year-month of -271823-01..+275762-12 (thorough: all 6.6e6; quick: every 17th plus dense windows at both limits, year 0, 9999/10000, 1970-2030), each built through 25+ routes (4 short strings, full date / basic date / 2 date-time strings with a seed-derived day, time, offset, separator and annotations, PlainDate::to_plain_year_month, from_partial x3 x2 overflow, Calendar::year_month_from_partial, new_with_overflow None/Some(1), with x5 on receivers that carry a hidden day, record with a day) and compared with the canonical value (==, compare_iso, four DisplayCalendar prints, Display, month code) or RangeError outside the limits, plus a proptest stream of the same case type; ym-ctor: RegulateISODate + limits for explicit reference days 0..=255, months 0..=255, both overflow modes (enumerated block + generated years incl. i32 extremes); ym-add: generated (receiver with optional explicit reference day, valid duration up to 5.5e5 years / 6.6e6 months both signs, half of them aimed at a chosen target month, overflow, add|subtract) against AddISODate from day 1; ym-diff: generated pairs (near/far, up to the whole range) x largest/smallest/increment/mode/until|since against DifferenceISODate / exact-progress rounding between the first-of-months, option matrix incl. week/day/time/auto units; md-routes: all 366 month-days x 12 route years x 3 times (exhaustive) through 20 routes; md-ctor: months 0..=14,255 x days 0..=33,255 x overflow x 9 reference years x field records (exhaustive); md-with. non-trivial = the route goes through a day != 1 or a time != 00:00 (month-days: a year != 1972), an explicit reference is given, the month or the result lies within a year of a limit (or outside), week/day/time units or rounding are involved, or February 29.".into();
    ctx.assumptions.push("add with non-zero weeks/days/time units: a RangeError, or a canonical month equal to date arithmetic from day 1 (negative durations: also from the last day, the earlier draft rule) is accepted; only non-canonical or miscounted results are flagged (Temporal changed this rule between drafts)".into());
    ctx.assumptions.push("arithmetic that starts from, ends at or compares with -271821-04: the first of that month is not a representable date, Temporal answers RangeError (CalendarDateFromFields / CalendarDateAdd); the check accepts RangeError or the exact month count there".into());
    ctx.assumptions.push("explicit reference: equal to the canonical value iff the chosen hidden part is the canonical one (day 1 / year 1972), as Temporal's equals compares the whole ISO date; short prints never show it, always/critical prints show it".into());
    ctx.note("unjudged: month 0 / day 0 inside a field record (Temporal refuses them before the overflow option; the Rust record is a bare u8); PlainMonthDay::with while it returns 'Not yet implemented'; day units added to -271821-04; rounding with a -271821-04 operand where the model itself has no value");
    let t = ctx.tier;
    let seed = ctx.seed;

    // ym-routes: walk
    let lo = midx(-271823, 1);
    let hi = midx(275762, 12);
    if t == Tier::Thorough {
        let n = (hi - lo + 1) as u64;
        ctx.run_enum(&YmRouteSub, n, &|i| ym_route_case_at(lo + i as i64, seed, 0), true);
    } else {
        let mut idx: Vec<i64> = (lo..=hi).step_by(17).collect();
        for (a, b) in [(lo, MIN_IDX + 120), (MAX_IDX - 120, hi), (midx(-2, 1), midx(2, 12)), (midx(9998, 1), midx(10001, 12)), (midx(1970, 1), midx(2030, 12))] {
            idx.extend(a..=b);
        }
        let n = idx.len() as u64;
        ctx.run_enum(&YmRouteSub, n, &|i| ym_route_case_at(idx[i as usize], seed, 1), false);
    }
    ctx.run_prop(&YmRouteSub, &ym_route_case, t.pick(150_000, 2_000_000));

    // ym-ctor: enumerated block + generated
    let ys: [i64; 7] = [1972, 2023, 2024, -271821, 275760, -271822, 275761];
    let n_block = ys.len() as u64 * 16 * 36 * 2;
    ctx.run_enum(
        &YmCtorSub,
        n_block,
        &|i| {
            let reject = i % 2 == 1;
            let r = (i / 2) % 36; // 0 = None, 1..=34 = Some(0..=33), 35 = Some(255)
            let mi = (i / 72) % 16; // 0..=14, 15 = 255
            let y = ys[(i / (72 * 16)) as usize];
            YmCtorCase { y, m: if mi == 15 { 255 } else { mi as u8 }, refday: if r == 0 { None } else if r == 35 { Some(255) } else { Some((r - 1) as u8) }, reject }
        },
        false,
    );
    ctx.run_prop(&YmCtorSub, &ym_ctor_case, t.pick(300_000, 5_000_000));

    ctx.run_prop(&YmAddSub, &ym_add_case, t.pick(3_000_000, 20_000_000));
    ctx.run_prop(&YmDiffSub, &ym_diff_case, t.pick(2_500_000, 20_000_000));
    ctx.run_prop(&YmCalDiffSub, &ym_cal_diff_case, t.pick(200_000, 3_000_000));

    let mds = md_route_cases(seed);
    ctx.run_enum(&MdRouteSub, mds.len() as u64, &|i| mds[i as usize].clone(), true);
    let mdc = md_ctor_cases();
    ctx.run_enum(&MdCtorSub, mdc.len() as u64, &|i| mdc[i as usize].clone(), true);
    let mdw = md_with_cases();
    ctx.run_enum(&MdWithSub, mdw.len() as u64, &|i| mdw[i as usize].clone(), true);
}

pub fn replay(ctx: &mut Ctx, sub: &str, case: &Value) -> bool {
    match sub {
        "ym-routes" => ctx.replay_case(&YmRouteSub, case),
        "ym-ctor" => ctx.replay_case(&YmCtorSub, case),
        "ym-add" => ctx.replay_case(&YmAddSub, case),
        "ym-diff" => ctx.replay_case(&YmDiffSub, case),
        "ym-diff-cal" => ctx.replay_case(&YmCalDiffSub, case),
        "md-routes" => ctx.replay_case(&MdRouteSub, case),
        "md-ctor" => ctx.replay_case(&MdCtorSub, case),
        "md-with" => ctx.replay_case(&MdWithSub, case),
        _ => false,
    }
}
