//! C09 - durations form a consistent signed quantity without a reference date.

use crate::chk;
use crate::conv::*;
use crate::gen;
use crate::refm::dur::*;
use crate::refm::exact::{ratio_to_f64, ulp_distance};
use crate::refm::round::{round_int, Mode};
use crate::run::*;
use crate::tzp::TableProvider;
use proptest::prelude::*;
use serde::{Deserialize, Serialize};
use serde_json::Value;
use std::cmp::Ordering;
use temporal_rs::error::ErrorKind;
use temporal_rs::options::Unit;
use temporal_rs::partial::PartialDuration;
use temporal_rs::{Duration, Sign};

// ------------------------------------------------------------------------------------------
// validity of ten integral doubles

#[derive(Serialize, Deserialize, Debug, Clone)]
pub struct NewCase {
    pub f: [f64; 10],
    /// bit i set: field i is supplied to from_partial_duration (others absent)
    pub mask: u16,
}
pub struct NewSub;
impl SubCheck for NewSub {
    type Case = NewCase;
    fn name(&self) -> &'static str {
        "new"
    }
    fn eval(&self, c: &NewCase) -> Outcome {
        let want = valid_f64s(&c.f);
        let nz = c.f.iter().filter(|v| **v != 0.0).count();
        let big = c.f.iter().any(|v| v.abs() >= 2147483648.0);
        let neg = c.f.iter().any(|v| *v < 0.0);
        let near = Dur::from_f64s(&c.f).map(|d| (d.time_ns_with_days().abs() - MAX_TIME_NS).abs() <= 1_000_000_000).unwrap_or(false);
        let mut o = Outcome::pass().nontrivial(nz >= 2 || big || near || neg);
        o = o.class(if want { "valid" } else { "invalid" });
        if near {
            o = o.class("within-1s-of-2^53s");
        }
        if big {
            o = o.class("field>=2^31");
        }
        let mixed = c.f.iter().any(|v| *v > 0.0) && c.f.iter().any(|v| *v < 0.0);
        if mixed {
            o = o.class("mixed-signs");
        }
        let got = duration_from_f64s(&c.f);
        match &got {
            Ok(d) => {
                chk!(o, want, "C09/new/accepted-invalid", "RangeError", c.f);
                chk!(o, fields_eq(&duration_fields(d), &c.f), "C09/new/fields-altered", c.f, duration_fields(d));
                // sign / negated / abs / is_zero behave as on signed numbers
                let s = c.f.iter().find(|v| **v != 0.0).map(|v| v.signum()).unwrap_or(0.0);
                let ws = if s > 0.0 { Sign::Positive } else if s < 0.0 { Sign::Negative } else { Sign::Zero };
                chk!(o, d.sign() == ws, "C09/sign", format!("{ws:?}"), format!("{:?}", d.sign()));
                chk!(o, d.is_zero() == (s == 0.0), "C09/is_zero", s == 0.0, d.is_zero());
                let neg: Vec<f64> = c.f.iter().map(|v| -*v).collect();
                let gn = duration_fields(&d.negated());
                chk!(o, gn.iter().zip(neg.iter()).all(|(a, b)| a == b), "C09/negated", neg, gn);
                let gnn = duration_fields(&d.negated().negated());
                chk!(o, fields_eq(&gnn, &c.f), "C09/negated-twice", c.f, gnn);
                let ab: Vec<f64> = c.f.iter().map(|v| v.abs()).collect();
                let ga = duration_fields(&d.abs());
                chk!(o, ga.iter().zip(ab.iter()).all(|(a, b)| a == b), "C09/abs", ab, ga);
            }
            Err(e) => {
                chk!(o, !want, "C09/new/rejected-valid", "Ok", err_str(e));
                chk!(o, e.kind() == ErrorKind::Range, "C09/new/error-kind", "Range", err_str(e));
            }
        }
        // the part constructors decide validity by the same rule (the other part taken as zero)
        {
            let mut tf = [0.0f64; 10];
            tf[4..].copy_from_slice(&c.f[4..]);
            let wt = valid_f64s(&tf);
            let r = temporal_rs::TimeDuration::new(ff(c.f[4]), ff(c.f[5]), ff(c.f[6]), ff(c.f[7]), ff(c.f[8]), ff(c.f[9]));
            match r {
                Ok(t) => {
                    chk!(o, wt, "C09/TimeDuration::new/accepted-invalid", "RangeError", tf);
                    let g = [t.hours.as_inner(), t.minutes.as_inner(), t.seconds.as_inner(), t.milliseconds.as_inner(), t.microseconds.as_inner(), t.nanoseconds.as_inner()];
                    chk!(o, g.iter().zip(c.f[4..].iter()).all(|(a, b)| a == b), "C09/TimeDuration::new/fields-altered", tf, g);
                }
                Err(e) => chk!(o, !wt && e.kind() == ErrorKind::Range, "C09/TimeDuration::new/error", if wt { "Ok" } else { "RangeError" }, err_str(&e)),
            }
            let mut df = [0.0f64; 10];
            df[..4].copy_from_slice(&c.f[..4]);
            let wd = valid_f64s(&df);
            match temporal_rs::DateDuration::new(ff(c.f[0]), ff(c.f[1]), ff(c.f[2]), ff(c.f[3])) {
                Ok(d) => {
                    chk!(o, wd, "C09/DateDuration::new/accepted-invalid", "RangeError", df);
                    let g = [d.years.as_inner(), d.months.as_inner(), d.weeks.as_inner(), d.days.as_inner()];
                    chk!(o, g.iter().zip(c.f[..4].iter()).all(|(a, b)| a == b), "C09/DateDuration::new/fields-altered", df, g);
                }
                Err(e) => chk!(o, !wd && e.kind() == ErrorKind::Range, "C09/DateDuration::new/error", if wd { "Ok" } else { "RangeError" }, err_str(&e)),
            }
        }
        // partial: absent fields are zero; all absent -> TypeError
        let mut p = PartialDuration::default();
        let mut g = [0.0f64; 10];
        for i in 0..10 {
            if c.mask & (1 << i) != 0 {
                g[i] = c.f[i];
                let v = Some(ff(c.f[i]));
                match i {
                    0 => p.years = v,
                    1 => p.months = v,
                    2 => p.weeks = v,
                    3 => p.days = v,
                    4 => p.hours = v,
                    5 => p.minutes = v,
                    6 => p.seconds = v,
                    7 => p.milliseconds = v,
                    8 => p.microseconds = v,
                    _ => p.nanoseconds = v,
                }
            }
        }
        let r = Duration::from_partial_duration(p);
        if c.mask & 0x3ff == 0 {
            match r {
                Err(e) if e.kind() == ErrorKind::Type => {}
                other => o = o.fail("C09/from_partial/empty", "TypeError", format!("{:?}", other.map(|d| duration_fields(&d)).map_err(|e| err_str(&e)))),
            }
        } else {
            let wv = valid_f64s(&g);
            match r {
                Ok(d) => {
                    chk!(o, wv, "C09/from_partial/accepted-invalid", "RangeError", g);
                    chk!(o, fields_eq(&duration_fields(&d), &g), "C09/from_partial/fields", g, duration_fields(&d));
                }
                Err(e) => chk!(o, !wv && e.kind() == ErrorKind::Range, "C09/from_partial/error", if wv { "Ok" } else { "RangeError" }, err_str(&e)),
            }
        }
        o
    }
}

// ------------------------------------------------------------------------------------------
// add / subtract / compare of calendar-free durations

#[derive(Serialize, Deserialize, Debug, Clone)]
pub struct PairCase {
    pub a: Dur,
    pub b: Dur,
}
pub struct PairSub;
impl SubCheck for PairSub {
    type Case = PairCase;
    fn name(&self) -> &'static str {
        "pair"
    }
    fn eval(&self, c: &PairCase) -> Outcome {
        let (ta, tb) = (c.a.time_ns_with_days(), c.b.time_ns_with_days());
        let sum = ta + tb;
        let largest = c.a.largest_unit().larger_of(c.b.largest_unit());
        let want = balance_time(sum, largest);
        let want_ok = sum.abs() < MAX_TIME_NS && reported_valid(&want);
        let near = (sum.abs() - MAX_TIME_NS).abs() <= 1_000_000_000;
        let mut o = Outcome::pass().nontrivial(c.a.sign() != c.b.sign() || near || c.a.f.iter().filter(|v| **v != 0).count() >= 2);
        if c.a.sign() * c.b.sign() < 0 {
            o = o.class("opposite-signs");
        }
        if near {
            o = o.class("sum-near-limit");
        }
        if !want_ok {
            o = o.class("sum-out-of-range");
        }
        let (da, db) = match (duration_from_dur(&c.a), duration_from_dur(&c.b)) {
            (Ok(x), Ok(y)) => (x, y),
            _ => return o.fail("C09/pair/construct", "valid", "Err"),
        };
        let prov = TableProvider::utc_only();
        if c.a.has_calendar() || c.b.has_calendar() {
            o = o.class("calendar-units");
            // add and compare need a reference date: RangeError
            match da.add(&db) {
                Err(e) if e.kind() == ErrorKind::Range => {}
                other => o = o.fail("C09/add/calendar-accepted", "RangeError", format!("{:?}", other.map(|d| duration_fields(&d)).map_err(|e| err_str(&e)))),
            }
            if !(fields_eq(&c.a.to_f64s(), &c.b.to_f64s())) {
                match da.compare_with_provider(&db, None, &prov) {
                    Err(e) if e.kind() == ErrorKind::Range => {}
                    other => o = o.fail("C09/compare/calendar-accepted", "RangeError", format!("{:?}", other.map_err(|e| err_str(&e)))),
                }
            }
            return o;
        }
        let wf = want.to_f64s();
        let r = da.add(&db);
        match &r {
            Ok(d) => {
                if !want_ok {
                    return o.fail("C09/add/accepted-out-of-range", "RangeError", format!("{:?}", duration_fields(d)));
                }
                chk!(o, fields_eq(&duration_fields(d), &wf), "C09/add/mismatch", wf, duration_fields(d));
            }
            Err(e) => {
                if want_ok || e.kind() != ErrorKind::Range {
                    return o.fail("C09/add/error", format!("{wf:?}"), err_str(e));
                }
            }
        }
        // commutative
        match (&r, db.add(&da)) {
            (Ok(x), Ok(y)) => chk!(o, fields_eq(&duration_fields(x), &duration_fields(&y)), "C09/add/not-commutative", duration_fields(x), duration_fields(&y)),
            (Err(_), Err(_)) => {}
            _ => o = o.fail("C09/add/not-commutative/verdict", "same verdict", "differs"),
        }
        // subtract == add(negated)
        match (da.subtract(&db), da.add(&db.negated())) {
            (Ok(x), Ok(y)) => chk!(o, fields_eq(&duration_fields(&x), &duration_fields(&y)), "C09/subtract", duration_fields(&y), duration_fields(&x)),
            (Err(_), Err(_)) => {}
            _ => o = o.fail("C09/subtract/verdict", "same verdict", "differs"),
        }
        // subtract against the model
        let diff = ta - tb;
        let wd = balance_time(diff, largest);
        if diff.abs() < MAX_TIME_NS && reported_valid(&wd) {
            match da.subtract(&db) {
                Ok(x) => chk!(o, fields_eq(&duration_fields(&x), &wd.to_f64s()), "C09/subtract/mismatch", wd.to_f64s(), duration_fields(&x)),
                Err(e) => o = o.fail("C09/subtract/error", format!("{:?}", wd.to_f64s()), err_str(&e)),
            }
        }
        // compare: total order of exact totals
        let wc = ta.cmp(&tb);
        match da.compare_with_provider(&db, None, &prov) {
            Ok(g) => chk!(o, g == wc, "C09/compare/mismatch", wc, g),
            Err(e) => o = o.fail("C09/compare/error", format!("{wc:?}"), err_str(&e)),
        }
        match db.compare_with_provider(&da, None, &prov) {
            Ok(g) => chk!(o, g == wc.reverse(), "C09/compare/antisymmetry", wc.reverse(), g),
            Err(e) => o = o.fail("C09/compare/error", format!("{:?}", wc.reverse()), err_str(&e)),
        }
        if wc == Ordering::Equal {
            o = o.class("equal-totals");
        }
        o
    }
}

// ------------------------------------------------------------------------------------------
// round / total without relativeTo

#[derive(Serialize, Deserialize, Debug, Clone)]
pub struct RoundCase {
    pub d: Dur,
    pub largest: LargestOpt,
    pub smallest: Option<U>,
    pub inc: u32,
    pub mode: Option<Mode>,
    pub total_unit: U,
}
#[derive(Serialize, Deserialize, Debug, Clone, Copy, PartialEq, Eq)]
pub enum LargestOpt {
    Absent,
    Auto,
    Unit(U),
}
pub struct RoundSub;
impl SubCheck for RoundSub {
    type Case = RoundCase;
    fn name(&self) -> &'static str {
        "round"
    }
    fn eval(&self, c: &RoundCase) -> Outcome {
        let x = c.d.time_ns_with_days();
        let smallest = c.smallest.unwrap_or(U::Nanosecond);
        let existing = c.d.largest_unit();
        let largest = match c.largest {
            LargestOpt::Unit(u) => u,
            _ => existing.larger_of(smallest),
        };
        let m = c.mode.unwrap_or(Mode::HalfExpand);
        let q = c.inc as i128 * smallest.ns();
        let xr = round_int(x, q, m);
        let want = balance_time(xr, largest);
        let want_ok = xr.abs() < MAX_TIME_NS && reported_valid(&want);
        let moved = xr != x;
        let mut o = Outcome::pass().nontrivial(moved || c.d.sign() < 0 || c.d.f.iter().filter(|v| **v != 0).count() >= 2);
        if moved {
            o = o.class("rounding-moves");
        }
        if x.rem_euclid(q) * 2 == q {
            o = o.class("tie");
        }
        if c.d.sign() < 0 {
            o = o.class("negative");
        }
        if c.d.f[3] != 0 {
            o = o.class("has-days");
        }
        let d = match duration_from_dur(&c.d) {
            Ok(d) => d,
            Err(e) => return o.fail("C09/round/construct", "valid", err_str(&e)),
        };
        let prov = TableProvider::utc_only();
        let lopt = match c.largest {
            LargestOpt::Absent => None,
            LargestOpt::Auto => Some(Unit::Auto),
            LargestOpt::Unit(u) => Some(unit(u)),
        };
        let opts = round_options(lopt, c.smallest.map(unit), Some(c.inc), c.mode.map(mode));
        let wf = want.to_f64s();
        let r = d.round_with_provider(opts, None, &prov);
        match &r {
            Ok(g) => {
                if !want_ok {
                    return o.fail("C09/round/accepted-out-of-range", "RangeError", format!("{:?}", duration_fields(g)));
                }
                chk!(o, fields_eq(&duration_fields(g), &wf), "C09/round/mismatch", wf, duration_fields(g));
            }
            Err(e) => {
                if want_ok || e.kind() != ErrorKind::Range {
                    return o.fail("C09/round/error", format!("{wf:?}"), err_str(e));
                }
                o = o.class("leaves-range");
            }
        }
        // round(-d, mode) == -round(d, mirrored mode)
        let opts_m = round_options(lopt, c.smallest.map(unit), Some(c.inc), Some(mode(m.negated())));
        match (&r, d.negated().round_with_provider(opts_m, None, &prov)) {
            (Ok(a), Ok(b)) => chk!(o, fields_eq(&duration_fields(&a.negated()), &duration_fields(&b)), "C09/round/negation-law", duration_fields(&a.negated()), duration_fields(&b)),
            (Err(_), Err(_)) => {}
            (a, b) => o = o.fail("C09/round/negation-law/verdict", format!("{:?}", a.as_ref().map(duration_fields).map_err(err_str)), format!("{:?}", b.map(|d| duration_fields(&d)).map_err(|e| err_str(&e)))),
        }
        // total(unit): exact total / unit length, correctly rounded (tolerance 1 ulp)
        let wt = ratio_to_f64(x, c.total_unit.ns());
        match d.total_with_provider(unit(c.total_unit), None, &prov) {
            Ok(t) => {
                let g = t.as_inner();
                let ulps = ulp_distance(g, wt);
                if ulps == 1 {
                    o = o.class("total-1ulp-off");
                }
                chk!(o, ulps <= 1, "C09/total/mismatch", wt, g);
            }
            Err(e) => o = o.fail("C09/total/error", format!("{wt:e}"), err_str(&e)),
        }
        o
    }
}

// ------------------------------------------------------------------------------------------
// generators

fn f64_field(lim: i128) -> BoxedStrategy<f64> {
    prop_oneof![
        6 => Just(0.0f64),
        4 => (0i64..=40).prop_map(|v| v as f64),
        2 => (0i64..=1_000_000).prop_map(|v| v as f64),
        2 => (-3i128..=3).prop_map(move |k| gen::through_f64(lim + k) as f64),
        1 => (0i128..=lim.max(1)).prop_map(|v| gen::through_f64(v) as f64),
        1 => (-2i64..=2).prop_map(|k| (4294967296i64 + k) as f64),
        1 => (-2i64..=2).prop_map(|k| (2147483648i64 + k) as f64),
        1 => (0u32..=300).prop_map(|e| 2f64.powi(e as i32)),
        1 => Just(9007199254740992.0f64),
        1 => Just(1e300f64),
    ]
    .boxed()
}

pub fn new_case() -> BoxedStrategy<NewCase> {
    let lims: [i128; 10] = [TWO32, TWO32, TWO32, MAX_TIME_NS / UNIT_NS[3], MAX_TIME_NS / UNIT_NS[4], MAX_TIME_NS / UNIT_NS[5], MAX_TIME_NS / UNIT_NS[6], MAX_TIME_NS / UNIT_NS[7], MAX_TIME_NS / UNIT_NS[8], MAX_TIME_NS];
    let fields: Vec<BoxedStrategy<f64>> = lims.iter().map(|l| f64_field(*l)).collect();
    // limit-distributed totals: seconds near 2^53 split over several fields
    let split = (0i128..=2_000_000_000, 0i128..1000, 0i128..1000, 0i128..1000, prop::bool::ANY).prop_map(|(below, ms, us, ns, neg)| {
        // total = 2^53 s - below ns, expressed as seconds + ms + us + ns pieces that are exact doubles
        let total = MAX_TIME_NS - below;
        let sub = ms * 1_000_000 + us * 1_000 + ns;
        let rest = total - sub;
        let secs = rest / 1_000_000_000;
        let extra_ns = rest % 1_000_000_000;
        let mut f = [0.0f64; 10];
        f[6] = gen::through_f64(secs) as f64;
        f[7] = ms as f64;
        f[8] = us as f64;
        f[9] = (ns + extra_ns) as f64;
        if neg {
            for v in f.iter_mut() {
                *v = -*v;
            }
        }
        f
    });
    let general = (fields, 0u8..4, 0u16..1024, 0u16..1024).prop_map(|(v, signs, flip, keep)| {
        let mut f = [0.0f64; 10];
        for i in 0..10 {
            f[i] = if keep & (1 << i) != 0 || keep % 7 == 0 { v[i] } else { 0.0 };
        }
        match signs {
            0 => {}
            1 => f.iter_mut().for_each(|x| *x = -*x),
            // invalid class: per-field signs
            _ => {
                for i in 0..10 {
                    if flip & (1 << i) != 0 {
                        f[i] = -f[i];
                    }
                }
            }
        }
        f
    });
    (prop_oneof![4 => general, 1 => split], 0u16..1024, prop::bool::weighted(0.1)).prop_map(|(f, mask, empty)| NewCase { f, mask: if empty { 0 } else { mask } }).boxed()
}

/// valid durations: calendar-free (mostly) with days and time fields, limit-biased
fn free_dur(calendar_prob: f64) -> BoxedStrategy<Dur> {
    (gen::valid_time_dur(), prop_oneof![5 => Just(0i128), 3 => 0i128..=40, 1 => 0i128..=104_249_991_374i128], prop::bool::weighted(calendar_prob), 0usize..3, 1i128..=20)
        .prop_map(|(t, days, cal, idx, v)| {
            let mut f = t.f;
            let s = if t.sign() < 0 { -1 } else { 1 };
            f[3] = s * days;
            if cal {
                f[idx] = s * v;
            }
            Dur { f }
        })
        .prop_filter("valid", |d| d.valid())
        .boxed()
}

pub fn pair_case() -> BoxedStrategy<PairCase> {
    (free_dur(0.03), free_dur(0.03), 0u8..8)
        .prop_map(|(a, b, k)| match k {
            // the sum (or difference) is exactly the last representable total, +-(2^53 s - 1 ns), or 1-2 ns beyond it,
            // in either sign: b = limit - a
            6 | 7 => {
                let lim: i128 = (1i128 << 53) * 1_000_000_000 - 1;
                let ta = a.time_ns_with_days();
                let sign: i128 = if ta < 0 { -1 } else { 1 };
                let over: i128 = [0, 0, 0, 1, 2][(ta.unsigned_abs() % 5) as usize];
                let rest = sign * (lim + over) - ta;
                let b2 = balance_time(rest, if k == 6 { U::Second } else { U::Hour });
                let exact = b2.valid() && b2.to_f64s().iter().zip(b2.f.iter()).all(|(x, y)| *x as i128 == *y);
                if a.f[..3].iter().all(|v| *v == 0) && rest.signum() == sign && exact {
                    PairCase { a, b: b2 }
                } else {
                    PairCase { a, b }
                }
            }
            // equal totals expressed differently
            0 => {
                let t = a.time_ns_with_days();
                let b2 = balance_time(t, U::Second);
                if b2.valid() && b2.to_f64s().iter().zip(b2.f.iter()).all(|(x, y)| *x as i128 == *y) {
                    PairCase { a, b: b2 }
                } else {
                    PairCase { a, b }
                }
            }
            1 => PairCase { a, b: b.negated() },
            _ => PairCase { a, b },
        })
        .boxed()
}

pub fn round_case() -> BoxedStrategy<RoundCase> {
    let small = prop_oneof![1 => Just(None), 8 => gen::unit_in(3, 9).prop_map(Some)];
    (free_dur(0.0), small, gen::unit_in(3, 9), 0u8..3, prop::option::weighted(0.85, gen::mode()), gen::unit_in(3, 9), 0usize..64, prop::bool::weighted(0.3))
        .prop_map(|(d, smallest, lu, lk, mode, total_unit, inc_idx, tie)| {
            let s = smallest.unwrap_or(U::Nanosecond);
            let incs: Vec<u32> = match s.max_increment() {
                Some(m) => gen::divisors_below(m).into_iter().map(|x| x as u32).collect(),
                // day has no maximum: small increments, and increments whose length in ns is next to 2^63 / 2^64
                None => vec![1, 2, 3, 5, 7, 10, 30, 100, 106_751, 106_752, 213_503, 213_504, 250_000, 1_000_000, 999_999_999, 1_000_000_000],
            };
            let inc = incs[inc_idx * incs.len() / 64];
            // largest: absent / auto / explicit unit not smaller than smallest
            let largest = match lk {
                0 if smallest.is_some() => LargestOpt::Absent,
                1 => LargestOpt::Auto,
                _ => LargestOpt::Unit(if lu.idx() <= s.idx() { lu } else { s }),
            };
            // optionally move the duration onto an exact tie of the increment
            let mut d = d;
            if tie {
                let q = inc as i128 * s.ns();
                if q % 2 == 0 {
                    let x = d.time_ns_with_days();
                    let t = x - x.rem_euclid(q) + q / 2;
                    // three shapes of the same total: everything in hours and below, balanced up to days, or the
                    // original day count kept with the rest in hours and below (a rounding that looks at the time
                    // part alone sees another parity than one that looks at the exact total)
                    let cand = match inc_idx % 3 {
                        0 => balance_time(t, U::Hour),
                        1 => balance_time(t, U::Day),
                        _ => {
                            let keep = d.f[3];
                            let rest = t - keep * 86_400_000_000_000;
                            if (rest < 0) != (t < 0) && rest != 0 && keep != 0 {
                                balance_time(t, U::Day)
                            } else {
                                let mut c = balance_time(rest, U::Hour);
                                c.f[3] = keep;
                                c
                            }
                        }
                    };
                    if cand.valid() && cand.to_f64s().iter().zip(cand.f.iter()).all(|(a, b)| *a as i128 == *b) {
                        d = cand;
                    }
                }
            }
            RoundCase { d, largest, smallest, inc, mode, total_unit }
        })
        .boxed()
}

pub fn run(ctx: &mut Ctx) {
    ctx.rule = "new: ten-field vectors of integral doubles (0, small, field limits +-3, 2^31+-k, 2^32+-k, powers of two up to 2^300, 1e300, totals of 2^53 s minus up to 2 s split over seconds/ms/us/ns, one sign or per-field signs) -> Duration::new/from_partial_duration Ok iff the exact definition holds, plus sign/abs/negated/is_zero; pair: calendar-free valid durations (and 3% with calendar units -> RangeError) -> add == exact sum balanced to the larger largest unit or RangeError, commutative, subtract == add(-b), compare == order of exact totals (classes: equal totals in different shapes, opposite signs); round: round(opts) == balance(round(exact total, inc x unit, mode), largest) over all admissible (largest absent/auto/unit, smallest day..ns, increment, mode absent/9 modes) incl. exact ties, round(-d) == -round(d, mirrored mode), total(unit) == correctly rounded exact quotient (<= 1 ulp). non-trivial = >= 2 non-zero fields, any field >= 2^31, total within 1 s of the 2^53 s limit, negative, rounding moves the value.".into();
    ctx.assumptions = vec!["float results (total) are compared with the correctly rounded exact rational, tolerance 1 ulp (distance recorded as class total-1ulp-off)".into()];
    let t = ctx.tier;
    ctx.run_prop(&NewSub, &new_case, t.pick(600_000, 20_000_000));
    ctx.run_prop(&PairSub, &pair_case, t.pick(500_000, 15_000_000));
    ctx.run_prop(&RoundSub, &round_case, t.pick(500_000, 15_000_000));
}

pub fn replay(ctx: &mut Ctx, sub: &str, case: &Value) -> bool {
    match sub {
        "new" => ctx.replay_case(&NewSub, case),
        "pair" => ctx.replay_case(&PairSub, case),
        "round" => ctx.replay_case(&RoundSub, case),
        _ => false,
    }
}
