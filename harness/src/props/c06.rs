//! C06 - times are integers mod 24 h, instants integers on the epoch line.

use crate::chk;
use crate::conv::*;
use crate::gen;
use crate::refm::civil::*;
use crate::refm::dur::{balance_time, reported_valid, Dur, U};
use crate::run::*;
use proptest::prelude::*;
use serde::{Deserialize, Serialize};
use serde_json::Value;
use temporal_rs::error::ErrorKind;
use temporal_rs::Instant;

const DAY: i128 = NS_PER_DAY;

#[derive(Serialize, Deserialize, Debug, Clone, Copy, PartialEq, Eq)]
pub enum Op {
    TimeAdd,
    TimeSubtract,
    InstantAdd,
    InstantSubtract,
    TimeUntil,
    TimeSince,
    InstantUntil,
    InstantSince,
    EpochMs,
    InstantAddDateUnits,
}

#[derive(Serialize, Deserialize, Debug, Clone)]
pub struct Case {
    pub op: Op,
    pub a: i128,
    pub b: i128,
    pub dur: Dur,
    pub largest: Option<U>,
    /// a date unit (year..day) offered as smallestUnit and/or largestUnit of a time / instant difference: must be
    /// refused (0 = none, 1 = as smallest, 2 = as largest, 3 = both)
    #[serde(default)]
    pub date_unit: Option<(U, u8)>,
}
pub struct Sub;

impl SubCheck for Sub {
    type Case = Case;
    fn name(&self) -> &'static str {
        "ops"
    }
    fn eval(&self, c: &Case) -> Outcome {
        let mut o = Outcome::pass();
        let total = c.dur.time_ns();
        match c.op {
            Op::TimeAdd | Op::TimeSubtract => {
                let eff = if c.op == Op::TimeAdd { total } else { -total };
                let want = (c.a + eff).rem_euclid(DAY);
                let wraps = (c.a + eff).div_euclid(DAY) != 0;
                o = o.class("time.add").nontrivial(wraps || total.abs() >= (1i128 << 63));
                if wraps {
                    o = o.class("wraps-midnight");
                }
                if total.abs() >= (1i128 << 63) {
                    o = o.class("|total|>=2^63ns");
                }
                let t = plain_time(c.a).expect("valid time");
                let d = match duration_from_dur(&c.dur) {
                    Ok(d) => d,
                    Err(e) => return o.fail("C06/time.add/duration-construct", "valid", err_str(&e)),
                };
                let r = if c.op == Op::TimeAdd { t.add(&d) } else { t.subtract(&d) };
                match r {
                    Ok(r) => chk!(o, time_ns(&r) == want, "C06/time.add/mismatch", want, time_ns(&r)),
                    Err(e) => o = o.fail("C06/time.add/error", want.to_string(), err_str(&e)),
                }
            }
            Op::InstantAdd | Op::InstantSubtract => {
                let eff = if c.op == Op::InstantAdd { total } else { -total };
                let want = c.a + eff;
                let ok = instant_in_range(want);
                let near = (want.abs() - MAX_INSTANT).abs() <= 1;
                o = o.class("instant.add").nontrivial(total.abs() >= (1i128 << 63) || near || !ok);
                if near {
                    o = o.class("within-1ns-of-limit");
                }
                if !ok {
                    o = o.class("out-of-range");
                }
                if total.abs() >= (1i128 << 63) {
                    o = o.class("|total|>=2^63ns");
                }
                let i = Instant::try_new(c.a).expect("valid instant");
                let d = match duration_from_dur(&c.dur) {
                    Ok(d) => d,
                    Err(e) => return o.fail("C06/instant.add/duration-construct", "valid", err_str(&e)),
                };
                let r = if c.op == Op::InstantAdd { i.add(d) } else { i.subtract(d) };
                match r {
                    Ok(r) => {
                        if !ok {
                            return o.fail("C06/instant.add/accepted-out-of-range", "RangeError", r.as_i128().to_string());
                        }
                        chk!(o, r.as_i128() == want, "C06/instant.add/mismatch", want, r.as_i128());
                    }
                    Err(e) => {
                        if ok || e.kind() != ErrorKind::Range {
                            o = o.fail("C06/instant.add/error", want.to_string(), err_str(&e));
                        }
                    }
                }
            }
            Op::InstantAddDateUnits => {
                // any non-zero year/month/week/day field is refused
                o = o.class("instant.add-date-units").nontrivial(true);
                let i = Instant::try_new(c.a).expect("valid instant");
                let d = match duration_from_dur(&c.dur) {
                    Ok(d) => d,
                    Err(e) => return o.fail("C06/instant.add/duration-construct", "valid", err_str(&e)),
                };
                for (r, nm) in [(i.add(d), "add"), (i.subtract(d), "subtract")] {
                    match r {
                        Err(e) if e.kind() == ErrorKind::Range => {}
                        other => return o.fail(format!("C06/instant.{nm}/date-units-accepted"), "RangeError", format!("{:?}", other.map(|x| x.as_i128()).map_err(|e| err_str(&e)))),
                    }
                }
            }
            Op::TimeUntil | Op::TimeSince | Op::InstantUntil | Op::InstantSince => {
                let is_time = matches!(c.op, Op::TimeUntil | Op::TimeSince);
                let diff = match c.op {
                    Op::TimeUntil | Op::InstantUntil => c.b - c.a,
                    _ => c.a - c.b,
                };
                if let Some((du, place)) = c.date_unit {
                    // instants and times refuse calendar and day units in every option slot
                    o = o.class(if is_time { "time.diff:date-unit-offered" } else { "instant.diff:date-unit-offered" }).nontrivial(true);
                    let (l, s_) = match place % 4 {
                        1 => (c.largest.map(unit), Some(unit(du))),
                        2 => (Some(unit(du)), None),
                        _ => (Some(unit(du)), Some(unit(du))),
                    };
                    let st = diff_settings(l, s_, None, None);
                    let r = match c.op {
                        Op::TimeUntil => plain_time(c.a).unwrap().until(&plain_time(c.b).unwrap(), st),
                        Op::TimeSince => plain_time(c.a).unwrap().since(&plain_time(c.b).unwrap(), st),
                        Op::InstantUntil => Instant::try_new(c.a).unwrap().until(&Instant::try_new(c.b).unwrap(), st),
                        _ => Instant::try_new(c.a).unwrap().since(&Instant::try_new(c.b).unwrap(), st),
                    };
                    match r {
                        Err(e) if e.kind() == ErrorKind::Range => {}
                        other => return o.fail("C06/diff/date-unit-accepted", "RangeError", format!("{:?}", other.map(|d| duration_fields(&d)).map_err(|e| err_str(&e)))),
                    }
                    return o;
                }
                // default largest: hour for times, second for instants
                let largest = c.largest.unwrap_or(if is_time { U::Hour } else { U::Second });
                let want = balance_time(diff, largest);
                // an explicit `auto` means the same as an absent largestUnit (every fourth default case asks for it)
                let explicit_auto = c.largest.is_none() && (c.a + c.b).rem_euclid(4) == 0;
                o = o.class(if is_time { "time.diff" } else { "instant.diff" }).nontrivial(diff < 0 || diff.abs() >= (1i128 << 63) || c.largest.is_none());
                if diff < 0 {
                    o = o.class("negative");
                }
                if c.largest.is_none() {
                    o = o.class("default-largest");
                }
                if diff.abs() >= (1i128 << 63) {
                    o = o.class("|diff|>=2^63ns");
                }
                let st = diff_settings(if explicit_auto { Some(temporal_rs::options::Unit::Auto) } else { c.largest.map(unit) }, None, None, None);
                if explicit_auto {
                    o = o.class("explicit-largest-auto");
                }
                let r = match c.op {
                    Op::TimeUntil => plain_time(c.a).unwrap().until(&plain_time(c.b).unwrap(), st),
                    Op::TimeSince => plain_time(c.a).unwrap().since(&plain_time(c.b).unwrap(), st),
                    Op::InstantUntil => Instant::try_new(c.a).unwrap().until(&Instant::try_new(c.b).unwrap(), st),
                    _ => Instant::try_new(c.a).unwrap().since(&Instant::try_new(c.b).unwrap(), st),
                };
                let wf = want.to_f64s();
                match r {
                    Ok(d) => {
                        let got = duration_fields(&d);
                        chk!(o, fields_eq(&got, &wf), "C06/diff/mismatch", wf, got);
                        // the difference is an integer count per unit: a zero field is the integer 0, never the float -0
                        // (the crate's own FiniteF64::negate guards this; `since` is the negated `until`)
                        chk!(o, !got.iter().any(|v| *v == 0.0 && v.is_sign_negative()), "C06/diff/negative-zero-field", "zero fields are +0", format!("{got:?}"));
                    }
                    Err(e) => {
                        if reported_valid(&want) || e.kind() != ErrorKind::Range {
                            o = o.fail("C06/diff/error", format!("{wf:?}"), err_str(&e));
                        } else {
                            o = o.class("leaves-duration-range");
                        }
                    }
                }
            }
            Op::EpochMs => {
                let i = Instant::try_new(c.a).expect("valid instant");
                let want = c.a.div_euclid(1_000_000);
                o = o.class("epoch-ms").nontrivial(c.a < 0 && c.a.rem_euclid(1_000_000) != 0);
                if c.a < 0 && c.a.rem_euclid(1_000_000) != 0 {
                    o = o.class("negative-with-sub-ms");
                }
                chk!(o, i.epoch_milliseconds() as i128 == want, "C06/epoch_milliseconds/mismatch", want, i.epoch_milliseconds());
                // from_epoch_milliseconds round trip (ms taken from b, any i64-ish value)
                let ms = c.b;
                let in_range = instant_in_range(ms * 1_000_000);
                match Instant::from_epoch_milliseconds(ms as i64) {
                    Ok(x) => {
                        chk!(o, in_range, "C06/from_epoch_milliseconds/accepted-out-of-range", "RangeError", x.as_i128());
                        chk!(o, x.epoch_milliseconds() as i128 == ms && x.as_i128() == ms * 1_000_000, "C06/from_epoch_milliseconds/round-trip", ms, x.epoch_milliseconds());
                    }
                    Err(e) => chk!(o, !in_range && e.kind() == ErrorKind::Range, "C06/from_epoch_milliseconds/error", ms, err_str(&e)),
                }
            }
        }
        o
    }
}

pub fn case() -> BoxedStrategy<Case> {
    let zero = Dur::zero();
    let time_add = (gen::ns_of_day(), gen::valid_time_dur(), prop::bool::ANY).prop_map(move |(a, dur, sub)| Case { op: if sub { Op::TimeSubtract } else { Op::TimeAdd }, a, b: 0, dur, largest: None, date_unit: None });
    // instants: result near the limits on purpose
    let inst_add = (gen::instant_ns(), gen::valid_time_dur(), prop::bool::ANY, 0u8..4, -2i128..=2).prop_map(move |(a, dur, sub, k, d)| {
        // k == 0: choose the duration so that the exact sum lands within 2 ns of a limit
        let mut dur = dur;
        if k == 0 {
            let target = if a >= 0 { MAX_INSTANT + d } else { -MAX_INSTANT + d };
            let need = if sub { a - target } else { target - a };
            let mut f = [0i128; 10];
            // split into seconds + ns so that both are exact doubles
            f[6] = need / 1_000_000_000;
            f[9] = need % 1_000_000_000;
            let cand = Dur { f };
            if cand.valid() && cand.to_f64s().iter().zip(cand.f.iter()).all(|(x, y)| *x as i128 == *y) {
                dur = cand;
            }
        }
        Case { op: if sub { Op::InstantSubtract } else { Op::InstantAdd }, a, b: 0, dur, largest: None, date_unit: None }
    });
    let inst_date = (gen::instant_ns(), 0usize..4, 1i128..=5, prop::bool::ANY, gen::valid_time_dur()).prop_map(|(a, idx, v, neg, t)| {
        let mut f = t.f;
        let s = if neg { -1 } else { 1 };
        if (t.sign() < 0) != neg {
            for x in f.iter_mut() {
                *x = -*x;
            }
        }
        f[idx] = s * v;
        Case { op: Op::InstantAddDateUnits, a, b: 0, dur: Dur { f }, largest: None, date_unit: None }
    }).prop_filter("valid", |c| c.dur.valid());
    let largest = prop_oneof![1 => Just(None), 6 => gen::unit_in(4, 9).prop_map(Some)];
    let time_diff = (gen::ns_of_day(), gen::ns_of_day(), largest.clone(), prop::bool::ANY).prop_map(move |(a, b, largest, since)| Case { op: if since { Op::TimeSince } else { Op::TimeUntil }, a, b, dur: zero, largest, date_unit: None });
    let inst_diff = (gen::instant_ns(), gen::instant_ns(), largest, prop::bool::ANY, prop::bool::ANY).prop_map(move |(a, b, largest, since, near)| {
        let b = if near { (a + (b % 100_000_000_000_000)).clamp(-MAX_INSTANT, MAX_INSTANT) } else { b };
        Case { op: if since { Op::InstantSince } else { Op::InstantUntil }, a, b, dur: zero, largest, date_unit: None }
    });
    let ms = (gen::instant_ns(), prop_oneof![(-8_640_000_000_000_003i128..=8_640_000_000_000_003), (-3i128..=3), (0i128..=3).prop_map(|k| 8_640_000_000_000_000 - k), (0i128..=3).prop_map(|k| -8_640_000_000_000_000 + k), (i64::MIN as i128..=i64::MAX as i128)])
        .prop_map(move |(a, b)| Case { op: Op::EpochMs, a, b, dur: zero, largest: None, date_unit: None });
    let bad_unit = (gen::instant_ns(), gen::instant_ns(), gen::ns_of_day(), gen::ns_of_day(), gen::unit_in(0, 3), 1u8..=3, 0u8..4, prop::option::of(gen::unit_in(4, 9)), prop::bool::ANY).prop_map(move |(ia, ib, ta, tb, du, place, which, largest, equal)| {
        let op = [Op::TimeUntil, Op::TimeSince, Op::InstantUntil, Op::InstantSince][which as usize];
        let (a, b) = if which < 2 { (ta, if equal { ta } else { tb }) } else { (ia, if equal { ia } else { ib }) };
        Case { op, a, b, dur: zero, largest, date_unit: Some((du, place)) }
    });
    prop_oneof![3 => time_add, 3 => inst_add, 1 => inst_date, 2 => time_diff, 3 => inst_diff, 2 => ms, 1 => bad_unit].boxed()
}

pub fn run(ctx: &mut Ctx) {
    ctx.rule = "generated ops: PlainTime add/subtract of any valid time duration (fields up to 2^53 s worth, far above 2^63 ns) == (ns + exact total) mod 86400e9; Instant add/subtract == exact sum, RangeError iff outside +-8.64e21 (a quarter of the cases are steered to land within 2 ns of a limit), RangeError for any non-zero date field; until/since of times and instants == exact difference balanced to the largest unit (6 time units + default), and RangeError whenever year/month/week/day is offered as smallestUnit and/or largestUnit (also for equal operands); epoch_milliseconds == floor(ns / 1e6) and from_epoch_milliseconds round trip incl. limits. non-trivial = |total| >= 2^63 ns, wrap across midnight, negative, within 1 ns of a limit, default largest unit, negative instant with sub-ms part.".into();
    ctx.assumptions = vec!["PlainTime.add of durations with date fields is not judged (Temporal ignores them, the crate rejects them; outside the statement)".into()];
    ctx.run_prop(&Sub, &case, ctx.tier.pick(1_500_000, 40_000_000));
}

pub fn replay(ctx: &mut Ctx, sub: &str, case: &Value) -> bool {
    match sub {
        "ops" => ctx.replay_case(&Sub, case),
        _ => false,
    }
}
