//! C16 - non-ISO calendar fields describe the same day as the ISO date.
//!
//! Oracle: the ISO round trip and the successor invariant (no second calendar implementation). Per
//! (calendar, ISO day n) the date is converted ONCE into its calendar fields and then judged in
//! independent parts, each of which is its own replayable case (so a recorded defect in one part
//! never hides another part of the same date):
//!
//! * sub `fields`  : `with_calendar` keeps iso y/m/d (both directions), 1 <= day <= days_in_month,
//!                   1 <= month <= months_in_year, 1 <= day_of_year <= days_in_year, era present <=> eraYear
//!                   present, month code well formed and consistent with `month` (ordinal month; in a
//!                   13-month year of chinese/dangi/hebrew the ordinal is re-derived by walking the months
//!                   of the year with day_of_year / days_in_month), leap-year flag consistent with the
//!                   year length of the calendar family.
//! * sub `succ`    : successor law between ISO day n and n+1.
//! * sub `rebuild` : `PlainDate::from_partial` with {year|era+eraYear} x {monthCode|month} + day under both
//!                   overflow modes returns the original ISO date in the same calendar.
//! * sub `alias`   : every era alias (own table written from the intl-era-monthcode proposal) rebuilds
//!                   the same date as the era name the calendar reports.
//! * sub `ident`   : every ASCII case variant of every accepted identifier parses, reports the canonical
//!                   lower-case identifier, and that identifier parses back to an equal calendar.

use crate::chk;
use crate::conv::*;
use crate::refm::civil::*;
use crate::refm::dateadd::Ymd;
use crate::run::*;
use proptest::prelude::*;
use serde::{Deserialize, Serialize};
use serde_json::{json, Value};
use std::collections::{BTreeMap, BTreeSet};
use std::str::FromStr;
use temporal_rs::options::ArithmeticOverflow;
use temporal_rs::partial::{PartialDate, PartialDateTime, PartialTime};
use temporal_rs::{Calendar, MonthCode, PlainDate, PlainTime, TinyAsciiStr};

// ------------------------------------------------------------------------------------------------
// calendars

#[derive(Clone, Copy, PartialEq, Eq, Debug, PartialOrd, Ord)]
enum Cost {
    /// arithmetic calendars (about a microsecond per conversion)
    Cheap,
    /// chinese / dangi: ~0.25 ms per conversion outside 1900-2100
    Mid,
    /// observational islamic / umm al-qura: 1.5 - 8 ms per conversion outside ~1880-2170
    Exp,
}

struct Kind {
    id: &'static str,
    cost: Cost,
    /// leap months exist (month ordinal != month code number in leap years)
    lunisolar: bool,
}

const KINDS: [Kind; 18] = [
    Kind { id: "islamic", cost: Cost::Exp, lunisolar: false },
    Kind { id: "islamic-umalqura", cost: Cost::Exp, lunisolar: false },
    Kind { id: "chinese", cost: Cost::Mid, lunisolar: true },
    Kind { id: "dangi", cost: Cost::Mid, lunisolar: true },
    Kind { id: "buddhist", cost: Cost::Cheap, lunisolar: false },
    Kind { id: "coptic", cost: Cost::Cheap, lunisolar: false },
    Kind { id: "ethioaa", cost: Cost::Cheap, lunisolar: false },
    Kind { id: "ethiopic", cost: Cost::Cheap, lunisolar: false },
    Kind { id: "gregory", cost: Cost::Cheap, lunisolar: false },
    Kind { id: "hebrew", cost: Cost::Cheap, lunisolar: true },
    Kind { id: "indian", cost: Cost::Cheap, lunisolar: false },
    Kind { id: "islamic-civil", cost: Cost::Cheap, lunisolar: false },
    Kind { id: "islamic-tbla", cost: Cost::Cheap, lunisolar: false },
    Kind { id: "iso8601", cost: Cost::Cheap, lunisolar: false },
    Kind { id: "japanese", cost: Cost::Cheap, lunisolar: false },
    Kind { id: "japanext", cost: Cost::Cheap, lunisolar: false },
    Kind { id: "persian", cost: Cost::Cheap, lunisolar: false },
    Kind { id: "roc", cost: Cost::Cheap, lunisolar: false },
];
const NKINDS: usize = 18;

/// (accepted spelling, canonical identifier): ICU4X 2.0.0-beta2 `AnyCalendarKind::get_for_bcp47_bytes` + "iso8601"
const IDENTS: [(&str, &str); 20] = [
    ("buddhist", "buddhist"),
    ("chinese", "chinese"),
    ("coptic", "coptic"),
    ("dangi", "dangi"),
    ("ethioaa", "ethioaa"),
    ("ethiopic", "ethiopic"),
    ("gregory", "gregory"),
    ("hebrew", "hebrew"),
    ("indian", "indian"),
    ("islamic", "islamic"),
    ("islamic-civil", "islamic-civil"),
    ("islamicc", "islamic-civil"),
    ("islamic-tbla", "islamic-tbla"),
    ("islamic-umalqura", "islamic-umalqura"),
    ("iso", "iso8601"),
    ("iso8601", "iso8601"),
    ("japanese", "japanese"),
    ("japanext", "japanext"),
    ("persian", "persian"),
    ("roc", "roc"),
];

fn kind_of(id: &str) -> Option<&'static Kind> {
    KINDS.iter().find(|k| k.id == id)
}

/// Era alias classes per calendar, written from the intl-era-monthcode proposal (2024 table of era codes
/// and aliases), independently of `era.rs`. Every name in a class must denote the same era.
fn alias_classes(cal: &str) -> &'static [&'static [&'static str]] {
    match cal {
        "buddhist" => &[&["buddhist", "be"]],
        "ethioaa" => &[&["ethioaa", "ethiopic-amete-alem", "mundi"]],
        "ethiopic" => &[&["ethiopic", "incar"], &["ethioaa", "ethiopic-amete-alem", "mundi"]],
        "gregory" => &[&["gregory", "ce", "ad"], &["gregory-inverse", "bce", "bc"]],
        "hebrew" => &[&["hebrew", "am"]],
        "indian" => &[&["indian", "saka"]],
        "islamic" => &[&["islamic", "ah"]],
        "islamic-civil" => &[&["islamic-civil", "islamicc", "ah"]],
        "islamic-tbla" => &[&["islamic-tbla", "ah"]],
        "islamic-umalqura" => &[&["islamic-umalqura", "ah"]],
        "japanese" => &[&["japanese", "gregory", "ce", "ad"], &["japanese-inverse", "gregory-inverse", "bce", "bc"]],
        "persian" => &[&["persian", "ap"]],
        "roc" => &[&["roc", "minguo"], &["roc-inverse", "before-roc"]],
        _ => &[],
    }
}

fn aliases_of(cal: &str, era: &str) -> Vec<&'static str> {
    for class in alias_classes(cal) {
        if class.contains(&era) {
            return class.iter().copied().filter(|a| *a != era).collect();
        }
    }
    vec![]
}

// ------------------------------------------------------------------------------------------------
// fields of one date

#[derive(Clone, Debug, PartialEq, Serialize)]
struct F {
    y: i32,
    m: u8,
    code: String,
    d: u8,
    doy: u16,
    dim: u16,
    diy: u16,
    miy: u16,
    leap: bool,
    era: Option<String>,
    ey: Option<i32>,
}

fn mk(cal: &Calendar, n: i64) -> Result<PlainDate, String> {
    let (y, m, d) = from_days(n);
    PlainDate::try_new(y as i32, m, d, cal.clone()).map_err(|e| err_str(&e))
}

fn fields(p: &PlainDate) -> F {
    F {
        y: p.year(),
        m: p.month(),
        code: p.month_code().as_str().to_string(),
        d: p.day(),
        doy: p.day_of_year(),
        dim: p.days_in_month(),
        diy: p.days_in_year(),
        miy: p.months_in_year(),
        leap: p.in_leap_year(),
        era: p.era().map(|e| e.as_str().to_string()),
        ey: p.era_year(),
    }
}

/// "Mnn" / "MnnL" -> (nn, leap)
fn code_parts(code: &str) -> Option<(u8, bool)> {
    let b = code.as_bytes();
    if !(b.len() == 3 || b.len() == 4) || b[0] != b'M' || !b[1].is_ascii_digit() || !b[2].is_ascii_digit() {
        return None;
    }
    if b.len() == 4 && b[3] != b'L' {
        return None;
    }
    Some(((b[1] - b'0') * 10 + (b[2] - b'0'), b.len() == 4))
}

fn iso_year_of(n: i64) -> i64 {
    from_days(n).0
}

/// far = outside ISO years -10000..=10000 (where the astronomical calendars of the library are known to
/// trip their own debug assertions); a panic inside the core range is never excused.
fn zone(n: i64) -> &'static str {
    if iso_year_of(n).abs() > 10_000 {
        "far"
    } else {
        "core"
    }
}

fn panic_sig(cal: &str, n: i64, p: &str) -> String {
    let loc = p.split(": ").next().unwrap_or("panic@?");
    format!("C16/panic/{}/{}/{}", cal, zone(n), loc)
}

fn panic_outcome(cal: &str, n: i64, p: String) -> Outcome {
    Outcome::pass().class("panic").fail(panic_sig(cal, n, &p), "no panic", p)
}

/// ordinal month of day n by walking the months of its calendar year: (ordinal, number of leap-coded
/// months among months 1..=ordinal). Uses only day_of_year / days_in_month / month_code of the crate.
fn walk_ordinal(cal: &Calendar, n: i64, f: &F) -> Result<(u8, u8), String> {
    let mut s = n - (f.doy as i64 - 1);
    let mut k = 1u8;
    let mut leaps = 0u8;
    loop {
        if !date_in_range(s) {
            return Err("year start outside the date range".into());
        }
        let p = mk(cal, s)?;
        let dim = p.days_in_month() as i64;
        if dim < 1 {
            return Err(format!("days_in_month {dim} at day {s}"));
        }
        let code = p.month_code().as_str().to_string();
        if code_parts(&code).map(|c| c.1).unwrap_or(false) {
            leaps += 1;
        }
        if n < s + dim {
            return Ok((k, leaps));
        }
        s += dim;
        k += 1;
        if k > 14 {
            return Err("more than 14 months walked".into());
        }
    }
}

fn is_observational(k: &Kind) -> bool {
    k.id == "islamic" || k.id == "islamic-umalqura"
}

/// defect model (dependency, table range of the two simulated Islamic calendars): when every month before
/// month m has 30 days, day 30 of month m-1 (day_of_year 30*(m-1)) is reported as day 0 of month m
fn day0_model(k: &Kind, f: &F) -> bool {
    is_observational(k) && f.d == 0 && f.m >= 2 && f.doy == 30 * (f.m as u16 - 1) && code_parts(&f.code) == Some((f.m, false))
}

// ------------------------------------------------------------------------------------------------
// part: fields

fn part_fields(k: &Kind, cal: &Calendar, n: i64, p: &PlainDate, f: &F) -> Outcome {
    let id = k.id;
    let mut o = Outcome::pass();
    let (y, m, d) = from_days(n);
    let want = (y as i32, m, d);
    // changing the calendar never changes the ISO date
    chk!(o, (p.iso_year(), p.iso_month(), p.iso_day()) == want, format!("C16/fields/{id}/iso-fields"), want, (p.iso_year(), p.iso_month(), p.iso_day()));
    chk!(o, p.calendar().identifier() == id, format!("C16/fields/{id}/calendar-id"), id, p.calendar().identifier());
    match PlainDate::try_new(y as i32, m, d, iso()).and_then(|q| q.with_calendar(cal.clone())) {
        Ok(q) => {
            chk!(o, (q.iso_year(), q.iso_month(), q.iso_day()) == want && q.calendar().identifier() == id && &q == p,
                format!("C16/fields/{id}/with_calendar"), want, (q.iso_year(), q.iso_month(), q.iso_day(), q.calendar().identifier()));
        }
        Err(e) => o = o.fail(format!("C16/fields/{id}/with_calendar/err"), "Ok", err_str(&e)),
    }
    match p.with_calendar(iso()) {
        Ok(q) => {
            chk!(o, (q.iso_year(), q.iso_month(), q.iso_day()) == want && q.calendar().identifier() == "iso8601" && (q.year(), q.month(), q.day()) == want,
                format!("C16/fields/{id}/with_calendar-back"), want, (q.year(), q.month(), q.day()));
        }
        Err(e) => o = o.fail(format!("C16/fields/{id}/with_calendar-back/err"), "Ok", err_str(&e)),
    }
    // bounds
    if f.d < 1 {
        // defect model (dependency): see day0_model
        let sig = if day0_model(k, f) { format!("C16/fields/{id}/day-30-of-month-reported-as-day-0-of-next-month") } else { format!("C16/fields/{id}/day<1") };
        o = o.fail(sig, "day >= 1", format!("{f:?}"));
    }
    chk!(o, f.d as u16 <= f.dim, format!("C16/fields/{id}/day>days_in_month"), f.dim, f.d);
    chk!(o, f.m >= 1, format!("C16/fields/{id}/month<1"), ">=1", f.m);
    chk!(o, f.m as u16 <= f.miy, format!("C16/fields/{id}/month>months_in_year"), f.miy, f.m);
    chk!(o, f.doy >= 1, format!("C16/fields/{id}/day_of_year<1"), ">=1", f.doy);
    chk!(o, f.doy <= f.diy, format!("C16/fields/{id}/day_of_year>days_in_year"), f.diy, f.doy);
    chk!(o, f.era.is_some() == f.ey.is_some(), format!("C16/fields/{id}/era-xor-eraYear"), "both or neither", (&f.era, f.ey));
    // leap-year flag against the year length of the family
    let want_leap = if k.lunisolar {
        Some(f.miy == 13)
    } else if f.diy == 365 || f.diy == 354 {
        Some(false)
    } else if f.diy == 366 || f.diy == 355 {
        Some(true)
    } else {
        None
    };
    match want_leap {
        Some(w) => chk!(o, f.leap == w, format!("C16/fields/{id}/leap-flag"), (w, f.diy, f.miy), f.leap),
        // an unusual year length (observational calendars far from the present): flag not judged
        None => o = o.class("unusual-year-length:leap-flag-not-judged"),
    }
    // month code
    match code_parts(&f.code) {
        None => o = o.fail(format!("C16/fields/{id}/month-code-form"), "Mnn or MnnL", f.code.clone()),
        Some((num, leap)) => {
            if !k.lunisolar || f.miy != 13 {
                chk!(o, !leap, format!("C16/fields/{id}/month-code-leap-in-common-year"), "no L", f.code);
                chk!(o, num == f.m, format!("C16/fields/{id}/month-code-number"), f.m, f.code);
            } else if !o.failed() {
                // ordinal by walking the months of the year
                match guard(|| walk_ordinal(cal, n, f)) {
                    Ok(Ok((ord, leaps))) => {
                        chk!(o, num as i16 == ord as i16 - leaps as i16 && leaps <= 1, format!("C16/fields/{id}/month-code-vs-walk"), (ord, leaps), f.code);
                        if !o.failed() && f.m != ord {
                            // defect model: month() is the month-code number, not the ordinal
                            let sig = if f.m == num && ord == num + 1 {
                                format!("C16/fields/{id}/month-is-code-number-not-ordinal")
                            } else {
                                format!("C16/fields/{id}/month-ordinal")
                            };
                            o = o.fail(sig, format!("ordinal {ord} (code {}, walked)", f.code), f.m.to_string());
                        }
                    }
                    Ok(Err(e)) => {
                        // the year start lies outside the representable range: ordinal not derivable
                        if e.contains("outside the date range") {
                            o = o.class("ordinal-not-derivable");
                        } else {
                            o = o.fail(format!("C16/fields/{id}/month-walk"), "walkable year", e);
                        }
                    }
                    Err(p) => o = o.fail(panic_sig(id, n, &p), "no panic", p),
                }
            }
        }
    }
    o
}

// ------------------------------------------------------------------------------------------------
// part: successor law

fn succ_holds(a: &F, b: &F, am: u8, bm: u8) -> Result<&'static str, String> {
    if b.y == a.y {
        if b.doy != a.doy + 1 {
            return Err(format!("same year: day_of_year {} -> {}", a.doy, b.doy));
        }
        if (b.diy, b.miy, b.leap) != (a.diy, a.miy, a.leap) {
            return Err(format!("same year: (days_in_year, months_in_year, leap) {:?} -> {:?}", (a.diy, a.miy, a.leap), (b.diy, b.miy, b.leap)));
        }
        if b.code == a.code && bm == am {
            if b.d != a.d + 1 {
                return Err(format!("same month: day {} -> {}", a.d, b.d));
            }
            if b.dim != a.dim {
                return Err(format!("same month: days_in_month {} -> {}", a.dim, b.dim));
            }
            return Ok("next-day");
        }
        // next month
        if a.d as u16 != a.dim {
            return Err(format!("month changed although day {} != days_in_month {}", a.d, a.dim));
        }
        if b.d != 1 {
            return Err(format!("new month starts at day {}", b.d));
        }
        if bm != am + 1 {
            return Err(format!("month {} -> {} (codes {} -> {})", am, bm, a.code, b.code));
        }
        let (an, al) = code_parts(&a.code).ok_or("bad code")?;
        let (bn, bl) = code_parts(&b.code).ok_or("bad code")?;
        let ok = if al { bn == an + 1 && !bl } else { (bn == an + 1 && !bl) || (bn == an && bl) };
        if !ok {
            return Err(format!("month code {} -> {}", a.code, b.code));
        }
        return Ok("next-month");
    }
    // next year
    if b.y != a.y + 1 {
        return Err(format!("year {} -> {}", a.y, b.y));
    }
    if a.d as u16 != a.dim || am as u16 != a.miy || a.doy != a.diy {
        return Err(format!("year changed after month {}/{} day {}/{} day_of_year {}/{}", am, a.miy, a.d, a.dim, a.doy, a.diy));
    }
    if bm != 1 || b.d != 1 || b.doy != 1 || b.code != "M01" {
        return Err(format!("new year starts at month {} ({}) day {} day_of_year {}", bm, b.code, b.d, b.doy));
    }
    Ok("next-year")
}

fn part_succ(k: &Kind, cal: &Calendar, n: i64, a: &F, b: &F) -> Outcome {
    let id = k.id;
    let mut o = Outcome::pass();
    match succ_holds(a, b, a.m, b.m) {
        Ok(c) => o = o.class(c),
        Err(e) => {
            // defect model: month() reports the month-code number instead of the ordinal (13-month years of
            // lunisolar calendars). The law must hold with the walked ordinals, and both reported months must
            // equal their code numbers.
            let mut sig = format!("C16/succ/{id}/law");
            if day0_model(k, b) && b.y == a.y && b.m == a.m + 1 && a.d == 29 && a.dim == 30 && b.doy == a.doy + 1 {
                sig = format!("C16/succ/{id}/day-30-of-month-reported-as-day-0-of-next-month");
            }
            // defect model (calendar library, a handful of far Hebrew years): the year ends on its last day by its own
            // fields, but the next ISO day is day 2..=8 of the new year: the days in between exist only "forwards"
            // (fields -> ISO gives them ISO dates that read back as the old year)
            if a.doy == a.diy && a.d as u16 == a.dim && b.y == a.y + 1 && b.code == "M01" && b.d > 1 && b.d <= 8 && b.doy == b.d as u16 {
                sig = format!("C16/succ/{id}/new-year-begins-after-day-1(library-year-lengths-disagree)");
            }
            if k.lunisolar && (a.miy == 13 || b.miy == 13) {
                let an = code_parts(&a.code).map(|c| c.0);
                let bn = code_parts(&b.code).map(|c| c.0);
                if an == Some(a.m) && bn == Some(b.m) {
                    let wa = if a.miy == 13 { guard(|| walk_ordinal(cal, n, a)).ok().and_then(|r| r.ok()).map(|r| r.0) } else { Some(a.m) };
                    let wb = if b.miy == 13 { guard(|| walk_ordinal(cal, n + 1, b)).ok().and_then(|r| r.ok()).map(|r| r.0) } else { Some(b.m) };
                    if let (Some(wa), Some(wb)) = (wa, wb) {
                        if (wa, wb) != (a.m, b.m) && succ_holds(a, b, wa, wb).is_ok() {
                            sig = format!("C16/succ/{id}/month-is-code-number-not-ordinal");
                        }
                    }
                }
            }
            o = o.fail(sig, "consecutive ISO days are consecutive calendar days", format!("{e}; a={a:?} b={b:?}"));
        }
    }
    o
}

// ------------------------------------------------------------------------------------------------
// part: rebuild

pub const ROUTES: [&str; 4] = ["year+code", "year+month", "era+code", "era+month"];
pub const OVERFLOWS: [&str; 2] = ["constrain", "reject"];

fn overflow_of(s: &str) -> ArithmeticOverflow {
    if s == "reject" {
        ArithmeticOverflow::Reject
    } else {
        ArithmeticOverflow::Constrain
    }
}

fn era19(s: &str) -> Option<TinyAsciiStr<19>> {
    TinyAsciiStr::<19>::try_from_utf8(s.as_bytes()).ok()
}

fn partial_for(cal: &Calendar, f: &F, route: &str, era_override: Option<&str>) -> Option<PartialDate> {
    let mut pd = PartialDate::new().with_day(Some(f.d)).with_calendar(cal.clone());
    match route {
        "year+code" | "year+month" => pd = pd.with_year(Some(f.y)),
        _ => {
            let era = era_override.or(f.era.as_deref())?;
            pd = pd.with_era(Some(era19(era)?)).with_era_year(Some(f.ey?));
        }
    }
    match route {
        "year+code" | "era+code" => pd = pd.with_month_code(Some(MonthCode::from_str(&f.code).ok()?)),
        _ => pd = pd.with_month(Some(f.m)),
    }
    Some(pd)
}

/// strips the numbers out of ICU4X range messages so that the signature is stable
fn norm_msg(msg: &str) -> String {
    if msg.starts_with("The ") && msg.contains(" argument is out of range") {
        let field = msg.split(' ').nth(1).unwrap_or("?");
        return format!("The {field} argument is out of range");
    }
    msg.to_string()
}

enum Rb {
    Same,
    Other(PlainDate),
    Err(String, String),
    Panic(String),
}

fn run_partial(pd: PartialDate, ov: ArithmeticOverflow, n: i64, id: &str) -> Rb {
    match guard(|| PlainDate::from_partial(pd, Some(ov))) {
        Err(p) => Rb::Panic(p),
        Ok(Err(e)) => Rb::Err(kind_name(e.kind()).to_string(), e.message().to_string()),
        Ok(Ok(q)) => {
            if ymd_of(&q).n() == n && q.calendar().identifier() == id {
                Rb::Same
            } else {
                Rb::Other(q)
            }
        }
    }
}

fn part_rebuild(k: &Kind, cal: &Calendar, n: i64, f: &F, route: &str, overflow: &str) -> Outcome {
    let id = k.id;
    let mut o = Outcome::pass();
    let by_era = route.starts_with("era");
    let Some(pd) = partial_for(cal, f, route, None) else {
        return o.fail(format!("C16/rebuild/{id}/{route}/fields-not-expressible"), "expressible fields", format!("{f:?}"));
    };
    let era_tag = if by_era && id != "japanext" { format!("by-era[{}]", f.era.as_deref().unwrap_or("?")) } else if by_era { "by-era".to_string() } else { "by-year".to_string() };
    let want = Ymd::from_n(n);
    match run_partial(pd, overflow_of(overflow), n, id) {
        Rb::Same => {}
        Rb::Panic(p) => o = o.fail(panic_sig(id, n, &p), "no panic", p),
        Rb::Err(kind, msg) => {
            let era_stage = msg.starts_with("Era is required")
                || msg.starts_with("Invalid era provided")
                || msg.starts_with("Unknown era")
                || msg.starts_with("Year is not valid for the era");
            let leap_code = code_parts(&f.code).map(|c| c.1).unwrap_or(false);
            let sig = if era_stage {
                format!("C16/rebuild/{id}/{era_tag}/{kind}:{}", norm_msg(&msg))
            } else if msg.starts_with("MonthCode was not valid") || msg.starts_with("Unknown month code") {
                // month-code validation does not depend on the route
                format!("C16/rebuild/{id}/[{}]/{kind}:{}", f.code, norm_msg(&msg))
            } else if !by_era && id == "ethioaa" && msg == "Date is not within ISO date time limits." && n - 2_008_875 < MIN_DAY + 30 {
                // same defect as the wrong date below: 5500 years earlier is before the first representable day
                format!("C16/rebuild/{id}/by-year/year-read-as-era-year")
            } else if by_era
                && id == "japanese"
                && f.era.as_deref() == Some("taisho")
                && f.ey == Some(1)
                && (msg == format!("The month = {} argument is out of range 12..=12", f.m) || (f.m == 12 && msg == format!("The day = {} argument is out of range 25..=31", f.d)))
            {
                // Taisho 1 is validated as Showa 1 (which only has 1926-12-25..31)
                format!("C16/rebuild/{id}/by-era[taisho]/built-as-showa")
            } else if is_observational(k) && f.d == 0 && msg == format!("The day = 0 argument is out of range 1..={}", f.dim) {
                format!("C16/rebuild/{id}/day-0-rejected")
            } else if route.ends_with("month") && k.lunisolar && leap_code && f.d == 30 && msg == "The day = 30 argument is out of range 1..=29" {
                // the leap month has 30 days, the regular month that month() points at has 29
                format!("C16/rebuild/{id}/by-month/leap-month-resolves-to-regular-month")
            } else {
                format!("C16/rebuild/{id}/{route}/{kind}:{}", norm_msg(&msg))
            };
            o = o.fail(sig, format!("{want:?} in {id}"), format!("Err({kind}:{msg}) from {f:?}"));
        }
        Rb::Other(q) => {
            let g = guard(|| fields(&q)).ok();
            let mut sig = format!("C16/rebuild/{id}/{route}/wrong-date");
            if let Some(g) = &g {
                let leap_code = code_parts(&f.code).map(|c| c.1).unwrap_or(false);
                if !by_era && id == "ethioaa" && g.ey == Some(f.y) && g.code == f.code && g.d == f.d {
                    // the extended year reported by year() is read back as a year of the "ethioaa" era
                    sig = format!("C16/rebuild/{id}/by-year/year-read-as-era-year");
                } else if by_era && id == "japanese" && f.era.as_deref() == Some("taisho") && g.era.as_deref() == Some("showa") && g.ey == f.ey && g.code == f.code && g.d == f.d {
                    sig = format!("C16/rebuild/{id}/by-era[taisho]/built-as-showa");
                } else if route.ends_with("month") && leap_code && g.y == f.y && g.d == f.d && Some(g.code.as_str()) == f.code.strip_suffix('L') {
                    // month() of a leap month is the number of the regular month of the same name
                    sig = format!("C16/rebuild/{id}/by-month/leap-month-resolves-to-regular-month");
                }
            }
            o = o.fail(sig, format!("{want:?} in {id}"), format!("{:?} in {} (fields {:?}) from {f:?}", ymd_of(&q), q.calendar().identifier(), g));
        }
    }
    o
}

// ------------------------------------------------------------------------------------------------
// part: with (a value's own field applied to itself is the identity, in every calendar)

fn part_with(k: &Kind, n: i64, p: &PlainDate, f: &F) -> Outcome {
    let id = k.id;
    let cal = p.calendar().clone();
    let mut o = Outcome::pass();
    let mut judged = 0;
    let code = MonthCode::from_str(&f.code).ok();
    let variants: [(&str, PartialDate); 3] = [
        ("day", PartialDate::new().with_day(Some(f.d))),
        ("monthCode", PartialDate::new().with_month_code(code)),
        ("year", PartialDate::new().with_year(Some(f.y))),
    ];
    // what the merge of the record with the receiver amounts to (CalendarMergeFields: a `year` in the record replaces the
    // receiver's era and era year; otherwise the receiver stands in with its era and era year, or with its year where
    // the calendar has no eras). When `from_partial` of that full record fails in the same way, the refusal is the
    // `rebuild` part's finding (era tables, default eras, day 0 ...), not `with`'s.
    let full = |name: &str| partial_for(&cal, f, if name == "year" || f.era.is_none() || f.ey.is_none() { "year+code" } else { "era+code" }, None);
    let same_as_rebuild = |name: &str, e: &temporal_rs::TemporalError| match full(name).map(|pd| guard(|| PlainDate::from_partial(pd, None))) {
        Some(Ok(Err(e2))) => e2.kind() == e.kind() && e2.message() == e.message(),
        _ => false,
    };
    let rebuild_moves = |name: &str| match full(name).map(|pd| guard(|| PlainDate::from_partial(pd, None))) {
        Some(Ok(Ok(q))) => ymd_of(&q).n() != n,
        _ => false,
    };
    for (name, pd) in variants {
        if name == "monthCode" && code.is_none() {
            continue;
        }
        match guard(|| p.with(pd.clone(), None)) {
            Err(pn) => return o.fail(panic_sig(id, n, &pn), "no panic", pn),
            Ok(Ok(q)) => {
                judged += 1;
                if ymd_of(&q).n() != n || q.calendar().identifier() != id {
                    if rebuild_moves(name) {
                        // the full record itself rebuilds another date (e.g. ethioaa's year read as an era year): `rebuild`
                        o.unjudged = true;
                        return o.class("with-unjudged:full-record-rebuilds-another-date(rebuild-part-finding)");
                    }
                    return o.fail(format!("C16/with/{id}/{name}/own-field-changes-the-date"), format!("{:?} in {id}", Ymd::from_n(n)), format!("{:?} in {} from {f:?}", ymd_of(&q), q.calendar().identifier()));
                }
            }
            Ok(Err(e)) => {
                if same_as_rebuild(name, &e) {
                    o = o.class("with-unjudged:full-record-refused-identically(rebuild-part-finding)");
                } else {
                    return o.fail(format!("C16/with/{id}/{name}/refused/{}:{}", kind_name(e.kind()), norm_msg(e.message())), format!("{:?} in {id} (the full record is not refused like this)", Ymd::from_n(n)), err_str(&e));
                }
            }
        }
        // the sibling entry point: PlainDateTime::with resolves the date fields in the receiver's calendar too
        let time = PlainTime::try_new(13, 7, 9, 1, 2, 3).expect("time");
        let via_dt = guard(|| p.to_plain_date_time(Some(time)).and_then(|dt| dt.with(PartialDateTime { date: pd, time: PartialTime::default() }, None)));
        match via_dt {
            Err(pn) => return o.fail(panic_sig(id, n, &pn), "no panic", pn),
            Ok(Ok(q)) => {
                judged += 1;
                let got = Ymd::new(q.iso_year() as i64, q.iso_month(), q.iso_day());
                if got.n() != n || q.calendar().identifier() != id || (q.hour(), q.minute(), q.second(), q.nanosecond()) != (13, 7, 9, 3) {
                    if rebuild_moves(name) {
                        o.unjudged = true;
                        return o.class("with-unjudged:full-record-rebuilds-another-date(rebuild-part-finding)");
                    }
                    return o.fail(format!("C16/with/{id}/{name}/datetime/own-field-changes-the-value"), format!("{:?} 13:07:09.001002003 in {id}", Ymd::from_n(n)), format!("{:?} {}:{}:{} in {} from {f:?}", got, q.hour(), q.minute(), q.second(), q.calendar().identifier()));
                }
            }
            Ok(Err(e)) => {
                if !same_as_rebuild(name, &e) {
                    return o.fail(format!("C16/with/{id}/{name}/datetime/refused/{}:{}", kind_name(e.kind()), norm_msg(e.message())), format!("{:?} in {id} (the full record is not refused like this)", Ymd::from_n(n)), err_str(&e));
                }
            }
        }
    }
    if judged == 0 {
        o.unjudged = true;
        return o.class("with-unjudged:every-record-refused-like-its-full-record");
    }
    o.class("with-judged")
}

// ------------------------------------------------------------------------------------------------
// part: year-month built from the calendar fields of the date describes that calendar month

fn part_year_month(k: &Kind, cal: &Calendar, n: i64, f: &F) -> Outcome {
    use temporal_rs::PlainYearMonth;
    let id = k.id;
    let mut o = Outcome::pass();
    let mut judged = 0;
    for route in ["year+code", "era+code"] {
        if route == "era+code" && (f.era.is_none() || f.ey.is_none()) {
            continue;
        }
        let Some(pd) = partial_for(cal, f, route, None) else { continue };
        // a year-month record has no day
        let pd_date = pd.clone().with_day(Some(1));
        let pd = pd.with_day(None);
        match guard(|| PlainYearMonth::from_partial(pd, ArithmeticOverflow::Constrain)) {
            Err(pn) => return o.fail(panic_sig(id, n, &pn), "no panic", pn),
            Ok(Ok(ym)) => {
                judged += 1;
                let got = guard(|| (ym.year(), ym.month_code().as_str().to_string()));
                match got {
                    Ok((y, code)) => {
                        if y != f.y || code != f.code {
                            if id == "ethioaa" && route == "year+code" && y == f.y - 5500 && code == f.code {
                                // same root cause as C16/rebuild/ethioaa/by-year/year-read-as-era-year, seen through
                                // PlainYearMonth::from_partial
                                return o.fail("C16/yearmonth/ethioaa/by-year/year-read-as-era-year", format!("year {} month code {}", f.y, f.code), format!("year {y} month code {code}"));
                            }
                            // defect model (calendar library): the first day of that month, built as a *date* from the same
                            // fields, does not read back as that month either - nothing specific to year-months
                            let as_date = guard(|| PlainDate::from_partial(pd_date.clone(), Some(ArithmeticOverflow::Constrain)).map(|d| (d.year(), d.month_code().as_str().to_string(), d.day())));
                            if let Ok(Ok((dy, dcode, dd))) = &as_date {
                                if (*dy, dcode.as_str()) == (y, code.as_str()) && (*dy != f.y || *dcode != f.code) {
                                    return o.fail(format!("C16/yearmonth/{id}/{route}/first-day-of-the-month-does-not-read-back-as-a-date-either"), format!("year {} month code {}", f.y, f.code), format!("date from (year {}, {}, day 1) reads back year {dy} {dcode} day {dd}", f.y, f.code));
                                }
                            }
                            return o.fail(format!("C16/yearmonth/{id}/{route}/describes-another-month"), format!("year {} month code {}", f.y, f.code), format!("year {y} month code {code} (ISO {}-{:02})", ym.iso_year(), ym.iso_month()));
                        }
                        // the year-level and month-level fields of the year-month are those of every date in that month
                        match guard(|| (ym.month(), ym.days_in_month(), ym.days_in_year(), ym.months_in_year(), ym.in_leap_year(), ym.era().map(|e| e.as_str().to_string()), ym.era_year())) {
                            Ok(got) => {
                                let want = (f.m, f.dim, f.diy, f.miy, f.leap, f.era.clone(), f.ey);
                                if got != want {
                                    return o.fail(
                                        format!("C16/yearmonth/{id}/{route}/fields-differ-from-the-dates-of-the-month"),
                                        format!("(month, days in month, days in year, months in year, leap, era, era year) = {want:?}"),
                                        format!("{got:?} (year {y} {code})"),
                                    );
                                }
                            }
                            Err(pn) => return o.fail(panic_sig(id, n, &pn), "no panic", pn),
                        }
                    }
                    Err(pn) => return o.fail(panic_sig(id, n, &pn), "no panic", pn),
                }
            }
            Ok(Err(e)) => {
                // a refusal is the `rebuild` part's finding when the same record with day 1 is refused in the same way as a
                // date (era tables, default eras); a record that makes a date must make a year-month
                match guard(|| PlainDate::from_partial(pd_date, Some(ArithmeticOverflow::Constrain))) {
                    Ok(Err(e2)) if e2.kind() == e.kind() && e2.message() == e.message() => o = o.class("yearmonth-unjudged:date-record-refused-identically(rebuild-part-finding)"),
                    Ok(Ok(_)) => return o.fail(format!("C16/yearmonth/{id}/{route}/refused-although-the-date-record-is-accepted/{}:{}", kind_name(e.kind()), norm_msg(e.message())), format!("year {} month code {}", f.y, f.code), err_str(&e)),
                    _ => o = o.class("yearmonth-unjudged:date-record-refused-differently"),
                }
            }
        }
    }
    if judged == 0 {
        o.unjudged = true;
        return o.class("yearmonth-unjudged:every-record-refused");
    }
    o.class("yearmonth-judged")
}

// ------------------------------------------------------------------------------------------------
// part: alias

fn part_alias(k: &Kind, cal: &Calendar, n: i64, f: &F, alias: &str) -> Outcome {
    let id = k.id;
    let mut o = Outcome::pass().class("alias");
    let (Some(pa), Some(pc)) = (partial_for(cal, f, "era+code", Some(alias)), partial_for(cal, f, "era+code", None)) else {
        return o.fail(format!("C16/alias/{id}/{alias}/fields-not-expressible"), "expressible fields", format!("{f:?}"));
    };
    let want = Ymd::from_n(n);
    let ra = run_partial(pa, ArithmeticOverflow::Constrain, n, id);
    if let Rb::Same = ra {
        return o;
    }
    // the alias does not give the date: is that the alias, or does the reported era name itself fail the
    // same way (then the `rebuild` part reports it and the alias law cannot be judged)?
    let rc = run_partial(pc, ArithmeticOverflow::Constrain, n, id);
    let same_failure = match (&ra, &rc) {
        (Rb::Err(k1, m1), Rb::Err(k2, m2)) => k1 == k2 && m1 == m2,
        (Rb::Other(a), Rb::Other(b)) => a == b,
        (Rb::Panic(a), Rb::Panic(b)) => a.split(": ").next() == b.split(": ").next(),
        _ => false,
    };
    if same_failure {
        o.unjudged = true;
        return o.class("alias-unjudged:reported-era-fails-identically");
    }
    let reported = f.era.as_deref().unwrap_or("?");
    match ra {
        Rb::Same => {}
        Rb::Panic(p) => o = o.fail(panic_sig(id, n, &p), "no panic", p),
        Rb::Err(kind, msg) => {
            o = o.fail(format!("C16/alias/{id}/{alias}(={reported})/{kind}:{}", norm_msg(&msg)), format!("{want:?} in {id}"), format!("Err({kind}:{msg}) from {f:?}"))
        }
        Rb::Other(q) => o = o.fail(format!("C16/alias/{id}/{alias}(={reported})/wrong-date"), format!("{want:?} in {id}"), format!("{:?} from {f:?}", ymd_of(&q))),
    }
    o
}

// ------------------------------------------------------------------------------------------------
// sub-checks (used by replay; the sweep evaluates the same part functions with shared fields)

#[derive(Serialize, Deserialize, Debug, Clone)]
pub struct DateCase {
    pub cal: String,
    pub n: i64,
}
#[derive(Serialize, Deserialize, Debug, Clone)]
pub struct RebuildCase {
    pub cal: String,
    pub n: i64,
    pub route: String,
    pub overflow: String,
}
#[derive(Serialize, Deserialize, Debug, Clone)]
pub struct AliasCase {
    pub cal: String,
    pub n: i64,
    pub alias: String,
}

fn with_date(cal_id: &str, n: i64, f: impl FnOnce(&'static Kind, &Calendar, &PlainDate, &F) -> Outcome) -> Outcome {
    let Some(k) = kind_of(cal_id) else {
        return Outcome::pass().fail("C16/case/unknown-calendar", "a known calendar", cal_id);
    };
    let cal = match Calendar::from_str(k.id) {
        Ok(c) => c,
        Err(e) => return Outcome::pass().fail(format!("C16/ident/{}/rejected", k.id), "Ok", err_str(&e)),
    };
    if !date_in_range(n) {
        return Outcome::pass().fail("C16/case/day-out-of-range", "day in range", n.to_string());
    }
    let p = match mk(&cal, n) {
        Ok(p) => p,
        Err(e) => return Outcome::pass().fail(format!("C16/fields/{}/construct", k.id), "Ok", e),
    };
    match guard(|| fields(&p)) {
        Ok(fl) => f(k, &cal, &p, &fl),
        Err(pn) => panic_outcome(k.id, n, pn),
    }
}

pub struct FieldsSub;
impl SubCheck for FieldsSub {
    type Case = DateCase;
    fn name(&self) -> &'static str {
        "fields"
    }
    fn eval(&self, c: &DateCase) -> Outcome {
        with_date(&c.cal, c.n, |k, cal, p, f| part_fields(k, cal, c.n, p, f))
    }
}
pub struct SuccSub;
impl SubCheck for SuccSub {
    type Case = DateCase;
    fn name(&self) -> &'static str {
        "succ"
    }
    fn eval(&self, c: &DateCase) -> Outcome {
        with_date(&c.cal, c.n, |k, cal, _p, f| {
            if !date_in_range(c.n + 1) {
                return Outcome::pass();
            }
            match mk(cal, c.n + 1).and_then(|q| guard(|| fields(&q))) {
                Ok(g) => part_succ(k, cal, c.n, f, &g),
                Err(pn) => panic_outcome(k.id, c.n + 1, pn),
            }
        })
    }
}
pub struct RebuildSub;
impl SubCheck for RebuildSub {
    type Case = RebuildCase;
    fn name(&self) -> &'static str {
        "rebuild"
    }
    fn eval(&self, c: &RebuildCase) -> Outcome {
        with_date(&c.cal, c.n, |k, cal, _p, f| part_rebuild(k, cal, c.n, f, &c.route, &c.overflow))
    }
}
pub struct WithSub;
impl SubCheck for WithSub {
    type Case = DateCase;
    fn name(&self) -> &'static str {
        "with"
    }
    fn eval(&self, c: &DateCase) -> Outcome {
        with_date(&c.cal, c.n, |k, _cal, p, f| part_with(k, c.n, p, f))
    }
}
pub struct YearMonthSub;
impl SubCheck for YearMonthSub {
    type Case = DateCase;
    fn name(&self) -> &'static str {
        "yearmonth"
    }
    fn eval(&self, c: &DateCase) -> Outcome {
        with_date(&c.cal, c.n, |k, cal, _p, f| part_year_month(k, cal, c.n, f))
    }
}
pub struct AliasSub;
impl SubCheck for AliasSub {
    type Case = AliasCase;
    fn name(&self) -> &'static str {
        "alias"
    }
    fn eval(&self, c: &AliasCase) -> Outcome {
        with_date(&c.cal, c.n, |k, cal, _p, f| part_alias(k, cal, c.n, f, &c.alias))
    }
}

// ------------------------------------------------------------------------------------------------
// identifiers

#[derive(Serialize, Deserialize, Debug, Clone)]
pub struct IdentCase {
    pub id: String,
    /// bit i set = i-th ASCII letter of the identifier in upper case
    pub mask: u32,
}
pub struct IdentSub;

fn case_variant(id: &str, mask: u32) -> String {
    let mut i = 0;
    id.chars()
        .map(|c| {
            if c.is_ascii_alphabetic() {
                let up = mask >> i & 1 == 1;
                i += 1;
                if up {
                    c.to_ascii_uppercase()
                } else {
                    c
                }
            } else {
                c
            }
        })
        .collect()
}

impl SubCheck for IdentSub {
    type Case = IdentCase;
    fn name(&self) -> &'static str {
        "ident"
    }
    fn eval(&self, c: &IdentCase) -> Outcome {
        let mut o = Outcome::pass().nontrivial(c.mask != 0).class(if c.mask == 0 { "ident-lower" } else { "ident-mixed-case" });
        let Some((_, canon)) = IDENTS.iter().find(|(a, _)| *a == c.id) else {
            return o.fail("C16/case/unknown-identifier", "a listed identifier", c.id.clone());
        };
        let s = case_variant(&c.id, c.mask);
        let a = match Calendar::from_str(&s) {
            Ok(a) => a,
            Err(e) => return o.fail(format!("C16/ident/{}/from_str-rejected", c.id), "Ok", format!("{s}: {}", err_str(&e))),
        };
        let b = match Calendar::from_utf8(s.as_bytes()) {
            Ok(b) => b,
            Err(e) => return o.fail(format!("C16/ident/{}/from_utf8-rejected", c.id), "Ok", format!("{s}: {}", err_str(&e))),
        };
        chk!(o, a.identifier() == *canon, format!("C16/ident/{}/identifier", c.id), canon, a.identifier());
        chk!(o, b.identifier() == *canon && a == b, format!("C16/ident/{}/from_utf8-differs", c.id), canon, b.identifier());
        chk!(o, a.identifier().bytes().all(|ch| !ch.is_ascii_uppercase()), format!("C16/ident/{}/identifier-not-lower-case", c.id), canon, a.identifier());
        match Calendar::from_str(a.identifier()) {
            Ok(back) => {
                chk!(o, back == a && back.identifier() == a.identifier(), format!("C16/ident/{}/identifier-round-trip", c.id), a.identifier(), back.identifier());
            }
            Err(e) => o = o.fail(format!("C16/ident/{}/identifier-does-not-parse", c.id), "Ok", err_str(&e)),
        }
        chk!(o, a.is_iso() == (*canon == "iso8601"), format!("C16/ident/{}/is_iso", c.id), *canon == "iso8601", a.is_iso());
        o
    }
}

// ------------------------------------------------------------------------------------------------
// anchors: ask the calendar where its eras / years / leap months change

#[derive(Default, Clone, Debug)]
struct CalInfo {
    /// first ISO day of every era found (era string changes between n-1 and n)
    era_starts: Vec<i64>,
    /// first day with year() >= 1, and (single-era calendars) first day with era_year() >= 1
    epochs: Vec<i64>,
    /// first day of leap months found (lunisolar)
    leap_months: Vec<i64>,
    /// some new-year days
    new_years: Vec<i64>,
}

fn probe<T>(cal: &Calendar, n: i64, f: impl FnOnce(&PlainDate) -> T) -> Option<T> {
    let p = mk(cal, n).ok()?;
    guard(|| f(&p)).ok()
}

/// smallest n in (lo, hi] with pred(n) true, given pred(lo) false and pred(hi) true (pred monotone in between)
fn bisect(mut lo: i64, mut hi: i64, pred: &dyn Fn(i64) -> Option<bool>) -> Option<i64> {
    while hi - lo > 1 {
        let mid = lo + (hi - lo) / 2;
        if pred(mid)? {
            hi = mid;
        } else {
            lo = mid;
        }
    }
    Some(hi)
}

fn derive_info(k: &Kind, cal: &Calendar) -> CalInfo {
    let mut info = CalInfo::default();
    let era = |n: i64| probe(cal, n, |p| p.era().map(|e| e.as_str().to_string()));
    if k.cost == Cost::Cheap {
        // era boundaries: fine scan of ISO years -1000..2300 and a coarse scan of the whole range
        let mut scan = |lo: i64, hi: i64, step: i64| {
            let mut n = lo;
            let mut prev = era(n);
            while n + step <= hi {
                let next = era(n + step);
                if next != prev {
                    if let (Some(a), Some(_)) = (&prev, &next) {
                        let a = a.clone();
                        // the first change point inside (n, n+step]
                        if let Some(b) = bisect(n, n + step, &|x| era(x).map(|e| e != a)) {
                            info.era_starts.push(b);
                        }
                    }
                }
                prev = next;
                n += step;
            }
        };
        scan(to_days(-1000, 1, 1), to_days(2300, 1, 1), 20);
        scan(MIN_DAY, MAX_DAY, 40_000);
        info.era_starts.sort();
        info.era_starts.dedup();
    }
    // epoch: first day of year 1
    let (lo, hi) = (to_days(-8000, 1, 1), to_days(4000, 1, 1));
    let year = |n: i64| probe(cal, n, |p| p.year());
    if let (Some(a), Some(b)) = (year(lo), year(hi)) {
        if a < 1 && b >= 1 {
            if let Some(e) = bisect(lo, hi, &|x| year(x).map(|y| y >= 1)) {
                info.epochs.push(e);
            }
        }
    }
    if info.era_starts.is_empty() && k.cost == Cost::Cheap {
        let ey = |n: i64| probe(cal, n, |p| p.era_year()).flatten();
        if let (Some(a), Some(b)) = (ey(lo), ey(hi)) {
            if a < 1 && b >= 1 {
                if let Some(e) = bisect(lo, hi, &|x| ey(x).map(|y| y >= 1)) {
                    info.epochs.push(e);
                }
            }
        }
    }
    info.epochs.sort();
    info.epochs.dedup();
    // new years and leap months by walking months
    let starts: &[(i64, i64)] = if k.lunisolar { &[(2019, 75), (1000, 40), (-2000, 40)] } else { &[(2019, 26), (1000, 14)] };
    for (y0, months) in starts {
        let mut s = to_days(*y0, 1, 1);
        // move to the first day of the month
        let Some(d) = probe(cal, s, |p| p.day()) else { continue };
        s -= d as i64 - 1;
        for _ in 0..*months {
            let Some((dim, code, doy)) = probe(cal, s, |p| (p.days_in_month(), p.month_code().as_str().to_string(), p.day_of_year())) else { break };
            if dim == 0 || !date_in_range(s + dim as i64) {
                break;
            }
            if doy == 1 && info.new_years.len() < 6 {
                info.new_years.push(s);
            }
            if code.ends_with('L') {
                info.leap_months.push(s);
            }
            s += dim as i64;
        }
    }
    info
}

// ------------------------------------------------------------------------------------------------
// the sweep

#[derive(Default, Clone)]
struct CalCount {
    dates: u64,
    part_cases: u64,
    nontrivial_dates: u64,
    panics: u64,
    failing_part_cases: u64,
}

/// order used to pick representatives deterministically (independent of thread scheduling)
fn case_key(case: &Value) -> (i64, String) {
    (case["n"].as_i64().unwrap_or(0).abs(), case.to_string())
}

#[derive(Default)]
struct LaneOut {
    stats: Stats,
    per_cal: BTreeMap<&'static str, CalCount>,
    samples: BTreeMap<String, (&'static str, Value)>,
    known: BTreeMap<String, (u64, &'static str, Value)>,
    unknown: BTreeMap<(&'static str, String), (Value, Fail)>,
}

impl LaneOut {
    fn merge(&mut self, o: LaneOut) {
        self.stats.merge(o.stats);
        for (k, c) in o.per_cal {
            let e = self.per_cal.entry(k).or_default();
            e.dates += c.dates;
            e.part_cases += c.part_cases;
            e.nontrivial_dates += c.nontrivial_dates;
            e.panics += c.panics;
            e.failing_part_cases += c.failing_part_cases;
        }
        for (k, v) in o.samples {
            match self.samples.get(&k) {
                Some(old) if case_key(&old.1) <= case_key(&v.1) => {}
                _ => {
                    self.samples.insert(k, v);
                }
            }
        }
        for (k, (cnt, sub, case)) in o.known {
            match self.known.get_mut(&k) {
                Some(old) => {
                    old.0 += cnt;
                    if case_key(&case) < case_key(&old.2) {
                        old.1 = sub;
                        old.2 = case;
                    }
                }
                None => {
                    self.known.insert(k, (cnt, sub, case));
                }
            }
        }
        for (k, v) in o.unknown {
            match self.unknown.get(&k) {
                Some(old) if case_key(&old.0) <= case_key(&v.0) => {}
                _ => {
                    self.unknown.insert(k, v);
                }
            }
        }
    }
}

fn record_part(ctx: &Ctx, out: &mut LaneOut, sub: &'static str, case: Value, o: Outcome, nontrivial: bool, classes: &[&'static str]) -> bool {
    let st = &mut out.stats;
    st.evaluations += 1;
    if o.unjudged {
        st.unjudged += 1;
    }
    for c in classes.iter().chain(o.classes.iter()) {
        *st.classes.entry((*c).to_string()).or_default() += 1;
    }
    *st.classes.entry(format!("sub:{sub}")).or_default() += 1;
    if nontrivial || o.nontrivial {
        st.nontrivial_total += 1;
        if st.distinct.len() < 4_000_000 {
            st.distinct.insert(hash64(&serde_json::to_vec(&json!([sub, case])).unwrap()));
        }
        let key = format!("{sub}+{}", classes.join("+"));
        match out.samples.get(&key) {
            Some(old) if case_key(&old.1) <= case_key(&case) => {}
            _ => {
                out.samples.insert(key, (sub, case.clone()));
            }
        }
    }
    if let Some(f) = o.fail {
        *st.classes.entry(format!("FAIL:{}", f.sig)).or_default() += 1;
        if ctx.is_known(&f.sig).is_some() {
            match out.known.get_mut(&f.sig) {
                Some(old) => {
                    old.0 += 1;
                    if case_key(&case) < case_key(&old.2) {
                        old.1 = sub;
                        old.2 = case;
                    }
                }
                None => {
                    out.known.insert(f.sig.clone(), (1, sub, case));
                }
            }
        } else {
            let key = (sub, f.sig.clone());
            match out.unknown.get(&key) {
                Some(old) if case_key(&old.0) <= case_key(&case) => {}
                _ => {
                    out.unknown.insert(key, (case, f));
                }
            }
        }
        return true;
    }
    false
}

struct Item {
    kind: usize,
    n: i64,
}

fn near_any(list: &[i64], n: i64, w: i64) -> bool {
    // list is sorted
    let i = list.partition_point(|x| *x < n - w);
    i < list.len() && list[i] <= n + w
}

/// the region in which ICU4X has precomputed data for the astronomical calendars (conversions are cheap)
fn modern(n: i64) -> bool {
    (to_days(1905, 1, 1)..to_days(2095, 1, 1)).contains(&n)
}

fn eval_item(ctx: &Ctx, out: &mut LaneOut, k: &'static Kind, cal: &Calendar, info: &CalInfo, n: i64, cache: &mut Option<(usize, i64, F)>, kind_idx: usize) {
    let id = k.id;
    out.per_cal.entry(id).or_default().dates += 1;
    let dcase = json!({"cal": id, "n": n});
    // fields of day n (possibly cached from the previous item's successor)
    let p = match mk(cal, n) {
        Ok(p) => p,
        Err(e) => {
            let o = Outcome::pass().fail(format!("C16/fields/{id}/construct"), "Ok", e);
            record_part(ctx, out, "fields", dcase, o, true, &[id]);
            return;
        }
    };
    if k.cost == Cost::Exp && zone(n) == "far" {
        // light mode: beyond ISO years +-10000 one conversion of the simulated calendars can take seconds (or trips a
        // debug assertion of the library), so only year / month code / day are read and one route is rebuilt
        eval_item_light(ctx, out, k, cal, n, &p);
        return;
    }
    let f = match cache.take() {
        Some((ki, cn, f)) if ki == kind_idx && cn == n => Ok(f),
        _ => guard(|| fields(&p)),
    };
    let f = match f {
        Ok(f) => f,
        Err(pn) => {
            let cc = out.per_cal.get_mut(id).unwrap();
            cc.panics += 1;
            cc.part_cases += 1;
            cc.failing_part_cases += 1;
            record_part(ctx, out, "fields", dcase, panic_outcome(id, n, pn), true, &[id, zone_class(n)]);
            return;
        }
    };
    // non-triviality of the date
    let mut classes: Vec<&'static str> = vec![id, zone_class(n)];
    let near_year = f.doy <= 40 || f.diy.saturating_sub(f.doy) < 40;
    let near_era = near_any(&info.era_starts, n, 40);
    let year_lt1 = f.y < 1;
    let own_leap = f.code.ends_with('L');
    let mut near_leap = own_leap;
    if k.lunisolar && f.miy == 13 && !own_leap {
        for dn in [-40i64, 40] {
            if date_in_range(n + dn) {
                if let Some(c) = probe(cal, n + dn, |q| q.month_code().as_str().to_string()) {
                    near_leap = near_leap || c.ends_with('L');
                }
            }
        }
    }
    if near_year {
        classes.push("near-new-year");
    }
    if near_era {
        classes.push("near-era-boundary");
    }
    if year_lt1 {
        classes.push("calendar-year<1");
    }
    if near_leap {
        classes.push(if own_leap { "in-leap-month" } else { "near-leap-month" });
    }
    let nt = near_year || near_era || year_lt1 || near_leap;
    let mut parts = 0u64;
    let mut fails = 0u64;
    // fields
    let o = match guard(|| part_fields(k, cal, n, &p, &f)) {
        Ok(o) => o,
        Err(pn) => panic_outcome(id, n, pn),
    };
    parts += 1;
    fails += record_part(ctx, out, "fields", dcase.clone(), o, nt, &classes) as u64;
    // successor
    if date_in_range(n + 1) {
        let g = mk(cal, n + 1).and_then(|q| guard(|| fields(&q)));
        let o = match &g {
            Ok(g) => match guard(|| part_succ(k, cal, n, &f, g)) {
                Ok(o) => o,
                Err(pn) => panic_outcome(id, n, pn),
            },
            Err(pn) => panic_outcome(id, n + 1, pn.clone()),
        };
        parts += 1;
        fails += record_part(ctx, out, "succ", dcase.clone(), o, nt, &classes) as u64;
        if let Ok(g) = g {
            *cache = Some((kind_idx, n + 1, g));
        }
    }
    // rebuild: all 8 (route, overflow) combinations; for the two simulated calendars outside their table
    // range (several ms per conversion) a rotating third of the combinations per day
    let all = k.cost != Cost::Exp || modern(n);
    let mut idx = 0i64;
    for route in ROUTES {
        for ov in OVERFLOWS {
            idx += 1;
            if route.starts_with("era") && f.era.is_none() {
                continue;
            }
            if !all && (n + idx).rem_euclid(3) != 0 {
                continue;
            }
            let o = match guard(|| part_rebuild(k, cal, n, &f, route, ov)) {
                Ok(o) => o,
                Err(pn) => panic_outcome(id, n, pn),
            };
            parts += 1;
            let case = json!({"cal": id, "n": n, "route": route, "overflow": ov});
            fails += record_part(ctx, out, "rebuild", case, o, nt, &classes) as u64;
        }
    }
    // aliases
    if let Some(era) = &f.era {
        for (ai, alias) in aliases_of(id, era).into_iter().enumerate() {
            if !all && (n + ai as i64).rem_euclid(2) != 0 {
                continue;
            }
            let o = match guard(|| part_alias(k, cal, n, &f, alias)) {
                Ok(o) => o,
                Err(pn) => panic_outcome(id, n, pn),
            };
            parts += 1;
            let case = json!({"cal": id, "n": n, "alias": alias});
            fails += record_part(ctx, out, "alias", case, o, true, &classes) as u64;
        }
    }
    // with / year-month (ISO itself is C17's / C18's subject)
    if id != "iso8601" && (all || n.rem_euclid(3) == 0) {
        let o = match guard(|| part_with(k, n, &p, &f)) {
            Ok(o) => o,
            Err(pn) => panic_outcome(id, n, pn),
        };
        parts += 1;
        fails += record_part(ctx, out, "with", dcase.clone(), o, nt, &classes) as u64;
        let o = match guard(|| part_year_month(k, cal, n, &f)) {
            Ok(o) => o,
            Err(pn) => panic_outcome(id, n, pn),
        };
        parts += 1;
        fails += record_part(ctx, out, "yearmonth", dcase.clone(), o, nt, &classes) as u64;
    }
    let cc = out.per_cal.get_mut(id).unwrap();
    cc.part_cases += parts;
    cc.failing_part_cases += fails;
    if nt {
        cc.nontrivial_dates += 1;
    }
}

fn eval_item_light(ctx: &Ctx, out: &mut LaneOut, k: &'static Kind, cal: &Calendar, n: i64, p: &PlainDate) {
    let id = k.id;
    let dcase = json!({"cal": id, "n": n});
    let classes = [id, zone_class(n), "light-mode(simulated-calendar-beyond-year-10000)"];
    let r = guard(|| (p.year(), p.month_code().as_str().to_string(), p.day()));
    let cc = out.per_cal.get_mut(id).unwrap();
    cc.part_cases += 1;
    match r {
        Err(pn) => {
            cc.panics += 1;
            cc.failing_part_cases += 1;
            record_part(ctx, out, "fields", dcase, panic_outcome(id, n, pn), true, &classes);
        }
        Ok((y, code, d)) => {
            cc.nontrivial_dates += 1;
            let (iy, im, idd) = from_days(n);
            let mut o = Outcome::pass();
            o.unjudged = true; // only the ISO fields are compared here
            chk!(o, (p.iso_year(), p.iso_month(), p.iso_day()) == (iy as i32, im, idd) && p.calendar().identifier() == id,
                format!("C16/fields/{id}/iso-fields"), (iy, im, idd), (p.iso_year(), p.iso_month(), p.iso_day()));
            record_part(ctx, out, "fields", dcase, o, true, &classes);
            let m = code_parts(&code).map(|c| c.0).unwrap_or(0);
            let f = F { y, m, code, d, doy: 0, dim: 0, diy: 0, miy: 0, leap: false, era: None, ey: None };
            let o = match guard(|| part_rebuild(k, cal, n, &f, "year+code", "constrain")) {
                Ok(o) => o,
                Err(pn) => panic_outcome(id, n, pn),
            };
            let case = json!({"cal": id, "n": n, "route": "year+code", "overflow": "constrain"});
            let failed = record_part(ctx, out, "rebuild", case, o, true, &classes);
            let cc = out.per_cal.get_mut(id).unwrap();
            cc.part_cases += 1;
            cc.failing_part_cases += failed as u64;
        }
    }
}

fn zone_class(n: i64) -> &'static str {
    if zone(n) == "far" {
        "iso-year-beyond-10000"
    } else {
        "iso-year-within-10000"
    }
}

/// far-zone days used for the two simulated Islamic calendars (measured: each returns or panics within seconds)
const EXP_FAR_DAYS: [i64; 11] = [-90_000_000, -60_000_000, -12_000_000, -8_000_000, -5_000_000, 5_000_000, 8_000_000, 12_000_000, 30_000_000, 60_000_000, 90_000_000];

fn push_window(v: &mut Vec<i64>, centre: i64, w: i64) {
    for n in centre - w..=centre + w {
        if date_in_range(n) {
            v.push(n);
        }
    }
}

pub fn run(ctx: &mut Ctx) {
    ctx.rule = "per calendar (17 non-ISO kinds + iso8601): ISO days = dense windows around every era start found by scanning the calendar's own era() (fine scan -1000..2300, coarse scan of the whole range), around the first day of year 1 / eraYear 1 (bisection on year()), around 0001-01-01, 1970-01-01, both range ends, around leap months and new years found by walking months (chinese/dangi/hebrew), + an even stride over the whole range + generated days (whole range / ISO years -10000..10000 / 1800..2200; for chinese, dangi, islamic, islamic-umalqura additionally many generated days in 1905..2095 where the library has precomputed data and conversions are cheap); budgets scaled by measured conversion cost (see cases_per_calendar). Each date is judged in parts: fields, succ, rebuild x 4 routes x 2 overflow modes, alias x every alias of the reported era, with (the date's own day / month code / year applied to itself must not move it) and yearmonth (a PlainYearMonth built from the date's calendar year and month code must report that year and month code); every part is one case. non-trivial = date within 40 days of an era start / of a calendar new year / of a leap month, or calendar year < 1, or (alias part) alias != reported era name; ident: mixed-case variants. Panics are caught per part and carry the signature C16/panic/<calendar>/<far|core>/<location>; 'core' (ISO years -10000..10000) is never listed.".into();
    ctx.assumptions = vec![
        "oracle: ISO round trip + successor invariant; month ordinal in 13-month lunisolar years re-derived by walking the year's months with the crate's own day_of_year/days_in_month (which the successor law checks locally)".into(),
        "era alias table written from the 2024 intl-era-monthcode era table (not from era.rs); aliases are compared with the era name the calendar itself reports; when that name fails identically the alias case is unjudged (the rebuild part reports the failure)".into(),
        "the leap-year flag is compared with the year length of the calendar family (13 months / 366 / 355 days); unusual year lengths of the simulated calendars are not judged".into(),
        "weeks, date_add and date_until of non-ISO calendars are 'not yet implemented' in the crate and not part of the statement".into(),
    ];
    ctx.note("islamic and islamic-umalqura (ICU4X simulates the moon outside ~1901-2144): beyond ISO years +-10000 a single conversion takes from milliseconds to more than 15 s (islamic-umalqura at day number -21065627, ISO year about -55700, needed about 60 s for four conversions) or trips a debug assertion of the library; these two calendars are therefore swept densely only inside ISO years -10000..10000, the far zone is represented by both range ends and a fixed list of 11 days (EXP_FAR_DAYS) that are evaluated in a light mode (year, month code, day, one rebuild route). All other calendars are swept over the whole range. The panics found there are listed as findings by (calendar, location).");
    ctx.note("for islamic / islamic-umalqura outside 1905..2095 and inside ISO years -10000..10000 a rotating third of the 8 rebuild combinations and half of the aliases are evaluated per day (every combination is covered on consecutive days of the dense windows)");
    let tier = ctx.tier;

    // ---- identifiers: every case variant (exhaustive)
    let mut ident_cases: Vec<IdentCase> = vec![];
    for (id, _) in IDENTS {
        let letters = id.chars().filter(|c| c.is_ascii_alphabetic()).count() as u32;
        for mask in 0..(1u32 << letters) {
            ident_cases.push(IdentCase { id: id.to_string(), mask });
        }
    }
    let ic = &ident_cases;
    ctx.run_enum(&IdentSub, ic.len() as u64, &|i| ic[i as usize].clone(), true);
    ctx.stats.samples.truncate(3);

    // ---- calendars and their anchors
    let cals: Vec<Calendar> = KINDS.iter().map(|k| Calendar::from_str(k.id).expect("calendar id")).collect();
    let mut infos: Vec<CalInfo> = vec![CalInfo::default(); NKINDS];
    std::thread::scope(|sc| {
        let hs: Vec<_> = (0..NKINDS)
            .map(|i| {
                let cal = &cals[i];
                sc.spawn(move || derive_info(&KINDS[i], cal))
            })
            .collect();
        for (i, h) in hs.into_iter().enumerate() {
            infos[i] = h.join().expect("derive_info");
        }
    });
    let mut anchors_json = serde_json::Map::new();
    for i in 0..NKINDS {
        let show = |v: &Vec<i64>| -> Vec<String> {
            v.iter()
                .take(12)
                .map(|n| {
                    let (y, m, d) = from_days(*n);
                    format!("{y:04}-{m:02}-{d:02}")
                })
                .collect()
        };
        anchors_json.insert(
            KINDS[i].id.to_string(),
            json!({"era_starts_found": infos[i].era_starts.len(), "era_starts_first12": show(&infos[i].era_starts), "epochs": show(&infos[i].epochs),
                   "leap_month_starts": show(&infos[i].leap_months), "new_years": show(&infos[i].new_years)}),
        );
    }
    ctx.extra.insert("anchors_derived_from_the_calendars".into(), Value::Object(anchors_json));

    // ---- the dates per calendar
    let mut items: Vec<Item> = vec![];
    for (ki, k) in KINDS.iter().enumerate() {
        let info = &infos[ki];
        let mut v: Vec<i64> = vec![];
        let many = info.era_starts.len() > 12;
        // (window in the cheap region, window in the expensive region, stride points, generated days, generated modern days)
        let (w_near, w_far, n_stride, n_rand, n_modern): (i64, i64, u64, u64, u64) = match k.cost {
            Cost::Cheap => (if many { tier.pick(45, 400) as i64 } else { 400 }, if many { tier.pick(45, 400) as i64 } else { 400 }, tier.pick(5000, 60_000), tier.pick(10_000, 150_000), 0),
            Cost::Mid => (400, tier.pick(60, 250) as i64, tier.pick(400, 3000), tier.pick(800, 6000), tier.pick(6000, 100_000)),
            Cost::Exp => (400, tier.pick(30, 120) as i64, tier.pick(24, 160), tier.pick(100, 600), tier.pick(12_000, 200_000)),
        };
        let w = |n: i64| if k.cost == Cost::Cheap || modern(n) { w_near } else { w_far };
        for &a in info.era_starts.iter().chain(info.epochs.iter()) {
            push_window(&mut v, a, w(a));
        }
        push_window(&mut v, to_days(1970, 1, 1), w_near);
        push_window(&mut v, to_days(1, 1, 1), if k.cost == Cost::Exp { w_far / 2 } else { w(to_days(1, 1, 1)) });
        for &a in info.new_years.iter().take(4) {
            push_window(&mut v, a, w(a).min(if k.cost == Cost::Cheap { 60 } else { 45 }));
        }
        // leap months: the first ones of every walk, at least 300 days apart
        let leap_take = match k.cost {
            Cost::Cheap => 6,
            _ => tier.pick(4, 8) as usize,
        };
        let mut taken = 0;
        let mut last: Option<i64> = None;
        for &a in &info.leap_months {
            if taken >= leap_take {
                break;
            }
            if last.map(|l| (a - l).abs() < 300).unwrap_or(false) {
                continue;
            }
            push_window(&mut v, a, w(a).min(if modern(a) || k.cost == Cost::Cheap { 120 } else { 40 }));
            last = Some(a);
            taken += 1;
        }
        // both range ends
        let w_end = if k.cost == Cost::Cheap { 40 } else { 2 };
        push_window(&mut v, MIN_DAY, w_end);
        push_window(&mut v, MAX_DAY, w_end);
        // stride over the whole range (offset depends on the seed). The two simulated Islamic calendars are the
        // exception: beyond ISO years +-10000 a single conversion can take from milliseconds to more than 15 s
        // (islamic-umalqura at day -21065627 needed ~60 s for four conversions) or trip a debug assertion, so
        // their stride and generated days stay inside ISO years -10000..10000 and the far zone is represented by
        // both range ends and a fixed list of days that were measured to return or panic within seconds.
        let (s_lo, s_hi) = if k.cost == Cost::Exp { (to_days(-10_000, 1, 1), to_days(10_000, 12, 31)) } else { (MIN_DAY, MAX_DAY) };
        let span = (s_hi - s_lo) as i128;
        let off = (ctx.sub_seed(k.id, 0) % 1000) as i128;
        for i in 0..n_stride {
            let n = s_lo as i128 + (i as i128 * 1000 + off) * span / (n_stride as i128 * 1000);
            v.push(n as i64);
        }
        if k.cost == Cost::Exp {
            v.extend(EXP_FAR_DAYS);
        }
        // generated days
        let strat = prop_oneof![
            3 => s_lo..=s_hi,
            4 => to_days(-10_000, 1, 1)..=to_days(10_000, 12, 31),
            3 => to_days(1800, 1, 1)..=to_days(2200, 1, 1),
        ];
        v.extend(sample_strategy(&strat, ctx.sub_seed(k.id, 1), n_rand as usize));
        if n_modern > 0 {
            let strat = to_days(1905, 1, 1)..to_days(2095, 1, 1);
            v.extend(sample_strategy(&strat, ctx.sub_seed(k.id, 2), n_modern as usize));
        }
        v.sort();
        v.dedup();
        items.extend(v.into_iter().map(|n| Item { kind: ki, n }));
    }
    // chunks of consecutive items of one calendar; expensive chunks first; lanes take the next chunk when free.
    // Which lane evaluates a chunk does not influence any reported number or representative (see case_key).
    let lanes = ctx.threads.max(1);
    let mut chunks: Vec<(u8, &[Item])> = vec![];
    {
        let mut i = 0;
        while i < items.len() {
            let kind = items[i].kind;
            let cheap_here = KINDS[kind].cost == Cost::Cheap || modern(items[i].n);
            let (rank, size) = match (KINDS[kind].cost, cheap_here) {
                (Cost::Exp, false) => (0, 2),
                (Cost::Mid, false) => (1, 8),
                _ => (2, 64),
            };
            let mut j = i;
            while j < items.len() && items[j].kind == kind && j - i < size && (KINDS[kind].cost == Cost::Cheap || modern(items[j].n) == modern(items[i].n)) {
                j += 1;
            }
            chunks.push((rank, &items[i..j]));
            i = j;
        }
        chunks.sort_by_key(|c| c.0);
    }
    let mut total = LaneOut::default();
    {
        let this: &Ctx = ctx;
        let chunks = &chunks;
        let cals = &cals;
        let infos = &infos;
        let next = std::sync::atomic::AtomicUsize::new(0);
        let next = &next;
        std::thread::scope(|sc| {
            let hs: Vec<_> = (0..lanes)
                .map(|lane| {
                    sc.spawn(move || {
                        set_lane(lane);
                        let mut out = LaneOut::default();
                        let mut cache: Option<(usize, i64, F)> = None;
                        loop {
                            let ci = next.fetch_add(1, std::sync::atomic::Ordering::Relaxed);
                            if ci >= chunks.len() {
                                break;
                            }
                            for it in chunks[ci].1.iter() {
                                beat_start();
                                eval_item(this, &mut out, &KINDS[it.kind], &cals[it.kind], &infos[it.kind], it.n, &mut cache, it.kind);
                                beat_end();
                            }
                            cache = None;
                        }
                        out
                    })
                })
                .collect();
            for h in hs {
                total.merge(h.join().expect("lane"));
            }
        });
    }
    let LaneOut { stats, per_cal, samples, known, unknown } = total;
    ctx.absorb("sweep", stats, None);
    for (sig, (cnt, sub, case)) in known {
        let e = ctx.stats.known_hits.entry(sig).or_insert((0, json!({"sub": sub, "case": case})));
        e.0 += cnt;
    }
    for ((sub, _sig), (case, fail)) in unknown {
        ctx.absorb(sub, Stats::default(), Some((case, fail)));
    }
    // written-out samples: per sub-check the (sub, class combination) representatives with the most class labels
    // first (boundary cases), 6 per sub-check
    let mut by_sub: BTreeMap<&'static str, Vec<(usize, Value)>> = BTreeMap::new();
    for (key, (sub, case)) in samples {
        by_sub.entry(sub).or_default().push((key.matches('+').count(), case));
    }
    for (sub, mut v) in by_sub {
        v.sort_by_key(|(labels, c)| (std::cmp::Reverse(*labels), case_key(c)));
        for (_, case) in v.into_iter().take(6) {
            ctx.stats.samples.push(json!({"sub": sub, "case": case}));
        }
    }
    let mut pc = serde_json::Map::new();
    let mut starved: BTreeSet<&str> = BTreeSet::new();
    for k in KINDS.iter() {
        let c = per_cal.get(k.id).cloned().unwrap_or_default();
        if c.dates == 0 || c.nontrivial_dates == 0 {
            starved.insert(k.id);
        }
        pc.insert(
            k.id.to_string(),
            json!({"dates": c.dates, "part_cases": c.part_cases, "nontrivial_dates": c.nontrivial_dates,
                   "dates_whose_getters_panicked": c.panics, "failing_part_cases": c.failing_part_cases,
                   "cost_class": format!("{:?}", k.cost)}),
        );
    }
    ctx.extra.insert("cases_per_calendar".into(), Value::Object(pc));
    if !starved.is_empty() {
        ctx.note(format!("generator starved for calendars {starved:?}"));
        println!("INCONCLUSIVE property=C16 generator starved for {starved:?}");
        std::process::exit(2);
    }
}

pub fn replay(ctx: &mut Ctx, sub: &str, case: &Value) -> bool {
    match sub {
        "fields" => ctx.replay_case(&FieldsSub, case),
        "succ" => ctx.replay_case(&SuccSub, case),
        "rebuild" => ctx.replay_case(&RebuildSub, case),
        "alias" => ctx.replay_case(&AliasSub, case),
        "with" => ctx.replay_case(&WithSub, case),
        "yearmonth" => ctx.replay_case(&YearMonthSub, case),
        "ident" => ctx.replay_case(&IdentSub, case),
        _ => false,
    }
}
