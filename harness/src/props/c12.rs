//! C12 - parsers accept exactly the Temporal grammar of their type.
//!
//! Differential against `c12::grammar` (independent recursive-descent recognisers, DESIGN.md Appendix B):
//! for every string s and parser P: `P(s)` is Ok iff the reference accepts, the value equals the value the
//! grammar assigns, and a rejection is an `Err` of kind Range (never a panic).

pub mod gen;
pub mod grammar;

use crate::conv::*;
use crate::run::*;
use crate::tzp::TableProvider;
use grammar::{Opts, Ref, Tz, Value, Verdict};
use serde::{Deserialize, Serialize};
use serde_json::{json, Value as Json};
use std::str::FromStr;
use std::sync::OnceLock;
use temporal_rs::error::ErrorKind;
use temporal_rs::options::{Disambiguation, OffsetDisambiguation, RelativeTo};
use temporal_rs::{
    Calendar, Duration, Instant, MonthCode, PlainDate, PlainDateTime, PlainMonthDay, PlainTime, PlainYearMonth,
    TemporalError, TimeZone, UtcOffset, ZonedDateTime,
};

pub const NPARSERS: usize = 15;
pub const PARSERS: [&str; NPARSERS] = [
    "PlainDate",
    "PlainDateTime",
    "PlainTime",
    "PlainYearMonth",
    "PlainMonthDay",
    "Instant",
    "Duration",
    "UtcOffset",
    "MonthCode",
    "Calendar",
    "TimeZone.identifier",
    "TimeZone.str",
    "ZonedDateTime",
    "RelativeTo",
    "ZonedDateTime.offset-use",
];
const PARSER_LABELS: [&str; NPARSERS] = [
    "p:PlainDate",
    "p:PlainDateTime",
    "p:PlainTime",
    "p:PlainYearMonth",
    "p:PlainMonthDay",
    "p:Instant",
    "p:Duration",
    "p:UtcOffset",
    "p:MonthCode",
    "p:Calendar",
    "p:TimeZone.identifier",
    "p:TimeZone.str",
    "p:ZonedDateTime",
    "p:RelativeTo",
    "p:ZonedDateTime.offset-use",
];
pub const P_DATE: usize = 0;
pub const P_DATETIME: usize = 1;
pub const P_TIME: usize = 2;
pub const P_YM: usize = 3;
pub const P_MD: usize = 4;
pub const P_INSTANT: usize = 5;
pub const P_DURATION: usize = 6;
pub const P_OFFSET: usize = 7;
pub const P_MONTHCODE: usize = 8;
pub const P_CALENDAR: usize = 9;
pub const P_TZID: usize = 10;
pub const P_TZSTR: usize = 11;
pub const P_ZONED: usize = 12;
pub const P_RELTO: usize = 13;
/// ZonedDateTime::from_str_with_provider with offset option `use` (the written offset decides the instant)
pub const P_ZONED_USE: usize = 14;

/// zones served by the harness provider to ZonedDateTime / RelativeTo (all constant offsets)
const ZONES: [(&str, i64); 3] = [("UTC", 0), ("Etc/GMT+5", -18000), ("Asia/Kolkata", 19800)];

fn provider() -> &'static TableProvider {
    static P: OnceLock<TableProvider> = OnceLock::new();
    P.get_or_init(|| TableProvider::new(ZONES.iter().map(|(n, o)| crate::refm::tz::Zone::fixed(n, *o)).collect()))
}
fn zone_offset_s(name: &str) -> Option<i64> {
    ZONES.iter().find(|(n, _)| n.eq_ignore_ascii_case(name)).map(|(_, o)| *o)
}

// ---------------------------------------------------------------------------------------------
// the two sides

pub fn reference(p: usize, s: &str, opts: Opts) -> Ref {
    match p {
        P_DATE => grammar::plain_date(s, opts),
        P_DATETIME => grammar::plain_date_time(s, opts),
        P_TIME => grammar::plain_time(s, opts),
        P_YM => grammar::plain_year_month(s, opts),
        P_MD => grammar::plain_month_day(s, opts),
        P_INSTANT => grammar::instant(s, opts),
        P_DURATION => grammar::duration(s, opts),
        P_OFFSET => grammar::utc_offset(s, opts),
        P_MONTHCODE => grammar::month_code(s),
        P_CALENDAR => grammar::calendar_string(s, opts),
        P_TZID => grammar::tz_identifier(s, opts),
        P_TZSTR => grammar::tz_string(s, opts),
        P_ZONED => grammar::zoned(s, &zone_offset_s, opts),
        P_RELTO => grammar::relative_to(s, &zone_offset_s, opts),
        P_ZONED_USE => grammar::zoned_use(s, &zone_offset_s, opts),
        _ => unreachable!("parser index"),
    }
}

fn tz_of(t: &TimeZone) -> Result<Tz, TemporalError> {
    Ok(match t {
        TimeZone::IanaIdentifier(s) => Tz::Name(s.clone()),
        TimeZone::UtcOffset(o) => Tz::Offset(offset_minutes(o)?),
    })
}
/// `UtcOffset` exposes its value only as text "+HH:MM"
fn offset_minutes(o: &UtcOffset) -> Result<i32, TemporalError> {
    let t = o.to_string()?;
    let b = t.as_bytes();
    let ok = b.len() == 6 && (b[0] == b'+' || b[0] == b'-') && b[3] == b':' && [1, 2, 4, 5].iter().all(|i| b[*i].is_ascii_digit());
    if !ok {
        return Err(TemporalError::general("harness: unexpected UtcOffset text"));
    }
    let v = ((b[1] - b'0') as i32 * 10 + (b[2] - b'0') as i32) * 60 + (b[4] - b'0') as i32 * 10 + (b[5] - b'0') as i32;
    Ok(if b[0] == b'-' { -v } else { v })
}
fn zoned_value(z: &ZonedDateTime) -> Result<Value, TemporalError> {
    Ok(Value::Zoned { ns: Some(z.epoch_nanoseconds().as_i128()), tz: tz_of(z.timezone())?, cal: z.calendar().identifier().to_string() })
}
fn date_value(d: &PlainDate) -> Value {
    Value::Date { y: d.iso_year() as i64, m: d.iso_month(), d: d.iso_day(), cal: d.calendar().identifier().to_string() }
}

pub fn actual(p: usize, s: &str) -> Result<Value, TemporalError> {
    Ok(match p {
        P_DATE => date_value(&PlainDate::from_str(s)?),
        P_DATETIME => {
            let d = PlainDateTime::from_str(s)?;
            Value::DateTime {
                y: d.iso_year() as i64,
                m: d.iso_month(),
                d: d.iso_day(),
                ns: dt_of(&d).ns,
                cal: d.calendar().identifier().to_string(),
            }
        }
        P_TIME => Value::Time { ns: time_ns(&PlainTime::from_str(s)?) },
        P_YM => {
            let d = PlainYearMonth::from_str(s)?;
            // the hidden reference day shows in the print with the calendar annotation (`2021-05-01[u-ca=iso8601]`)
            let shown = d.to_ixdtf_string(temporal_rs::options::DisplayCalendar::Always);
            let ref_day = shown.split('[').next().and_then(|x| x.rsplit('-').next()).and_then(|x| x.parse::<u8>().ok()).unwrap_or(0);
            Value::YearMonth { y: d.iso_year() as i64, m: d.iso_month(), ref_day, cal: d.calendar().identifier().to_string() }
        }
        P_MD => {
            let d = PlainMonthDay::from_str(s)?;
            Value::MonthDay { m: d.iso_month(), d: d.iso_day(), ref_year: d.iso_year() as i64, cal: d.calendar().identifier().to_string() }
        }
        P_INSTANT => Value::Instant(Instant::from_str(s)?.as_i128()),
        P_DURATION => {
            let d = Duration::from_str(s)?;
            let f = duration_fields(&d);
            let mut o = [0i128; 10];
            for i in 0..10 {
                o[i] = f[i] as i128;
            }
            Value::Duration(o)
        }
        P_OFFSET => Value::Offset(offset_minutes(&UtcOffset::from_str(s)?)?),
        P_MONTHCODE => Value::MonthCode(MonthCode::from_str(s)?.as_str().to_string()),
        P_CALENDAR => Value::Calendar(Calendar::from_str(s)?.identifier().to_string()),
        P_TZID => Value::TimeZone(tz_of(&TimeZone::try_from_identifier_str(s)?)?),
        P_TZSTR => Value::TimeZone(tz_of(&TimeZone::try_from_str(s)?)?),
        P_ZONED => zoned_value(&ZonedDateTime::from_str_with_provider(s, Disambiguation::Compatible, OffsetDisambiguation::Reject, provider())?)?,
        P_ZONED_USE => zoned_value(&ZonedDateTime::from_str_with_provider(s, Disambiguation::Compatible, OffsetDisambiguation::Use, provider())?)?,
        P_RELTO => match RelativeTo::try_from_str_with_provider(s, provider())? {
            RelativeTo::PlainDate(d) => date_value(&d),
            RelativeTo::ZonedDateTime(z) => zoned_value(&z)?,
        },
        _ => unreachable!("parser index"),
    })
}

/// equality of the compared part of two values (expected first)
pub fn values_match(e: &Value, a: &Value) -> bool {
    fn tz_eq(a: &Tz, b: &Tz) -> bool {
        match (a, b) {
            (Tz::Name(x), Tz::Name(y)) => x.eq_ignore_ascii_case(y),
            _ => a == b,
        }
    }
    match (e, a) {
        (Value::Zoned { ns: en, tz: et, cal: ec }, Value::Zoned { ns: an, tz: at, cal: ac }) => {
            (en.is_none() || en == an) && tz_eq(et, at) && ec == ac
        }
        (Value::TimeZone(x), Value::TimeZone(y)) => tz_eq(x, y),
        _ => e == a,
    }
}

// ---------------------------------------------------------------------------------------------
// defect models: narrow explanations of a disagreement.
//
// A model is the reference grammar with ONE deliberate deviation switched on (`grammar::RX_*`). A failing
// case gets the model's signature only if the implementation's result (accept + value, or reject) is
// exactly what the reference-with-that-deviation predicts. A case that needs several listed deviations
// at once gets the `combination-of-listed-models` signature of its scope; anything else keeps the
// generic signature (accept-invalid / reject-valid / value-mismatch).

/// IANA-name shape if `Alpha` is read as "Unicode alphabetic" (what `char::is_alphabetic` accepts)
fn is_unicode_alpha_name(s: &str) -> bool {
    let lead = |c: char| c.is_alphabetic() || c == '.' || c == '_';
    !s.is_empty()
        && !s.is_ascii()
        && s.split('/').all(|comp| {
            let mut it = comp.chars();
            it.next().is_some_and(lead) && it.all(|c| lead(c) || c.is_ascii_digit() || c == '+' || c == '-')
        })
}

pub fn is_iso_parser(p: usize) -> bool {
    matches!(p, P_DATE | P_DATETIME | P_TIME | P_YM | P_MD | P_INSTANT | P_CALENDAR | P_TZSTR | P_ZONED | P_RELTO | P_ZONED_USE)
}

/// where the root cause of model bit `k` lives: "iso" = the layer shared by all ISO-string parsers
/// (ixdtf + parse_ixdtf), else the parser
fn scope_of(k: u32, p: usize) -> &'static str {
    use grammar::*;
    let bit = 1u32 << k;
    if bit & (RX_DUR_REPEAT | RX_DUR_EMPTY) != 0 || p == P_DURATION {
        return "Duration";
    }
    if bit & RX_ZONED_OFFSET_MINUTES != 0 {
        return "zoned"; // the same code in ZonedDateTime::from_str_with_provider and RelativeTo
    }
    if bit & (RX_TIME_Z | RX_TIME_DUP_CAL | RX_LONG_FRACTION) != 0 {
        return "tz-or-calendar-string"; // parse_allowed_timezone_formats / parse_allowed_calendar_formats
    }
    if bit & (RX_MD_FULL_REJECT | RX_RELTO_Z | RX_SUBMIN_TRUNC) != 0 {
        return PARSERS[p];
    }
    "iso"
}

fn agrees(p: usize, s: &str, rx: u32, a: &Result<Value, TemporalError>) -> bool {
    // the over-long-fraction defect was repaired in the shared ISO layer (parse_ixdtf); what is left of it is the
    // time-only shape accepted by the time-zone / calendar string parsers, so the model only explains those
    if rx & grammar::RX_LONG_FRACTION != 0 && !matches!(p, P_CALENDAR | P_TZSTR) {
        return false;
    }
    // likewise the two time-only-string deviations (UTC designator, duplicate critical calendar with equal values) are
    // those of the time-zone / calendar string parsers, which hand a time-only string to ixdtf unchecked; PlainTime and
    // the other parsers validate these themselves, so for them the models explain nothing
    if rx & (grammar::RX_TIME_Z | grammar::RX_TIME_DUP_CAL) != 0 && !matches!(p, P_CALENDAR | P_TZSTR) {
        return false;
    }
    match (reference(p, s, Opts { rx }).verdict, a) {
        (Verdict::Accept(v), Ok(w)) => values_match(&v, w),
        (Verdict::Reject, Err(e)) => e.kind() == ErrorKind::Range,
        // under the model the case falls into a class that is not judged: nothing left to explain
        (Verdict::Unjudged(_), _) => true,
        _ => false,
    }
}

/// smallest set of model bits under which the reference predicts exactly the implementation's result
fn explain(p: usize, s: &str, a: &Result<Value, TemporalError>) -> Option<u32> {
    let n = grammar::RX_COUNT;
    for i in 0..n {
        if agrees(p, s, 1 << i, a) {
            return Some(1 << i);
        }
    }
    for i in 0..n {
        for j in i + 1..n {
            let rx = 1 << i | 1 << j;
            if agrees(p, s, rx, a) {
                return Some(rx);
            }
        }
    }
    for i in 0..n {
        for j in i + 1..n {
            for k in j + 1..n {
                let rx = 1 << i | 1 << j | 1 << k;
                if agrees(p, s, rx, a) {
                    return Some(rx);
                }
            }
        }
    }
    for i in 0..n {
        for j in i + 1..n {
            for k in j + 1..n {
                for l in k + 1..n {
                    let rx = 1 << i | 1 << j | 1 << k | 1 << l;
                    if agrees(p, s, rx, a) {
                        return Some(rx);
                    }
                }
            }
        }
    }
    // more than four at once (byte-level fuzzing stacks the annotation-scanner deviations freely): every listed
    // deviation that applies to this parser switched on together
    let mut all = (1u32 << n) - 1;
    if !matches!(p, P_CALENDAR | P_TZSTR) {
        all &= !(grammar::RX_LONG_FRACTION | grammar::RX_TIME_Z | grammar::RX_TIME_DUP_CAL);
    }
    if agrees(p, s, all, a) {
        return Some(all);
    }
    // ... and the same without the deviations that *reject* valid text (they turn a stack of wrongly accepted parts
    // into a predicted rejection: a month-day given as a full date, a key-like zone name, Z in relativeTo), and
    // without any single further deviation
    let accepting = all & !(grammar::RX_LOWER_ZONE | grammar::RX_MD_FULL_REJECT | grammar::RX_RELTO_Z);
    for base in [accepting, all] {
        if agrees(p, s, base, a) {
            return Some(base);
        }
        for i in 0..n {
            let rx = base & !(1u32 << i);
            if rx != base && agrees(p, s, rx, a) {
                return Some(rx);
            }
        }
    }
    None
}

/// models outside the ISO grammar: the crate's own offset / identifier scanner
fn model_offset_scanner(p: usize, s: &str, a: &Value) -> Option<&'static str> {
    if !matches!(p, P_OFFSET | P_TZID | P_TZSTR) {
        return None;
    }
    if let Some((minutes, colon, has_min, rest)) = grammar::offset_minute_prefix(s) {
        let predicted = match p {
            P_OFFSET => Value::Offset(minutes),
            _ => Value::TimeZone(Tz::Offset(minutes)),
        };
        if *a == predicted {
            // `rest` is what follows Sign HH [:] [MM]
            if has_min && !rest.is_empty() {
                return Some("accept:offset-tail-after-minutes-ignored");
            }
            if colon && !has_min && rest.is_empty() {
                return Some("accept:offset-separator-without-minutes");
            }
        }
    }
    if p != P_OFFSET && is_unicode_alpha_name(s) && *a == Value::TimeZone(Tz::Name(s.to_string())) {
        return Some("accept:non-ascii-alphabetic-in-zone-name");
    }
    None
}

/// signature of a disagreement (`dir` = "accept" | "reject" | "value")
fn signature(p: usize, s: &str, dir: &str, a: &Result<Value, TemporalError>) -> String {
    let name = PARSERS[p];
    if is_iso_parser(p) || p == P_DURATION {
        if let Some(rx) = explain(p, s, a) {
            if rx.count_ones() == 1 {
                let k = rx.trailing_zeros();
                return format!("C12/{}/{dir}:{}", scope_of(k, p), grammar::RX_NAMES[k as usize]);
            }
            let scope = if p == P_DURATION { "Duration" } else { "iso" };
            return format!("C12/{scope}/{dir}:combination-of-listed-models");
        }
    }
    if let Ok(v) = a {
        if dir == "accept" {
            if let Some(m) = model_offset_scanner(p, s, v) {
                let scope = if p == P_OFFSET { "UtcOffset" } else { "TimeZone.identifier" };
                return format!("C12/{scope}/{m}");
            }
        }
    }
    match dir {
        "accept" => format!("C12/{name}/accept-invalid"),
        "reject" => format!("C12/{name}/reject-valid"),
        _ => format!("C12/{name}/value-mismatch"),
    }
}

// ---------------------------------------------------------------------------------------------
// the sub-check

#[derive(Serialize, Deserialize, Debug, Clone)]
pub struct ParseCase {
    /// parser index into PARSERS
    pub p: u8,
    pub s: String,
    /// generator class index into gen::CLASSES
    pub g: u8,
}

impl ParseCase {
    /// a byte-level fuzzer's string against parser `p`
    pub fn fuzz(p: usize, s: &str) -> ParseCase {
        ParseCase { p: p as u8, s: s.to_string(), g: gen::G_FUZZ as u8 }
    }
}

pub struct ParseSub(pub &'static str);

pub fn judge(p: usize, s: &str, g: usize) -> Outcome {
    let r = reference(p, s, Opts::default());
    let a = actual(p, s);
    let name = PARSERS[p];
    let mut o = Outcome::pass().class(PARSER_LABELS[p]).class(gen::CLASSES[g.min(gen::CLASSES.len() - 1)]);
    for l in &r.labels {
        o = o.class(l);
    }
    o = o.nontrivial(a.is_ok() || matches!(r.verdict, Verdict::Accept(_)));
    if let Err(e) = &a {
        o = o.class(match e.kind() {
            ErrorKind::Range => "err:Range",
            ErrorKind::Syntax => "err:Syntax",
            ErrorKind::Type => "err:Type",
            ErrorKind::Assert => "err:Assert",
            ErrorKind::Generic => "err:Generic",
        });
    }
    match (&r.verdict, &a) {
        (Verdict::Unjudged(c), _) => {
            o.unjudged = true;
            o = o.class(c);
        }
        (Verdict::Accept(e), Ok(v)) => {
            o = o.class("v:both-accept");
            if !values_match(e, v) {
                o = o.fail(signature(p, s, "value", &a), format!("{e:?}"), format!("{v:?}"));
            }
        }
        (Verdict::Accept(e), Err(err)) => {
            o = o.class("v:reference-accepts-only");
            let sig = if err.kind() == ErrorKind::Range { signature(p, s, "reject", &a) } else { format!("C12/{name}/reject-valid") };
            o = o.fail(sig, format!("Ok({e:?})"), err_str(err));
        }
        (Verdict::Reject, Ok(v)) => {
            o = o.class("v:implementation-accepts-only");
            o = o.fail(signature(p, s, "accept", &a), "Err(Range)", format!("Ok({v:?})"));
        }
        (Verdict::Reject, Err(err)) => {
            o = o.class("v:both-reject");
            if err.kind() != ErrorKind::Range {
                o = o.fail(format!("C12/{name}/error-kind:{}", kind_name(err.kind())), "Err(Range)", err_str(err));
            }
        }
    }
    o
}

impl SubCheck for ParseSub {
    type Case = ParseCase;
    fn name(&self) -> &'static str {
        self.0
    }
    fn eval(&self, c: &ParseCase) -> Outcome {
        judge((c.p as usize).min(NPARSERS - 1), &c.s, c.g as usize)
    }
}

/// Strict differential for a byte-level fuzz target: every parser on the input; `Err` describes the first
/// disagreement whose signature is not in `known` (panics propagate to the fuzzer).
pub fn fuzz_one(bytes: &[u8], known: &[&str]) -> Result<(), String> {
    let Ok(s) = std::str::from_utf8(bytes) else { return Ok(()) };
    for p in 0..NPARSERS {
        let o = judge(p, s, gen::G_FUZZ);
        if let Some(f) = o.fail {
            if !known.contains(&f.sig.as_str()) {
                return Err(format!("{} on {:?}: expected {} actual {}", f.sig, s, f.expected, f.actual));
            }
        }
    }
    Ok(())
}

// ---------------------------------------------------------------------------------------------

pub fn run(ctx: &mut Ctx) {
    ctx.rule = "strings x parsers: every case is one (parser, string) pair, 15 parsers (ZonedDateTime::from_str_with_provider a second time with offset option `use`, where the written offset decides the instant; FromStr of PlainDate, PlainDateTime, PlainTime, PlainYearMonth, PlainMonthDay, Instant, Duration, UtcOffset, MonthCode, Calendar; TimeZone::try_from_identifier_str / try_from_str; ZonedDateTime::from_str_with_provider and RelativeTo::try_from_str_with_provider over a harness provider serving UTC, Etc/GMT+5, Asia/Kolkata as constant-offset zones, disambiguation compatible / offset reject). sub-check `probe`: systematic cross products (date x time x offset x bracket suffixes; time-only and short year-month / month-day forms; all 4-digit and DD-DD strings for the ambiguity rule; duration part combinations; offsets incl. every +-HH:MM; month codes; calendar and zone identifiers), each string against all 14 parsers. sub-check `gen`: proptest over an entropy tape: (a) grammar-derived valid strings with every production alternative weighted, (b) 1-3 character edits (substitute/insert/delete/swap/duplicate/truncate) and splices of two valid strings, (c) arbitrary short ASCII / UTF-8 strings; the parser is the string's home parser half of the time, any parser otherwise. non-trivial = at least one of the two sides accepts the string. class labels: parser, generator class, productions used by the reference parse, verdict class, error kind.".into();
    ctx.assumptions = vec![
        "oracle: recursive-descent recognisers written from the Temporal grammar (Appendix B), independent of ixdtf; self-tested against accept/reject tables at start".into(),
        "zoned strings: accept/reject always compared; the instant only when neither Z nor a numeric offset is written (resolution is C13)".into(),
        "calendar identifiers judged: the 17 CLDR ids the crate documents; aliases / implementation-defined ids unjudged".into(),
    ];
    match grammar::self_test() {
        Ok(n) => ctx.note(format!("grammar self-test: {n} accept/reject examples ok")),
        Err(e) => {
            println!("INCONCLUSIVE property=C12 reference grammar self-test failed: {e}");
            std::process::exit(2);
        }
    }
    ctx.note("unjudged classes (executed under the no-panic oracle, counted, not compared): U+2212 as sign; calendar aliases / implementation-defined ids (iso, islamicc, japanext, islamic-rgsa, ethiopic-amete-alem, gregorian); year-month / month-day from a full date string with a non-ISO calendar; short year-month / month-day form with a non-ISO calendar inside a time-zone or calendar string; sub-minute offset text with zero seconds (UtcOffset, TimeZone identifiers, offsets used as zone by try_from_str); bare `Z` as time-zone identifier; month codes whose number is outside 01..13; zoned strings whose local date is within one day of the limits; zoned / relativeTo strings naming a zone the provider does not serve (availability is zone resolution, C13)");

    let probes = gen::probes();
    if std::env::var("C12_SURVEY").is_ok() {
        survey(ctx, &probes);
        return;
    }
    // ---- probes: every probe string against every parser
    let n = probes.len() as u64 * NPARSERS as u64;
    ctx.extra.insert("probe_strings".into(), json!(probes.len()));
    ctx.run_enum(
        &ParseSub("probe"),
        n,
        &|i| {
            let (si, p) = ((i / NPARSERS as u64) as usize, (i % NPARSERS as u64) as usize);
            ParseCase { p: p as u8, s: probes[si].clone(), g: gen::G_PROBE as u8 }
        },
        false,
    );

    // ---- generated strings
    let cases = ctx.tier.pick(4_000_000, 100_000_000);
    ctx.run_prop(&ParseSub("gen"), &|| gen::strategy(), cases);

    // ---- generator floors: a class the property names must not be starved
    let mut starved = vec![];
    let floor = |name: &str, min: u64, starved: &mut Vec<String>| {
        let n = ctx.stats.classes.get(name).copied().unwrap_or(0);
        if n < min {
            starved.push(format!("{name}: {n} < {min}"));
        }
    };
    for l in PARSER_LABELS {
        floor(l, 50_000, &mut starved);
    }
    for g in &gen::CLASSES[..6] {
        floor(g, 50_000, &mut starved);
    }
    for (c, min) in [
        ("v:both-accept", 100_000u64),
        ("v:both-reject", 100_000),
        ("date-basic", 5_000),
        ("date-extended", 5_000),
        ("year-signed-6", 5_000),
        ("sep-T", 5_000),
        ("sep-t-lower", 5_000),
        ("sep-space", 5_000),
        ("time-hh", 2_000),
        ("time-hhmm", 2_000),
        ("time-hhmmss", 2_000),
        ("time-hh:mm", 2_000),
        ("time-hh:mm:ss", 2_000),
        ("frac-1", 2_000),
        ("frac-9", 2_000),
        ("frac-comma", 2_000),
        ("second-60", 2_000),
        ("offset-Z", 2_000),
        ("offset-z-lower", 2_000),
        ("offset-hh", 2_000),
        ("offset-hhmm", 2_000),
        ("offset-hh:mm", 2_000),
        ("offset-hhmmss", 2_000),
        ("offset-hh:mm:ss", 2_000),
        ("offset-fraction", 2_000),
        ("zone-name", 2_000),
        ("zone-offset", 2_000),
        ("zone-critical", 2_000),
        ("annotation-calendar", 2_000),
        ("annotation-other-key", 2_000),
        ("annotation-critical", 2_000),
        ("annotation-calendar-duplicate", 2_000),
        ("short-year-month-extended", 1_000),
        ("short-year-month-basic", 1_000),
        ("short-month-day", 1_000),
        ("short-month-day-dashes", 1_000),
        ("time-designator", 1_000),
        ("time-no-designator", 1_000),
        ("duration-fractional-hours", 500),
        ("duration-fractional-minutes", 500),
        ("duration-fractional-seconds", 500),
        ("duration-negative", 500),
        ("duration-lowercase-designator", 500),
        ("monthcode-leap", 500),
        ("tzid-name", 500),
        ("tzid-offset", 500),
        ("calendar-bare-identifier", 500),
        ("relative-to-zoned", 500),
        ("relative-to-plain", 500),
    ] {
        floor(c, min, &mut starved);
    }
    if !starved.is_empty() && ctx.violations.is_empty() {
        println!("INCONCLUSIVE property=C12 generator starved: {}", starved.join("; "));
        std::process::exit(2);
    }
}

/// development aid (`C12_SURVEY=1`): histogram of all failure signatures over the probes and a sample of
/// generated cases, with examples; no verdict is derived from it
fn survey(ctx: &mut Ctx, probes: &[String]) {
    use proptest::strategy::{Strategy, ValueTree};
    let mut hist: std::collections::BTreeMap<String, (u64, Vec<String>)> = Default::default();
    let mut add = |p: usize, s: &str, g: usize| {
        let o = match guard(|| judge(p, s, g)) {
            Ok(o) => o,
            Err(pn) => Outcome::pass().fail(format!("PANIC {}", pn.split(": ").next().unwrap_or("")), "", pn),
        };
        if let Some(f) = o.fail {
            let e = hist.entry(f.sig).or_default();
            e.0 += 1;
            if e.1.len() < 6 {
                e.1.push(format!("{} {:?} => {}", PARSERS[p], s, f.actual));
            }
        }
    };
    for s in probes {
        for p in 0..NPARSERS {
            add(p, s, gen::G_PROBE);
        }
    }
    let n: usize = std::env::var("C12_SURVEY").ok().and_then(|v| v.parse().ok()).unwrap_or(300_000);
    let strat = gen::strategy();
    let mut runner = proptest::test_runner::TestRunner::deterministic();
    for _ in 0..n {
        let c = strat.new_tree(&mut runner).unwrap().current();
        add(c.p as usize, &c.s, c.g as usize);
    }
    for (sig, (n, ex)) in &hist {
        println!("{n:>8}  {sig}");
        for e in ex {
            println!("            {e}");
        }
    }
    ctx.note("survey mode");
}

pub fn replay(ctx: &mut Ctx, sub: &str, case: &Json) -> bool {
    match sub {
        "probe" => ctx.replay_case(&ParseSub("probe"), case),
        "gen" => ctx.replay_case(&ParseSub("gen"), case),
        _ => false,
    }
}
