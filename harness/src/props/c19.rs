//! C19 - convenience and FFI layers return exactly what the core returns.
//!
//! Part A (`compiled`): every compiled-data wrapper `m(args)` (process-wide `TZ_PROVIDER`) against
//! `m_with_provider(args, &FsTzdbProvider::default())`; `Now::*` structurally.
//! Part B (`capi`): every function of every `temporal_capi::*::ffi` module, called from Rust, against the
//! `temporal_rs` method it names; `conv`: enum / option-record / partial-record / I128 conversions.
//! Completeness: the source text of both layers is scanned at run time for `pub fn` names; every wrapper
//! not in the static lists of exercised names is reported in the evidence (not a violation).

use crate::conv::kind_name;
use crate::run::*;
use serde_json::Value;
use temporal_rs::options::{
    ArithmeticOverflow, DifferenceSettings, Disambiguation, DisplayCalendar, DisplayOffset, DisplayTimeZone, OffsetDisambiguation, RoundingIncrement, RoundingMode,
    RoundingOptions, Unit,
};
use temporal_rs::parsers::Precision;
use temporal_rs::{TemporalError, TemporalResult};

pub mod capi;
pub mod compiled;
pub mod conv19;
pub mod gen19;
pub mod scan;

use gen19::Bundle;

/// observed result of one side: rendering of the value, or the error kind
pub type R = Result<String, String>;

/// FFI numbering of units (0 = Auto, 1 = Nanosecond ... 10 = Year)
pub const UNITS: [Unit; 11] =
    [Unit::Auto, Unit::Nanosecond, Unit::Microsecond, Unit::Millisecond, Unit::Second, Unit::Minute, Unit::Hour, Unit::Day, Unit::Week, Unit::Month, Unit::Year];
pub const MODES: [RoundingMode; 9] = [
    RoundingMode::Ceil,
    RoundingMode::Floor,
    RoundingMode::Expand,
    RoundingMode::Trunc,
    RoundingMode::HalfCeil,
    RoundingMode::HalfFloor,
    RoundingMode::HalfExpand,
    RoundingMode::HalfTrunc,
    RoundingMode::HalfEven,
];

pub fn unit_of(i: Option<u8>) -> Option<Unit> {
    i.map(|i| UNITS[(i % 11) as usize])
}
pub fn mode_of(i: Option<u8>) -> Option<RoundingMode> {
    i.map(|i| MODES[(i % 9) as usize])
}
pub fn overflow_of(i: Option<u8>) -> Option<ArithmeticOverflow> {
    i.map(|i| if i % 2 == 0 { ArithmeticOverflow::Constrain } else { ArithmeticOverflow::Reject })
}
pub fn display_cal_of(i: u8) -> DisplayCalendar {
    [DisplayCalendar::Auto, DisplayCalendar::Always, DisplayCalendar::Never, DisplayCalendar::Critical][(i % 4) as usize]
}
pub fn display_offset_of(i: u8) -> DisplayOffset {
    [DisplayOffset::Auto, DisplayOffset::Never][(i % 2) as usize]
}
pub fn display_tz_of(i: u8) -> DisplayTimeZone {
    [DisplayTimeZone::Auto, DisplayTimeZone::Never, DisplayTimeZone::Critical][(i % 3) as usize]
}
pub fn disambiguation_of(i: u8) -> Disambiguation {
    [Disambiguation::Compatible, Disambiguation::Earlier, Disambiguation::Later, Disambiguation::Reject][(i % 4) as usize]
}
pub fn offset_disambiguation_of(i: u8) -> OffsetDisambiguation {
    [OffsetDisambiguation::Use, OffsetDisambiguation::Prefer, OffsetDisambiguation::Ignore, OffsetDisambiguation::Reject][(i % 4) as usize]
}
pub fn precision_of(b: &Bundle) -> Precision {
    if b.pmin {
        Precision::Minute
    } else if let Some(d) = b.pdig {
        Precision::Digit(d)
    } else {
        Precision::Auto
    }
}
/// core-side settings for Part A (both sides receive the same value): an inadmissible increment is dropped
pub fn diff_settings_of(b: &Bundle) -> DifferenceSettings {
    let mut s = DifferenceSettings::default();
    s.largest_unit = unit_of(b.lu);
    s.smallest_unit = unit_of(b.su);
    s.rounding_mode = mode_of(b.rm);
    s.increment = b.inc.and_then(|i| RoundingIncrement::try_new(i).ok());
    s
}
pub fn rounding_options_of(b: &Bundle) -> RoundingOptions {
    let mut s = RoundingOptions::default();
    s.largest_unit = unit_of(b.lu);
    s.smallest_unit = unit_of(b.su);
    s.rounding_mode = mode_of(b.rm);
    s.increment = b.inc.and_then(|i| RoundingIncrement::try_new(i).ok());
    s
}

pub fn ek(e: &TemporalError) -> String {
    kind_name(e.kind()).to_string()
}

/// class labels must be `&'static str`; panic locations are a small open set, interned once each
pub fn intern(s: String) -> &'static str {
    use std::collections::HashMap;
    use std::sync::Mutex;
    static TABLE: Mutex<Option<HashMap<String, &'static str>>> = Mutex::new(None);
    let mut g = TABLE.lock().unwrap_or_else(|e| e.into_inner());
    let t = g.get_or_insert_with(HashMap::new);
    if let Some(v) = t.get(&s) {
        return v;
    }
    if t.len() >= 1000 {
        return "core-panic@(other)";
    }
    let v: &'static str = Box::leak(s.clone().into_boxed_str());
    t.insert(s, v);
    v
}
/// "core-panic@file:line" label from a captured panic text "panic@file:line: message"
pub fn panic_label(p: &str) -> &'static str {
    let loc = p.split(": ").next().unwrap_or("panic@?");
    intern(format!("core-{}", loc.replace("panic@", "panic@")))
}

/// the `&'static str` of a name in a static table (class labels must be static)
pub fn static_name(table: &[&'static str], f: &str) -> &'static str {
    table.iter().copied().find(|n| *n == f).unwrap_or("unknown-function")
}

// ---------------------------------------------------------------------------------------------
// renderings of core values (the FFI side renders through its own getters, see capi.rs)

pub trait Show {
    fn show(&self) -> String;
}
macro_rules! show_debug {
    ($($t:ty),*) => { $(impl Show for $t { fn show(&self) -> String { format!("{:?}", self) } })* };
}
show_debug!(i32, u8, u16, i64, bool, String, std::cmp::Ordering, f64, ());
impl<T: Show> Show for Option<T> {
    fn show(&self) -> String {
        match self {
            None => "None".into(),
            Some(v) => format!("Some({})", v.show()),
        }
    }
}
impl Show for temporal_rs::MonthCode {
    fn show(&self) -> String {
        self.as_str().to_string()
    }
}
impl<const N: usize> Show for temporal_rs::TinyAsciiStr<N> {
    fn show(&self) -> String {
        self.as_str().to_string()
    }
}
impl Show for temporal_rs::primitive::FiniteF64 {
    fn show(&self) -> String {
        format!("{:?}", self.as_inner())
    }
}
impl Show for temporal_rs::PlainDate {
    fn show(&self) -> String {
        format!("{}-{}-{}[{}]", self.iso_year(), self.iso_month(), self.iso_day(), self.calendar().identifier())
    }
}
impl Show for temporal_rs::PlainTime {
    fn show(&self) -> String {
        format!("{}:{}:{}.{}.{}.{}", self.hour(), self.minute(), self.second(), self.millisecond(), self.microsecond(), self.nanosecond())
    }
}
impl Show for temporal_rs::PlainDateTime {
    fn show(&self) -> String {
        format!(
            "{}-{}-{}T{}:{}:{}.{}.{}.{}[{}]",
            self.iso_year(),
            self.iso_month(),
            self.iso_day(),
            self.hour(),
            self.minute(),
            self.second(),
            self.millisecond(),
            self.microsecond(),
            self.nanosecond(),
            self.calendar().identifier()
        )
    }
}
impl Show for temporal_rs::PlainYearMonth {
    fn show(&self) -> String {
        format!("{}-{}[{}] y={} m={} mc={}", self.iso_year(), self.iso_month(), self.calendar().identifier(), self.year(), self.month(), self.month_code().as_str())
    }
}
impl Show for temporal_rs::PlainMonthDay {
    fn show(&self) -> String {
        format!("{}-{}-{}[{}] mc={}", self.iso_year(), self.iso_month(), self.iso_day(), self.calendar().identifier(), self.month_code().as_str())
    }
}
impl Show for temporal_rs::Duration {
    fn show(&self) -> String {
        format!("{:?}", crate::conv::duration_fields(self))
    }
}
impl Show for temporal_rs::Instant {
    fn show(&self) -> String {
        format!("{}", self.as_i128())
    }
}
impl Show for temporal_rs::ZonedDateTime {
    fn show(&self) -> String {
        format!("{}|{:?}|{}", self.epoch_nanoseconds().as_i128(), self.timezone().identifier().map_err(|e| ek(&e)), self.calendar().identifier())
    }
}
impl Show for temporal_rs::options::RelativeTo {
    fn show(&self) -> String {
        match self {
            temporal_rs::options::RelativeTo::PlainDate(d) => format!("PlainDate({})", d.show()),
            temporal_rs::options::RelativeTo::ZonedDateTime(z) => format!("Zoned({})", z.show()),
        }
    }
}
pub fn show_res<T: Show>(r: TemporalResult<T>) -> R {
    match r {
        Ok(v) => Ok(v.show()),
        Err(e) => {
            if debug_on() {
                eprintln!("C19DEBUG {} {}", CUR.with(|c| c.borrow().clone()), crate::conv::err_str(&e));
            }
            Err(ek(&e))
        }
    }
}
thread_local! { pub static CUR: std::cell::RefCell<String> = const { std::cell::RefCell::new(String::new()) }; }
pub fn set_cur(f: &str) {
    if debug_on() {
        CUR.with(|c| *c.borrow_mut() = f.to_string());
    }
}
/// development aid: `C19_DEBUG=1` prints the message of every core error to stderr
pub fn debug_on() -> bool {
    static ON: std::sync::OnceLock<bool> = std::sync::OnceLock::new();
    *ON.get_or_init(|| std::env::var("C19_DEBUG").is_ok())
}

// ---------------------------------------------------------------------------------------------

pub fn run(ctx: &mut Ctx) {
    ctx.rule = "case = (wrapper name drawn uniformly from the static list of exercised wrappers, argument bundle). The bundle holds receivers whose nine fields \
(year, month, day, hour, minute, second, ms, us, ns) are pairwise distinct by construction, a second operand, zones (UTC, 9 named IANA zones incl. America/New_York, \
Europe/London, Asia/Kolkata, Australia/Lord_Howe, 6 fixed offsets), 17 calendars, durations, every option (all variants incl. absent), raw constructor arguments around \
each limit, partial-record masks, strings, every era name and alias of the crate (up to 19 bytes) plus 16/17-byte and upper-case names; one third of the days are among the last three \
of their month; one bundle in five is in transition mode: any real IANA zone, receiver within a day (often within two hours) of one of its listed transitions, \
transitions near a local midnight or with an unusual shift preferred, one in eight from the data-derived class whose skipped interval contains a local midnight strictly \
inside; with_plain_time gets the receiver's own wall time in one case of three. compiled: wrapper(args) vs *_with_provider(args, fresh FsTzdbProvider) - same rendered value or same error kind (the core is \
called first; if it panics the wrapper is not called and the case is unjudged). capi: ffi function vs the temporal_rs method it names; values are rendered through each \
side's own getters; strings read back from DiplomatWrite buffers. conv: exhaustive enum tables, all 64 subsets of PartialDate/PartialTime, all 1024 of PartialDuration, \
option records, I128Nanoseconds. non-trivial: every judged case (the rule of the property); distinct = distinct (function, bundle) by hash; the class histogram counts \
cases per wrapper and per receiver class."
        .into();
    ctx.assumptions = vec![
        "the C ABI thunks generated by diplomat are trusted; the Rust-level ffi methods are what is compared".into(),
        "FsTzdbProvider is a deterministic function of (zone, argument): a fresh instance and the process-wide instance must agree".into(),
        "Now::* is compared structurally: same zone, reading within [Now::instant() before, Now::instant() after] as the core converts those two instants".into(),
    ];
    let tier = ctx.tier;
    let per_fn = tier.pick(2_500, 40_000);

    // ---- Part A
    let n_a = per_fn * compiled::NAMES.len() as u64;
    let names_a: Vec<&'static str> = compiled::NAMES.iter().copied().filter(|n| *n != "Now::*").collect();
    ctx.run_prop(&compiled::CompiledSub, &|| gen19::bundle(names_a.clone(), true), n_a);
    // +14:00 / -12:00: at any moment at least one of them is on a different calendar day than UTC
    let now_zones = ["", "UTC", "America/New_York", "Europe/London", "Asia/Kolkata", "Australia/Lord_Howe", "+14:00", "-12:00"];
    let n_now = tier.pick(3 * 8 * 8, 3 * 8 * 200);
    ctx.run_enum(
        &compiled::NowSub,
        n_now,
        &|i| compiled::NowCase { which: (i % 3) as u8, zone: now_zones[((i / 3) % 8) as usize].to_string(), rep: (i / 24) as u32 },
        false,
    );

    // ---- Part B
    let n_b = per_fn * capi::NAMES.len() as u64;
    ctx.run_prop(&capi::CapiSub, &|| gen19::bundle(capi::NAMES.to_vec(), false), n_b);

    // ---- conversions
    conv19::run(ctx);

    // ---- completeness accounting
    let report = scan::report();
    if let Some(n) = report.get("unexercised_count").and_then(|v| v.as_u64()) {
        ctx.note(format!("completeness: {} wrapper(s) found in the source text are not exercised (listed under coverage.completeness)", n));
    }
    ctx.extra.insert("completeness".into(), report);
}

pub fn replay(ctx: &mut Ctx, sub: &str, case: &Value) -> bool {
    match sub {
        "compiled" => ctx.replay_case(&compiled::CompiledSub, case),
        "now" => ctx.replay_case(&compiled::NowSub, case),
        "capi" => ctx.replay_case(&capi::CapiSub, case),
        "enum" => ctx.replay_case(&conv19::EnumSub, case),
        "partial" => ctx.replay_case(&conv19::PartialSub, case),
        "i128" => ctx.replay_case(&conv19::I128Sub, case),
        "options" => ctx.replay_case(&conv19::OptionsSub, case),
        _ => false,
    }
}
