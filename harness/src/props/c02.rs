//! C02 - every returned value is in range; out-of-range results are RangeErrors; the boundary is exact.
//! Boundary-focused runs of the exact-oracle sub-checks (C04-C07, C09) plus a grid of constructors,
//! conversions and parsers at every limit; executed in the `checked` and in the `release` profile.

use crate::chk;
use crate::conv::*;
use crate::gen;
use crate::props::{c04, c05, c06, c07, c09};
use crate::refm::civil::*;
use crate::refm::dateadd::*;
use crate::refm::dur::{Dur, U};
use crate::refm::fmt::{self, Prec};
use crate::run::*;
use crate::tzp::TableProvider;
use proptest::prelude::*;
use serde::{Deserialize, Serialize};
use serde_json::Value;
use std::str::FromStr;
use temporal_rs::error::ErrorKind;
use temporal_rs::options::{ArithmeticOverflow, Disambiguation};
use temporal_rs::{Instant, PlainDate, PlainDateTime, PlainYearMonth, TimeZone, ZonedDateTime};

const DAY: i128 = NS_PER_DAY;

// ------------------------------------------------------------------------------------------
// limits grid

#[derive(Serialize, Deserialize, Debug, Clone, Copy, PartialEq, Eq)]
pub enum LOp {
    DateTryNew,
    DateNew,
    DateTimeTryNew,
    DateToDateTime,
    FromDateAndTime,
    YearMonthNew,
    DateToYearMonth,
    InstantTryNew,
    InstantFromMs,
    ZonedTryNew,
    DateToZoned,
    DateTimeToZoned,
    DateFromStr,
    DateTimeFromStr,
    InstantFromStr,
    YearMonthFromStr,
    ZonedFromStr,
    /// PlainDate::from_partial / PlainDateTime::from_partial with every field given (ISO calendar)
    DateFromPartial,
    DateTimeFromPartial,
    /// a date-time in range `.with(every field of the target)`, and the target's neighbour (1 ns away, when in
    /// range) `.with(the sub-second fields of the target)`
    DateTimeWith,
    DateTimeWithNeighbour,
    /// PlainDate::from_partial in the roc calendar (era + era year + month + day), i.e. through the non-ISO branch
    DateFromPartialRoc,
}
pub const LOPS: [LOp; 22] = [
    LOp::DateTryNew,
    LOp::DateNew,
    LOp::DateTimeTryNew,
    LOp::DateToDateTime,
    LOp::FromDateAndTime,
    LOp::YearMonthNew,
    LOp::DateToYearMonth,
    LOp::InstantTryNew,
    LOp::InstantFromMs,
    LOp::ZonedTryNew,
    LOp::DateToZoned,
    LOp::DateTimeToZoned,
    LOp::DateFromStr,
    LOp::DateTimeFromStr,
    LOp::InstantFromStr,
    LOp::YearMonthFromStr,
    LOp::ZonedFromStr,
    LOp::DateFromPartial,
    LOp::DateTimeFromPartial,
    LOp::DateTimeWith,
    LOp::DateTimeWithNeighbour,
    LOp::DateFromPartialRoc,
];

#[derive(Serialize, Deserialize, Debug, Clone)]
pub struct LimitCase {
    pub op: LOp,
    /// day number (may be outside the range by a few days)
    pub day: i64,
    /// ns of day
    pub ns: i128,
    /// fixed offset in minutes for the zoned ops / string offsets
    pub off_min: i32,
    /// to-zoned ops at the upper end only: instead of the offset zone, the named zone of the bundled provider that has
    /// this offset (without a DST rule) in the far future, end to end through the crate's own tz data reader
    #[serde(default)]
    pub named: bool,
}

/// rule-less zones of the bundled data and their offsets (minutes) after their last transition
const NAMED_LIMIT_ZONES: [(&str, i32); 4] = [("Asia/Tokyo", 540), ("Asia/Kolkata", 330), ("America/Bogota", -300), ("Pacific/Kiritimati", 840)];
pub struct LimitSub;

fn in_range_date(day: i64) -> bool {
    date_in_range(day)
}

fn check_date_fields(o: &mut Outcome, p: &PlainDate, what: &str) {
    let y = p.iso_year() as i64;
    let ok = valid_ymd(y, p.iso_month() as i64, p.iso_day() as i64) && date_in_range(to_days(y, p.iso_month().clamp(1, 12), p.iso_day().clamp(1, 28)));
    if !o.failed() && !(ok && date_in_range(ymd_of(p).n())) {
        *o = std::mem::take(o).fail(format!("C02/limit/{what}/returned-malformed-or-out-of-range"), "valid date in range", format!("{:?}", ymd_of(p)));
    }
}

impl SubCheck for LimitSub {
    type Case = LimitCase;
    fn name(&self) -> &'static str {
        "limits"
    }
    fn eval(&self, c: &LimitCase) -> Outcome {
        let ymd = Ymd::from_n(c.day);
        let (y, m, d) = (ymd.y as i32, ymd.m, ymd.d);
        let (h, mi, s, ms, us, nn) = split_ns(c.ns);
        let near = |n: i64| (n - MIN_DAY).abs() <= 3 || (n - MAX_DAY).abs() <= 3;
        let mut o = Outcome::pass().nontrivial(near(c.day)).class(match c.op {
            LOp::DateTryNew | LOp::DateNew | LOp::DateFromStr | LOp::DateFromPartial | LOp::DateFromPartialRoc => "date",
            LOp::DateTimeTryNew | LOp::DateToDateTime | LOp::FromDateAndTime | LOp::DateTimeFromStr | LOp::DateTimeFromPartial | LOp::DateTimeWith | LOp::DateTimeWithNeighbour => "date-time",
            LOp::YearMonthNew | LOp::DateToYearMonth | LOp::YearMonthFromStr => "year-month",
            LOp::InstantTryNew | LOp::InstantFromMs | LOp::InstantFromStr => "instant",
            _ => "zoned",
        });
        let dt_ok = datetime_in_range(c.day, c.ns);
        let abs = c.day as i128 * DAY + c.ns;
        let off_ns = c.off_min as i128 * 60_000_000_000;
        macro_rules! verdict {
            ($what:expr, $want_ok:expr, $got:expr, $show:expr) => {
                match (&$got, $want_ok) {
                    (Ok(_), true) => {}
                    (Err(e), false) => chk!(o, e.kind() == ErrorKind::Range, format!("C02/limit/{}/error-kind", $what), "Range", err_str(e)),
                    (Ok(v), false) => o = o.fail(format!("C02/limit/{}/accepted-out-of-range", $what), "RangeError", $show(v)),
                    (Err(e), true) => o = o.fail(format!("C02/limit/{}/rejected-in-range", $what), "Ok", err_str(e)),
                }
            };
        }
        match c.op {
            LOp::DateTryNew | LOp::DateNew => {
                let r = if c.op == LOp::DateTryNew { PlainDate::try_new(y, m, d, iso()) } else { PlainDate::new(y, m, d, iso()) };
                verdict!("PlainDate::new", in_range_date(c.day), r, |v: &PlainDate| format!("{:?}", ymd_of(v)));
                if let Ok(p) = &r {
                    chk!(o, ymd_of(p) == ymd, "C02/limit/PlainDate::new/value", ymd, ymd_of(p));
                    check_date_fields(&mut o, p, "PlainDate::new");
                }
            }
            LOp::DateTimeTryNew => {
                let r = PlainDateTime::try_new(y, m, d, h, mi, s, ms, us, nn, iso());
                verdict!("PlainDateTime::try_new", dt_ok, r, |v: &PlainDateTime| format!("{:?}", dt_of(v)));
                if let Ok(p) = &r {
                    chk!(o, dt_of(p) == Dt { day: c.day, ns: c.ns }, "C02/limit/PlainDateTime::try_new/value", (c.day, c.ns), dt_of(p));
                }
            }
            LOp::DateToDateTime | LOp::FromDateAndTime => {
                if !in_range_date(c.day) {
                    return o;
                }
                let date = plain_date(ymd).expect("in range");
                let time = plain_time(c.ns).expect("time");
                let r = if c.op == LOp::DateToDateTime { date.to_plain_date_time(Some(time)) } else { PlainDateTime::from_date_and_time(date, time) };
                verdict!("date+time", dt_ok, r, |v: &PlainDateTime| format!("{:?}", dt_of(v)));
                if c.op == LOp::DateToDateTime && c.ns == 0 {
                    // an absent time means midnight and is validated like an explicit one
                    let r = plain_date(ymd).expect("in range").to_plain_date_time(None);
                    verdict!("to_plain_date_time(None)", dt_ok, r, |v: &PlainDateTime| format!("{:?}", dt_of(v)));
                }
                // the infallible conversion From<PlainDate> must not produce an out-of-range date-time either
                if c.op == LOp::DateToDateTime {
                    let p: PlainDateTime = PlainDateTime::from(plain_date(ymd).unwrap());
                    let x = dt_of(&p);
                    if !x.in_range() {
                        o = o.fail("C02/limit/From<PlainDate>-for-PlainDateTime/out-of-range-value", "a date-time inside the limits (or no infallible conversion)", format!("{x:?}"));
                    }
                }
            }
            LOp::YearMonthNew => {
                let r = PlainYearMonth::new_with_overflow(y, m, None, iso(), ArithmeticOverflow::Reject);
                verdict!("PlainYearMonth::new", ym_in_range(ymd.y, m), r, |v: &PlainYearMonth| format!("{}-{}", v.iso_year(), v.iso_month()));
            }
            LOp::DateToYearMonth => {
                if !in_range_date(c.day) {
                    return o;
                }
                let r = plain_date(ymd).unwrap().to_plain_year_month();
                verdict!("to_plain_year_month", ym_in_range(ymd.y, m), r, |v: &PlainYearMonth| format!("{}-{}", v.iso_year(), v.iso_month()));
            }
            LOp::InstantTryNew => {
                let r = Instant::try_new(abs);
                verdict!("Instant::try_new", instant_in_range(abs), r, |v: &Instant| v.as_i128().to_string());
                // the conversions of the epoch-nanosecond type itself: signed, unsigned (the same magnitude, and the value
                // the same distance below 2^128, which must not wrap into the negative range)
                use temporal_rs::time::EpochNanoseconds as En;
                let show = |v: &En| v.as_i128().to_string();
                verdict!("EpochNanoseconds::try_from(i128)", instant_in_range(abs), En::try_from(abs), show);
                let mag = abs.unsigned_abs();
                verdict!("EpochNanoseconds::try_from(u128)", instant_in_range(mag as i128), En::try_from(mag), show);
                verdict!("EpochNanoseconds::try_from(u128 below 2^128)", false, En::try_from(u128::MAX - mag), show);
                verdict!("EpochNanoseconds::try_from(u128 below 2^128, +1)", false, En::try_from((u128::MAX - mag).wrapping_add(1).max(1u128 << 127)), show);
            }
            LOp::InstantFromMs => {
                let msv = abs.div_euclid(1_000_000);
                let r = Instant::from_epoch_milliseconds(msv as i64);
                verdict!("Instant::from_epoch_milliseconds", instant_in_range(msv * 1_000_000), r, |v: &Instant| v.as_i128().to_string());
            }
            LOp::ZonedTryNew => {
                let tz = TimeZone::try_from_identifier_str(&fmt::offset_minutes(c.off_min as i64)).unwrap();
                let r = ZonedDateTime::try_new(abs, iso(), tz);
                verdict!("ZonedDateTime::try_new", instant_in_range(abs), r, |v: &ZonedDateTime| v.epoch_nanoseconds().as_i128().to_string());
                if let Ok(z) = &r {
                    // wall-clock reading: either a well-formed date-time or an error, never garbage
                    let prov = TableProvider::utc_only();
                    let wall = abs + off_ns;
                    let (wd, wn) = (wall.div_euclid(DAY) as i64, wall.rem_euclid(DAY));
                    match z.to_plain_datetime_with_provider(&prov) {
                        Ok(p) => chk!(o, dt_of(&p) == Dt { day: wd, ns: wn }, "C02/limit/zoned-wall/value", (wd, wn), dt_of(&p)),
                        Err(e) => chk!(o, e.kind() == ErrorKind::Range, "C02/limit/zoned-wall/error-kind", "Range", err_str(&e)),
                    }
                }
            }
            LOp::DateToZoned | LOp::DateTimeToZoned => {
                if !in_range_date(c.day) {
                    return o;
                }
                let named = if c.named { NAMED_LIMIT_ZONES.iter().find(|z| z.1 == c.off_min).map(|z| z.0) } else { None };
                let tz = match named {
                    Some(n) => TimeZone::IanaIdentifier(n.to_string()),
                    None => TimeZone::try_from_identifier_str(&fmt::offset_minutes(c.off_min as i64)).unwrap(),
                };
                let prov = match named {
                    Some(_) => crate::tzp::AnyProvider::Bundled(crate::tzp::bundled()),
                    None => crate::tzp::AnyProvider::Table(TableProvider::utc_only()),
                };
                if named.is_some() {
                    o = o.class("named-zone-through-the-bundled-provider").nontrivial(true);
                }
                let want = abs - off_ns;
                let want_ok = dt_ok && instant_in_range(want);
                let r = if c.op == LOp::DateToZoned {
                    plain_date(ymd).unwrap().to_zoned_date_time_with_provider(tz, Some(plain_time(c.ns).unwrap()), &prov)
                } else {
                    match plain_datetime(Dt { day: c.day, ns: c.ns }) {
                        Ok(p) => p.to_zoned_date_time_with_provider(&tz, Disambiguation::Compatible, &prov),
                        Err(_) => return o,
                    }
                };
                verdict!("to_zoned_date_time", want_ok, r, |v: &ZonedDateTime| v.epoch_nanoseconds().as_i128().to_string());
                if let Ok(z) = &r {
                    chk!(o, z.epoch_nanoseconds().as_i128() == want, "C02/limit/to_zoned_date_time/value", want, z.epoch_nanoseconds().as_i128());
                }
            }
            LOp::DateFromStr => {
                let s_ = fmt::date(ymd.y, m, d);
                let r = PlainDate::from_str(&s_);
                verdict!("PlainDate::from_str", in_range_date(c.day), r, |v: &PlainDate| format!("{:?}", ymd_of(v)));
            }
            LOp::DateTimeFromStr => {
                let s_ = fmt::datetime(c.day, c.ns, Prec::Auto);
                let r = PlainDateTime::from_str(&s_);
                verdict!("PlainDateTime::from_str", dt_ok, r, |v: &PlainDateTime| format!("{:?}", dt_of(v)));
                if let Ok(p) = &r {
                    chk!(o, dt_of(p) == Dt { day: c.day, ns: c.ns }, "C02/limit/PlainDateTime::from_str/value", (c.day, c.ns), dt_of(p));
                }
            }
            LOp::InstantFromStr => {
                // local date-time + offset; the instant is local - offset
                let s_ = format!("{}{}", fmt::datetime(c.day, c.ns, Prec::Auto), fmt::offset_minutes(c.off_min as i64));
                let want = abs - off_ns;
                let r = Instant::from_str(&s_);
                verdict!("Instant::from_str", instant_in_range(want), r, |v: &Instant| v.as_i128().to_string());
                if let Ok(i) = &r {
                    chk!(o, i.as_i128() == want, "C02/limit/Instant::from_str/value", want, i.as_i128());
                }
            }
            LOp::YearMonthFromStr => {
                let s_ = format!("{}-{:02}", fmt::year(ymd.y), m);
                let r = PlainYearMonth::from_str(&s_);
                verdict!("PlainYearMonth::from_str", ym_in_range(ymd.y, m), r, |v: &PlainYearMonth| format!("{}-{}", v.iso_year(), v.iso_month()));
            }
            LOp::DateFromPartial | LOp::DateFromPartialRoc => {
                use temporal_rs::partial::PartialDate;
                let pd = if c.op == LOp::DateFromPartial {
                    PartialDate::new().with_year(Some(y)).with_month(Some(m)).with_day(Some(d))
                } else {
                    // roc: year 1 = 1912; years before are counted backwards in the era "roc-inverse" (1911 = 1)
                    let cal = temporal_rs::Calendar::from_str("roc").expect("roc calendar");
                    let (era, ey) = if ymd.y >= 1912 { ("roc", ymd.y - 1911) } else { ("roc-inverse", 1912 - ymd.y) };
                    PartialDate::new()
                        .with_calendar(cal)
                        .with_era(tinystr::TinyAsciiStr::<19>::try_from_str(era).ok())
                        .with_era_year(Some(ey as i32))
                        .with_month(Some(m))
                        .with_day(Some(d))
                };
                let r = PlainDate::from_partial(pd, Some(ArithmeticOverflow::Reject));
                let what = if c.op == LOp::DateFromPartial { "PlainDate::from_partial" } else { "PlainDate::from_partial(roc)" };
                verdict!(what, in_range_date(c.day), r, |v: &PlainDate| format!("{:?}", ymd_of(v)));
                if let Ok(p) = &r {
                    chk!(o, ymd_of(p) == ymd, format!("C02/limit/{what}/value"), ymd, ymd_of(p));
                }
            }
            LOp::DateTimeFromPartial | LOp::DateTimeWith | LOp::DateTimeWithNeighbour => {
                use temporal_rs::partial::{PartialDate, PartialDateTime, PartialTime};
                let pd = PartialDate::new().with_year(Some(y)).with_month(Some(m)).with_day(Some(d));
                let pt = PartialTime::new().with_hour(Some(h)).with_minute(Some(mi)).with_second(Some(s)).with_millisecond(Some(ms)).with_microsecond(Some(us)).with_nanosecond(Some(nn));
                let (what, r) = match c.op {
                    LOp::DateTimeFromPartial => ("PlainDateTime::from_partial", PlainDateTime::from_partial(PartialDateTime::new().with_partial_date(pd).with_partial_time(pt), Some(ArithmeticOverflow::Reject))),
                    LOp::DateTimeWith => {
                        let recv = PlainDateTime::try_new(2000, 6, 15, 12, 30, 30, 500, 500, 500, iso()).expect("receiver");
                        ("PlainDateTime::with", recv.with(PartialDateTime::new().with_partial_date(pd).with_partial_time(pt), Some(ArithmeticOverflow::Reject)))
                    }
                    _ => {
                        // the neighbour one nanosecond later (or earlier) as receiver, only the sub-second fields supplied
                        let nb = [abs + 1, abs - 1].into_iter().map(|t| Dt { day: t.div_euclid(DAY) as i64, ns: t.rem_euclid(DAY) }).find(|x| x.in_range());
                        let Some(nb) = nb else { return o };
                        let recv = plain_datetime(nb).expect("neighbour in range");
                        if nb.day != c.day || nb.ns / 1_000_000_000 != c.ns / 1_000_000_000 {
                            // crossing a second: supply every time field and the date
                            ("PlainDateTime::with(neighbour)", recv.with(PartialDateTime::new().with_partial_date(pd).with_partial_time(pt), Some(ArithmeticOverflow::Reject)))
                        } else {
                            let sub = PartialTime::new().with_millisecond(Some(ms)).with_microsecond(Some(us)).with_nanosecond(Some(nn));
                            ("PlainDateTime::with(neighbour)", recv.with(PartialDateTime::new().with_partial_time(sub), Some(ArithmeticOverflow::Reject)))
                        }
                    }
                };
                verdict!(what, dt_ok, r, |v: &PlainDateTime| format!("{:?}", dt_of(v)));
                if let Ok(p) = &r {
                    chk!(o, dt_of(p) == Dt { day: c.day, ns: c.ns }, format!("C02/limit/{what}/value"), (c.day, c.ns), dt_of(p));
                }
            }
            LOp::ZonedFromStr => {
                let off = fmt::offset_minutes(c.off_min as i64);
                let s_ = format!("{}{}[{}]", fmt::datetime(c.day, c.ns, Prec::Auto), off, off);
                let want = abs - off_ns;
                let prov = TableProvider::utc_only();
                let r = ZonedDateTime::from_str_with_provider(&s_, Disambiguation::Compatible, temporal_rs::options::OffsetDisambiguation::Reject, &prov);
                // the wall date must be a valid date in range for the string to be accepted at all
                // InterpretISODateTimeOffset performs CheckISODaysRange on the wall date: |epoch day| <= 1e8
                let want_ok = instant_in_range(want) && in_range_date(c.day) && c.day.abs() <= 100_000_000;
                verdict!("ZonedDateTime::from_str", want_ok, r, |v: &ZonedDateTime| v.epoch_nanoseconds().as_i128().to_string());
                if let Ok(z) = &r {
                    chk!(o, z.epoch_nanoseconds().as_i128() == want, "C02/limit/ZonedDateTime::from_str/value", want, z.epoch_nanoseconds().as_i128());
                }
            }
        }
        o
    }
}

/// the zoned part of the grid (try_new, PlainDate / PlainDateTime to zoned = start of day / wall-clock resolution,
/// zoned strings) on the first and last representable days: also run by C14
pub fn zoned_limit_cases() -> Vec<LimitCase> {
    limit_cases().into_iter().filter(|c| matches!(c.op, LOp::ZonedTryNew | LOp::DateToZoned | LOp::DateTimeToZoned | LOp::ZonedFromStr)).collect()
}

fn limit_cases() -> Vec<LimitCase> {
    let mut v = vec![];
    let days: Vec<i64> = (-4..=4).flat_map(|k| [MIN_DAY + k, MAX_DAY + k]).chain([MIN_DAY + 30, MAX_DAY - 30, 0, -1]).collect();
    let nss: Vec<i128> = vec![0, 1, 999, 1_000_000, DAY / 2, DAY - 1, DAY - 1000, 3_600_000_000_000, DAY - 3_600_000_000_000];
    let offs: Vec<i32> = vec![0, 1, -1, 60, -60, 330, 840, -720, 1439, -1439];
    for &op in LOPS.iter() {
        for &day in &days {
            for &ns in &nss {
                let needs_off = matches!(op, LOp::ZonedTryNew | LOp::DateToZoned | LOp::DateTimeToZoned | LOp::InstantFromStr | LOp::ZonedFromStr);
                if needs_off {
                    for &off_min in &offs {
                        v.push(LimitCase { op, day, ns, off_min, named: false });
                    }
                    if matches!(op, LOp::DateToZoned | LOp::DateTimeToZoned) && day > 0 {
                        for z in NAMED_LIMIT_ZONES {
                            v.push(LimitCase { op, day, ns, off_min: z.1, named: true });
                        }
                    }
                } else {
                    v.push(LimitCase { op, day, ns, off_min: 0, named: false });
                }
            }
        }
    }
    v
}

// ------------------------------------------------------------------------------------------
// boundary generators for the reused exact-oracle sub-checks

/// a target day within 3 days of a limit (either side of it) or far beyond
fn target_day() -> BoxedStrategy<i64> {
    prop_oneof![
        4 => (-3i64..=3).prop_map(|k| MIN_DAY + k),
        4 => (-3i64..=3).prop_map(|k| MAX_DAY + k),
        1 => (MAX_DAY + 4..=MAX_DAY + 40_000i64),
        1 => (MIN_DAY - 40_000i64..=MIN_DAY - 4),
        1 => prop_oneof![Just(MAX_DAY + 800_000_000i64), Just(MIN_DAY - 800_000_000i64), Just(2_147_483_648i64 - 5), Just(-2_147_483_648i64 + 5)],
    ]
    .boxed()
}

/// duration that moves `a` to (about) day `t`: pure days, or years/months/weeks/days with the remainder in days
fn dur_towards(a: i64, t: i64, shape: u8) -> Dur {
    let mut f = [0i128; 10];
    let tc = t.clamp(MIN_DAY, MAX_DAY);
    match shape % 4 {
        0 => f[3] = (t - a) as i128,
        1 => {
            let (y, mo, w, d) = date_diff(Ymd::from_n(a), Ymd::from_n(tc), U::Year);
            f[0] = y as i128;
            f[1] = mo as i128;
            f[2] = w as i128;
            f[3] = d as i128 + (t - tc) as i128;
        }
        2 => {
            let (y, mo, w, d) = date_diff(Ymd::from_n(a), Ymd::from_n(tc), U::Month);
            f[0] = y as i128;
            f[1] = mo as i128;
            f[2] = w as i128;
            f[3] = d as i128 + (t - tc) as i128;
        }
        _ => {
            let (y, mo, w, d) = date_diff(Ymd::from_n(a), Ymd::from_n(tc), U::Week);
            f[0] = y as i128;
            f[1] = mo as i128;
            f[2] = w as i128;
            f[3] = d as i128 + (t - tc) as i128;
        }
    }
    // keep the sign uniform (mixed signs can appear when t is beyond the clamp on the other side)
    let s = f.iter().find(|v| **v != 0).map(|v| v.signum()).unwrap_or(1);
    if f.iter().any(|v| *v != 0 && v.signum() != s) {
        f = [0; 10];
        f[3] = (t - a) as i128;
    }
    Dur { f }
}

fn date_add_boundary() -> BoxedStrategy<c04::AddCase> {
    (gen::day(), target_day(), 0u8..4, prop::bool::ANY, prop::bool::weighted(0.2))
        .prop_map(|(a, t, shape, reject, subtract)| {
            let d = dur_towards(a, t, shape);
            let dur = if subtract { d.negated() } else { d };
            c04::AddCase { day: a, dur, reject, subtract }
        })
        .prop_filter("valid duration", |c| c.dur.valid())
        .boxed()
}

pub fn datetime_add_boundary() -> BoxedStrategy<c05::AddCase> {
    (gen::datetime(), target_day(), 0u8..4, gen::ns_of_day(), prop::bool::ANY, prop::bool::weighted(0.2), 0u8..6)
        .prop_map(|((a, ans), t, shape, tns, reject, subtract, tk)| {
            // two cases in six aim at the first instant of the target day and at the nanosecond after it (on the first
            // representable day the former is the excluded bound, the latter the first valid date-time)
            let tns = match tk {
                3 | 4 => 0,
                5 => 1,
                _ => tns,
            };
            let mut d = dur_towards(a, t, shape);
            // time part so that the result's time of day is tns (crossing midnight or not), or none
            let s = d.sign();
            match tk {
                0 => {}
                _ => {
                    let mut delta = tns - ans;
                    if s < 0 && delta > 0 {
                        delta -= DAY;
                    }
                    if s > 0 && delta < 0 {
                        delta += DAY;
                    }
                    if s == 0 || delta.signum() as i32 == s || delta == 0 {
                        d.f[9] = gen::through_f64(delta);
                    }
                }
            }
            let dur = if subtract { d.negated() } else { d };
            c05::AddCase { day: a, ns: ans, dur, reject, subtract }
        })
        .prop_filter("valid duration", |c| c.dur.valid())
        .boxed()
}

/// date-time rounding on the last/first representable day
fn datetime_wrap_case() -> BoxedStrategy<c05::AddCase> {
    (gen::datetime(), c04::wrap_dur(), prop::bool::ANY, prop::bool::weighted(0.3)).prop_map(|((day, ns), dur, reject, subtract)| c05::AddCase { day, ns, dur, reject, subtract }).boxed()
}

fn datetime_round_boundary() -> BoxedStrategy<c07::PubCase> {
    (c07::dt_round_case(), prop_oneof![Just(MAX_DAY), Just(MIN_DAY), Just(MIN_DAY + 1), Just(MAX_DAY - 1)], 0i128..3_600_000_000_000i128, prop::bool::ANY)
        .prop_map(|(mut c, day, back, string)| {
            c.a_day = day;
            c.a = if day >= MAX_DAY - 1 { DAY - 1 - back } else { c.a };
            if string {
                c.op = c07::Op::DateTimeString;
                c.digits = Some((back % 10) as u8);
            }
            c
        })
        .prop_filter("in range", |c| datetime_in_range(c.a_day, c.a))
        .boxed()
}

pub fn run(ctx: &mut Ctx) {
    ctx.rule = "limits: complete grid of {22 constructor / conversion / parser / field-record operations (incl. PlainDate / PlainDateTime from_partial, PlainDateTime::with from afar and from the 1-ns neighbour, PlainDate::from_partial through the roc calendar)} x {days within 4 of both ends of the date range, +-30, epoch} x {9 times of day incl. 00:00, 1 ns, 23:59:59.999999999} x {10 fixed offsets where a zone is involved}: Ok iff the exact value is representable (value compared), RangeError otherwise; boundary runs of the exact-oracle sub-checks: PlainDate add/subtract and PlainDateTime add/subtract with durations steered to land within 3 days of either limit (both sides) or far beyond (shapes: pure days, years+months+days, months+days, weeks+days, with a time part crossing midnight), PlainDateTime round/toString on the first and last representable days, Instant/PlainTime arithmetic of C06 (a quarter steered to within 2 ns of the instant limits), Duration construction at the field and 2^53 s limits (C09). Every sub-check also verifies that successful results are well-formed through the value's own getters. The whole property runs in the checked profile (overflow checks, debug assertions) and again in the release profile (wrapping arithmetic): a case passes only if it passes in both. non-trivial = exact result within a few units of a boundary or beyond it.".into();
    ctx.assumptions = vec!["Duration::from_day_and_time is documented as an unvalidated constructor (returns Self, not a Result) and is not judged here".into()];
    let t = ctx.tier;
    let cases = limit_cases();
    let n = cases.len() as u64;
    ctx.run_enum(&LimitSub, n, &|i| cases[i as usize].clone(), true);
    ctx.run_prop(&c04::AddSub, &date_add_boundary, t.pick(300_000, 10_000_000));
    ctx.run_prop(&c05::AddSub, &datetime_add_boundary, t.pick(300_000, 10_000_000));
    // never a wrapped value: one field scaled to within a few units of k * 2^31 / 2^32 / 2^63 / 2^64
    ctx.run_prop(&c04::AddSub, &c04::wrap_case, t.pick(150_000, 5_000_000));
    ctx.run_prop(&c05::AddSub, &datetime_wrap_case, t.pick(150_000, 5_000_000));
    ctx.run_prop(&c07::PubSub, &datetime_round_boundary, t.pick(100_000, 3_000_000));
    ctx.run_prop(&c06::Sub, &c06::case, t.pick(300_000, 10_000_000));
    ctx.run_prop(&c09::NewSub, &c09::new_case, t.pick(200_000, 6_000_000));
    // results of duration arithmetic and rounding at the 2^53 s limit (sums and balanced fields that only exceed it
    // after rounding to a double)
    ctx.run_prop(&c09::PairSub, &c09::pair_case, t.pick(200_000, 6_000_000));
    ctx.run_prop(&c09::RoundSub, &c09::round_case, t.pick(200_000, 6_000_000));
    // field records: every out-of-range field is clamped or refused with a RangeError (never a panic, never a value
    // with an impossible month or day): C17's merge oracle over the full u8 / u16 / i32 value ranges
    ctx.run_prop(&crate::props::c17::MergeSub, &crate::props::c17::merge_case, t.pick(300_000, 5_000_000));
    ctx.run_release_profile();
}

pub fn replay(ctx: &mut Ctx, sub: &str, case: &Value) -> bool {
    match sub {
        "limits" => ctx.replay_case(&LimitSub, case),
        "add" => {
            // both C04's and C05's add sub-checks are named "add": the date-time case has an `ns` field
            if case.get("ns").is_some() {
                ctx.replay_case(&c05::AddSub, case)
            } else {
                ctx.replay_case(&c04::AddSub, case)
            }
        }
        "public" => ctx.replay_case(&c07::PubSub, case),
        "ops" => ctx.replay_case(&c06::Sub, case),
        "new" => ctx.replay_case(&c09::NewSub, case),
        "pair" => ctx.replay_case(&c09::PairSub, case),
        "round" => ctx.replay_case(&c09::RoundSub, case),
        "merge" => ctx.replay_case(&crate::props::c17::MergeSub, case),
        _ => false,
    }
}
