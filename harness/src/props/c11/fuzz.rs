//! Byte-level entry to the round-trip oracle (for a libFuzzer target): the bytes are decoded by hand into
//! one value + display options (every byte string decodes to a *valid* case), then judged strictly
//! (no finding is excused).

use super::oracle::{check_case, CALS};
use super::{CalShow, Case, OffShow, TzShow, Val, CAL_SHOWS, DAY, OFF_SHOWS, TZ_SHOWS, YEARS};
use crate::props::c13::{shaped_zones, ZoneKind};
use crate::refm::civil::*;
use crate::refm::dur::{valid_f64s, Dur};
use crate::refm::fmt::Prec;
use crate::refm::tz::{Zone, S};

/// little-endian reader; an exhausted input yields zeros
pub struct Bytes<'a> {
    b: &'a [u8],
    i: usize,
}
impl<'a> Bytes<'a> {
    pub fn new(b: &'a [u8]) -> Self {
        Bytes { b, i: 0 }
    }
    pub fn u8(&mut self) -> u8 {
        let v = self.b.get(self.i).copied().unwrap_or(0);
        self.i += 1;
        v
    }
    pub fn u64(&mut self) -> u64 {
        let mut v = 0u64;
        for k in 0..8 {
            v |= (self.u8() as u64) << (8 * k);
        }
        v
    }
    pub fn u128(&mut self) -> u128 {
        self.u64() as u128 | (self.u64() as u128) << 64
    }
    /// value in lo..=hi (monotone scaling of 64 bits; the span may exceed 64 bits)
    pub fn range(&mut self, lo: i128, hi: i128) -> i128 {
        let span = (hi - lo) as u128 + 1;
        let r = if span > u64::MAX as u128 { self.u128() % span } else { self.u64() as u128 % span };
        lo + r as i128
    }
    pub fn pick<T: Copy>(&mut self, v: &[T]) -> T {
        v[self.u8() as usize % v.len()]
    }
}

fn sub_second(b: &mut Bytes) -> i128 {
    match b.u8() % 6 {
        0 => 0,
        1 => b.range(1, 999_999_999),
        2 => b.range(1, 999) * 1000i128.pow(b.u8() as u32 % 3),
        3 => b.range(1, 9) * 10i128.pow(b.u8() as u32 % 9),
        4 => {
            let v = b.range(100_000_000, 999_999_999);
            if v % 10 == 0 {
                v + 1
            } else {
                v
            }
        }
        _ => b.range(1, 9),
    }
}
fn day(b: &mut Bytes) -> i64 {
    if b.u8() % 2 == 0 {
        b.range(MIN_DAY as i128, MAX_DAY as i128) as i64
    } else {
        let y = b.pick(&YEARS);
        let m = b.range(1, 12) as u8;
        let d = (b.range(1, 31) as u8).min(dim(y, m));
        to_days(y, m, d).clamp(MIN_DAY, MAX_DAY)
    }
}
fn ns_of_day(b: &mut Bytes) -> i128 {
    b.range(0, 86399) * S + sub_second(b)
}
fn instant(b: &mut Bytes) -> i128 {
    if b.u8() % 2 == 0 {
        b.range(-MAX_INSTANT, MAX_INSTANT)
    } else {
        (day(b) as i128 * DAY + ns_of_day(b)).clamp(-MAX_INSTANT, MAX_INSTANT)
    }
}
fn prec(b: &mut Bytes) -> Prec {
    match b.u8() % 12 {
        0 => Prec::Auto,
        1 => Prec::Minute,
        k => Prec::Digits(k - 2),
    }
}
fn cal(b: &mut Bytes) -> u8 {
    let k = b.u8();
    if k < 128 {
        0
    } else {
        k % CALS.len() as u8
    }
}
/// a zone: fixed offset, one of the shaped tables, or a table decoded from the bytes (transitions at
/// least three days apart, offsets within +-15 h, every shift non-zero)
fn zone(b: &mut Bytes) -> ZoneKind {
    match b.u8() % 4 {
        0 => ZoneKind::Fixed(b.range(-1439, 1439) as i32),
        1 => {
            let z = shaped_zones();
            ZoneKind::Table(z[b.u8() as usize % z.len()].clone())
        }
        _ => {
            let initial = b.range(-54000, 54000) as i64;
            let n = b.u8() % 6 + 1;
            let mut t = b.range(-100_000_000_000, 90_000_000_000) as i64;
            let mut off = initial;
            let mut trans = vec![];
            for _ in 0..n {
                let mag = match b.u8() % 4 {
                    0 => 3600,
                    1 => b.range(1, 180) as i64 * 60,
                    2 => b.range(60, 93600) as i64,
                    _ => 1800,
                };
                let shift = if b.u8() % 2 == 0 { mag } else { -mag };
                let mut nn = off + shift;
                if nn.abs() > 54000 {
                    nn = off - shift;
                }
                if nn.abs() <= 54000 && nn != off {
                    trans.push((t, nn));
                    off = nn;
                }
                t += b.range(259_200, 400_000_000) as i64;
            }
            ZoneKind::Table(Zone { name: "Test/Synthetic".into(), initial, trans })
        }
    }
}
fn zoned_point(b: &mut Bytes) -> (ZoneKind, i128) {
    let zk = zone(b);
    let z = zk.zone();
    let t = if z.trans.is_empty() || b.u8() % 3 == 0 {
        instant(b)
    } else {
        let tr = z.trans[b.u8() as usize % z.trans.len()].0 as i128 * S;
        (tr + b.range(-172_800, 172_800) * S / if b.u8() % 2 == 0 { 1 } else { 48 } + sub_second(b) - (b.u8() % 2) as i128).clamp(-MAX_INSTANT, MAX_INSTANT)
    };
    (zk, t)
}
fn duration(b: &mut Bytes) -> [f64; 10] {
    let lims: [i128; 10] = [(1 << 32) - 1, (1 << 32) - 1, (1 << 32) - 1, 104_249_991_374, 2_501_999_792_983, 150_119_987_579_016, (1 << 53) - 1, 1 << 63, 1 << 73, 1 << 83];
    let neg = b.u8() % 2 == 1;
    let mask = b.u64();
    let mut f = [0f64; 10];
    for i in 0..10 {
        let kind = (mask >> (3 * i)) & 7;
        let v: i128 = match kind {
            0..=2 => 0,
            3 => b.range(0, 9),
            4 => b.range(0, 999),
            5 => b.range(0, 1_000_000_000),
            6 => b.range(0, lims[i]),
            _ => lims[i] - b.range(0, 2),
        };
        let v = (v as f64) as i128; // the nearest double is the field
        f[i] = if neg { -(v as f64) } else { v as f64 };
    }
    // shrink towards validity: drop the largest contributions until the duration is valid
    let mut guard = 0;
    while !(valid_f64s(&f) && Dur::from_f64s(&f).is_some()) && guard < 10 {
        let worst = (3..10).max_by(|a, c| {
            let w = |i: usize| f[i].abs() * crate::refm::dur::UNIT_NS[i] as f64;
            w(*a).partial_cmp(&w(*c)).unwrap()
        });
        match worst {
            Some(i) if f[i] != 0.0 => f[i] = 0.0,
            _ => {
                f = [0.0; 10];
            }
        }
        guard += 1;
    }
    if !valid_f64s(&f) {
        f = [0.0; 10];
    }
    f
}

/// decode one case from raw bytes
pub fn decode(bytes: &[u8]) -> Case {
    let mut b = Bytes::new(bytes);
    let kind = b.u8() % 9;
    let p = prec(&mut b);
    let via_unit = b.u8() % 2 == 1 && matches!(p, Prec::Digits(0 | 3 | 6 | 9));
    let cs: CalShow = b.pick(&CAL_SHOWS);
    let ts: TzShow = b.pick(&TZ_SHOWS);
    let os: OffShow = b.pick(&OFF_SHOWS);
    let v = match kind {
        0 => Val::Date { day: day(&mut b), cal: cal(&mut b) },
        1 => Val::Time { ns: ns_of_day(&mut b) },
        2 => {
            let d = day(&mut b);
            let ns = ns_of_day(&mut b);
            let ns = if datetime_in_range(d, ns) { ns } else { DAY - 1 };
            Val::DateTime { day: d, ns, cal: cal(&mut b) }
        }
        3 => {
            let y = if b.u8() % 2 == 0 { b.pick(&YEARS) } else { b.range(-271821, 275760) as i64 };
            let mut m = b.range(1, 12) as u8;
            if y == -271821 {
                m = m.max(4);
            }
            if y == 275760 {
                m = m.min(9);
            }
            let ref_day = match b.u8() % 3 {
                0 => None,
                1 => Some(1),
                _ => Some((b.range(1, 31) as u8).min(dim(y, m))),
            };
            Val::YearMonth { y: y as i32, m, ref_day, cal: cal(&mut b) }
        }
        4 => {
            let ref_year = match b.u8() % 3 {
                0 => None,
                1 => Some(1972),
                _ => Some(b.range(-271820, 275759) as i32),
            };
            let y = ref_year.unwrap_or(1972) as i64;
            let m = b.range(1, 12) as u8;
            let d = (b.range(1, 31) as u8).min(dim(y, m));
            Val::MonthDay { m, d, ref_year, cal: cal(&mut b) }
        }
        5 => Val::Instant { t: instant(&mut b), zone: None },
        6 => {
            let (zk, t) = zoned_point(&mut b);
            Val::Instant { t, zone: Some(zk) }
        }
        7 => {
            let (zk, t) = zoned_point(&mut b);
            Val::Zoned { t, zone: zk, cal: cal(&mut b) }
        }
        _ => Val::Duration { f: duration(&mut b) },
    };
    // options that a type does not have stay at their defaults (keeps the case canonical for hashing)
    let (prec, via_unit) = match v {
        Val::Date { .. } | Val::YearMonth { .. } | Val::MonthDay { .. } => (Prec::Auto, false),
        _ => (p, via_unit),
    };
    let cal_show = match v {
        Val::Time { .. } | Val::Instant { .. } | Val::Duration { .. } => CalShow::Auto,
        _ => cs,
    };
    let (tz_show, off_show) = match v {
        Val::Zoned { .. } => (ts, os),
        _ => (TzShow::Auto, OffShow::Auto),
    };
    Case { v, prec, via_unit, cal_show, tz_show, off_show }
}

/// decode + judge; `Err` carries signature, case, expected and actual
pub fn fuzz_roundtrip(bytes: &[u8]) -> Result<(), String> {
    let case = decode(bytes);
    let o = match crate::run::guard(|| check_case(&case)) {
        Ok(o) => o,
        Err(p) => return Err(format!("C11/roundtrip/{p} case={}", serde_json::to_string(&case).unwrap_or_default())),
    };
    match o.fail {
        None => Ok(()),
        Some(f) => Err(format!("{} case={} expected={} actual={}", f.sig, serde_json::to_string(&case).unwrap_or_default(), f.expected, f.actual)),
    }
}
