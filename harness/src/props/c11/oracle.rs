//! The round-trip oracle of C11: canonical writers for what `refm::fmt` lacks (annotations, year-month and
//! month-day forms, zoned strings) and the per-type comparison of text, parsed value and re-printed text.

use super::{CalShow, Case, OffShow, TzShow, Val, DAY};
use crate::chk;
use crate::conv::*;
use crate::props::c13::{self, Given, OffOpt, ZoneKind};
use crate::refm::civil::*;
use crate::refm::dateadd::Dt;
use crate::refm::dur::{balance_time, Dur, U};
use crate::refm::fmt::{self, Prec};
use crate::refm::round::{round_as_if_positive, round_int, Mode};
use crate::refm::tz::{Disamb, S};
use crate::run::*;
use icu_calendar::AnyCalendarKind as K;
use std::str::FromStr;
use temporal_rs::error::ErrorKind;
use temporal_rs::options::{ArithmeticOverflow, Disambiguation, DisplayCalendar, DisplayOffset, DisplayTimeZone, OffsetDisambiguation, ToStringRoundingOptions, Unit};
use temporal_rs::parsers::Precision;
use temporal_rs::{Calendar, Duration, Instant, PlainDate, PlainDateTime, PlainMonthDay, PlainTime, PlainYearMonth, TimeZone, ZonedDateTime};

/// the calendars the crate supports with their CLDR / BCP 47 identifiers (index 0 = ISO)
pub const CALS: [(&str, K); 18] = [
    ("iso8601", K::Iso),
    ("buddhist", K::Buddhist),
    ("chinese", K::Chinese),
    ("coptic", K::Coptic),
    ("dangi", K::Dangi),
    ("ethiopic", K::Ethiopian),
    ("ethioaa", K::EthiopianAmeteAlem),
    ("gregory", K::Gregorian),
    ("hebrew", K::Hebrew),
    ("indian", K::Indian),
    ("islamic-civil", K::IslamicCivil),
    ("islamic", K::IslamicObservational),
    ("islamic-tbla", K::IslamicTabular),
    ("islamic-umalqura", K::IslamicUmmAlQura),
    ("japanese", K::Japanese),
    ("japanext", K::JapaneseExtended),
    ("persian", K::Persian),
    ("roc", K::Roc),
];
pub fn calendar(i: u8) -> Calendar {
    Calendar::new(CALS[i as usize % CALS.len()].1)
}
pub fn cal_id(i: u8) -> &'static str {
    CALS[i as usize % CALS.len()].0
}

// ------------------------------------------------------------------------------------------
// canonical writers (RFC 9557 / Temporal *ToString operations)

/// `[u-ca=id]`, `[!u-ca=id]` or nothing (FormatCalendarAnnotation)
pub fn cal_annotation(id: &str, show: CalShow) -> String {
    match show {
        CalShow::Never => String::new(),
        CalShow::Auto if id == "iso8601" => String::new(),
        CalShow::Critical => format!("[!u-ca={id}]"),
        _ => format!("[u-ca={id}]"),
    }
}
/// `[zone]`, `[!zone]` or nothing
pub fn zone_annotation(id: &str, show: TzShow) -> String {
    match show {
        TzShow::Never => String::new(),
        TzShow::Critical => format!("[!{id}]"),
        TzShow::Auto => format!("[{id}]"),
    }
}
/// TemporalYearMonthToString: the reference day is shown whenever the calendar annotation could matter
pub fn year_month_text(y: i64, m: u8, ref_day: u8, id: &str, show: CalShow) -> String {
    let mut s = format!("{}-{:02}", fmt::year(y), m);
    if matches!(show, CalShow::Always | CalShow::Critical) || id != "iso8601" {
        s += &format!("-{:02}", ref_day);
    }
    s + &cal_annotation(id, show)
}
/// TemporalMonthDayToString
pub fn month_day_text(ref_year: i64, m: u8, d: u8, id: &str, show: CalShow) -> String {
    let mut s = String::new();
    if matches!(show, CalShow::Always | CalShow::Critical) || id != "iso8601" {
        s += &format!("{}-", fmt::year(ref_year));
    }
    s += &format!("{:02}-{:02}", m, d);
    s + &cal_annotation(id, show)
}
/// FormatDateTimeUTCOffsetRounded: offset seconds -> minutes, half away from zero
pub fn rounded_offset_seconds(off_s: i64) -> i64 {
    round_int(off_s as i128, 60, Mode::HalfExpand) as i64
}

fn conv_cs(c: CalShow) -> DisplayCalendar {
    match c {
        CalShow::Auto => DisplayCalendar::Auto,
        CalShow::Always => DisplayCalendar::Always,
        CalShow::Never => DisplayCalendar::Never,
        CalShow::Critical => DisplayCalendar::Critical,
    }
}
fn conv_ts(c: TzShow) -> DisplayTimeZone {
    match c {
        TzShow::Auto => DisplayTimeZone::Auto,
        TzShow::Never => DisplayTimeZone::Never,
        TzShow::Critical => DisplayTimeZone::Critical,
    }
}
fn conv_os(c: OffShow) -> DisplayOffset {
    match c {
        OffShow::Auto => DisplayOffset::Auto,
        OffShow::Never => DisplayOffset::Never,
    }
}
pub fn to_string_opts(p: Prec, via_unit: bool) -> ToStringRoundingOptions {
    let mut o = ToStringRoundingOptions::default();
    match p {
        Prec::Auto => {}
        Prec::Minute => o.smallest_unit = Some(Unit::Minute),
        Prec::Digits(d) => {
            let u = match d {
                0 => Some(Unit::Second),
                3 => Some(Unit::Millisecond),
                6 => Some(Unit::Microsecond),
                9 => Some(Unit::Nanosecond),
                _ => None,
            };
            match (via_unit, u) {
                (true, Some(u)) => o.smallest_unit = Some(u),
                _ => o.precision = Precision::Digit(d),
            }
        }
    }
    o
}

fn prec_class(p: Prec) -> &'static str {
    match p {
        Prec::Auto => "precision:auto",
        Prec::Minute => "precision:minute",
        Prec::Digits(0) => "precision:0",
        Prec::Digits(9) => "precision:9",
        Prec::Digits(_) => "precision:1-8",
    }
}
fn year_nontrivial(y: i64) -> bool {
    !(1000..=9999).contains(&y)
}
fn year_class(y: i64) -> &'static str {
    if y < 0 {
        "year<0"
    } else if y < 1000 {
        "year:0-999"
    } else if y <= 9999 {
        "year:1000-9999"
    } else {
        "year>9999"
    }
}

macro_rules! bail {
    ($o:expr, $sig:expr, $exp:expr, $act:expr) => {
        return $o.fail($sig, format!("{}", $exp), format!("{}", $act))
    };
}

/// the round-trip oracle: text, parsed value, re-printed text
pub fn check_case(c: &Case) -> Outcome {
    let p = c.prec;
    let cs = c.cal_show;
    let mut o = Outcome::pass();
    let non_default = p != Prec::Auto || cs != CalShow::Auto || c.tz_show != TzShow::Auto || c.off_show != OffShow::Auto;
    o = o.nontrivial(non_default);
    if non_default {
        o = o.class("non-default-option");
    }
    let q = fmt::prec_increment(p);
    match &c.v {
        // ------------------------------------------------------------------------------ PlainDate
        Val::Date { day, cal } => {
            let (y, m, d) = from_days(*day);
            let id = cal_id(*cal);
            o = o.class("PlainDate").class(year_class(y)).nontrivial(year_nontrivial(y));
            let pd = match PlainDate::try_new(y as i32, m, d, calendar(*cal)) {
                Ok(v) => v,
                Err(e) => bail!(o, "C11/date/construct", "Ok", err_str(&e)),
            };
            let text = pd.to_ixdtf_string(conv_cs(cs));
            let want = fmt::date(y, m, d) + &cal_annotation(id, cs);
            chk!(o, text == want, "C11/date/text", want, text);
            if cs == CalShow::Auto {
                chk!(o, pd.to_string() == want, "C11/date/display", want, pd.to_string());
            }
            let keeps_cal = cs != CalShow::Never || id == "iso8601";
            if !keeps_cal {
                o = o.class("lossy:calendar-dropped");
            }
            match PlainDate::from_str(&text) {
                Ok(b) => {
                    let got = (b.iso_year() as i64, b.iso_month(), b.iso_day());
                    chk!(o, got == (y, m, d), "C11/date/parse/fields", (y, m, d), got);
                    let wc = if keeps_cal { id } else { "iso8601" };
                    chk!(o, b.calendar().identifier() == wc, "C11/date/parse/calendar", wc, b.calendar().identifier());
                    if keeps_cal {
                        chk!(o, b == pd, "C11/date/parse/not-equal", format!("{pd:?}"), format!("{b:?}"));
                    }
                    let again = b.to_ixdtf_string(conv_cs(cs));
                    chk!(o, again == text, "C11/date/idempotent", text, again);
                }
                Err(e) => bail!(o, "C11/date/parse/error", &text, err_str(&e)),
            }
        }
        // ------------------------------------------------------------------------------ PlainTime
        Val::Time { ns } => {
            o = o.class("PlainTime").class(prec_class(p)).nontrivial(ns % S != 0);
            if ns % S != 0 {
                o = o.class("subsecond-nonzero");
            }
            let t = plain_time(*ns).expect("valid time");
            let w = ns - ns.rem_euclid(q);
            if w != *ns {
                o = o.class("lossy:precision");
            }
            let want = fmt::time(w, p);
            let text = match t.to_ixdtf_string(to_string_opts(p, c.via_unit)) {
                Ok(s) => s,
                Err(e) => bail!(o, "C11/time/format-error", &want, err_str(&e)),
            };
            chk!(o, text == want, "C11/time/text", want, text);
            match PlainTime::from_str(&text) {
                Ok(b) => {
                    chk!(o, time_ns(&b) == w, "C11/time/parse/fields", w, time_ns(&b));
                    if w == *ns {
                        chk!(o, b == t, "C11/time/parse/not-equal", format!("{t:?}"), format!("{b:?}"));
                    }
                    match b.to_ixdtf_string(to_string_opts(p, c.via_unit)) {
                        Ok(again) => chk!(o, again == text, "C11/time/idempotent", text, again),
                        Err(e) => bail!(o, "C11/time/idempotent/error", &text, err_str(&e)),
                    }
                }
                Err(e) => bail!(o, "C11/time/parse/error", &text, err_str(&e)),
            }
        }
        // ------------------------------------------------------------------------------ PlainDateTime
        Val::DateTime { day, ns, cal } => {
            let (y, _, _) = from_days(*day);
            let id = cal_id(*cal);
            o = o.class("PlainDateTime").class(year_class(y)).class(prec_class(p)).nontrivial(year_nontrivial(y) || ns % S != 0);
            if ns % S != 0 {
                o = o.class("subsecond-nonzero");
            }
            let dt = Dt { day: *day, ns: *ns };
            let pdt = match plain_datetime(dt).map(|x| x.with_calendar(calendar(*cal))) {
                Ok(Ok(v)) => v,
                Ok(Err(e)) | Err(e) => bail!(o, "C11/datetime/construct", "Ok", err_str(&e)),
            };
            let w = ns - ns.rem_euclid(q);
            if w != *ns {
                o = o.class("lossy:precision");
            }
            let r = pdt.to_ixdtf_string(to_string_opts(p, c.via_unit), conv_cs(cs));
            if !datetime_in_range(*day, w) {
                // truncation at the very first representable date-time leaves the range
                o = o.class("rounds-out-of-range");
                return match r {
                    Err(e) if e.kind() == ErrorKind::Range => o,
                    other => o.fail("C11/datetime/accepted-out-of-range", "RangeError", format!("{:?}", other.map_err(|e| err_str(&e)))),
                };
            }
            let want = fmt::datetime(*day, w, p) + &cal_annotation(id, cs);
            let text = match r {
                Ok(s) => s,
                Err(e) => bail!(o, "C11/datetime/format-error", &want, err_str(&e)),
            };
            chk!(o, text == want, "C11/datetime/text", want, text);
            if !non_default {
                chk!(o, pdt.to_string() == want, "C11/datetime/display", want, pdt.to_string());
            }
            let keeps_cal = cs != CalShow::Never || id == "iso8601";
            if !keeps_cal {
                o = o.class("lossy:calendar-dropped");
            }
            match PlainDateTime::from_str(&text) {
                Ok(b) => {
                    let wdt = Dt { day: *day, ns: w };
                    chk!(o, dt_of(&b) == wdt, "C11/datetime/parse/fields", format!("{wdt:?}"), format!("{:?}", dt_of(&b)));
                    let wc = if keeps_cal { id } else { "iso8601" };
                    chk!(o, b.calendar().identifier() == wc, "C11/datetime/parse/calendar", wc, b.calendar().identifier());
                    if keeps_cal && w == *ns {
                        chk!(o, b == pdt, "C11/datetime/parse/not-equal", format!("{pdt:?}"), format!("{b:?}"));
                    }
                    match b.to_ixdtf_string(to_string_opts(p, c.via_unit), conv_cs(cs)) {
                        Ok(again) => chk!(o, again == text, "C11/datetime/idempotent", text, again),
                        Err(e) => bail!(o, "C11/datetime/idempotent/error", &text, err_str(&e)),
                    }
                }
                Err(e) => bail!(o, "C11/datetime/parse/error", &text, err_str(&e)),
            }
        }
        // ------------------------------------------------------------------------------ PlainYearMonth
        Val::YearMonth { y, m, ref_day, cal } => {
            let id = cal_id(*cal);
            let yy = *y as i64;
            o = o.class("PlainYearMonth").class(year_class(yy)).nontrivial(year_nontrivial(yy));
            let ym = match PlainYearMonth::new_with_overflow(*y, *m, *ref_day, calendar(*cal), ArithmeticOverflow::Reject) {
                Ok(v) => v,
                Err(e) => bail!(o, "C11/yearmonth/construct", "Ok", err_str(&e)),
            };
            let rd = ref_day.unwrap_or(1);
            // PadISOYear is exposed on this type
            let pad = ym.padded_iso_year_string();
            if pad != fmt::year(yy) {
                let sig = if *y == 9999 && pad == "+009999" { "C11/yearmonth/padded-year/9999-printed-as-+009999" } else { "C11/yearmonth/padded-year" };
                bail!(o, sig, fmt::year(yy), pad);
            }
            let text = ym.to_ixdtf_string(conv_cs(cs));
            let want = year_month_text(yy, *m, rd, id, cs);
            chk!(o, text == want, "C11/yearmonth/text", want, text);
            if cs == CalShow::Auto {
                chk!(o, ym.to_string() == want, "C11/yearmonth/display", want, ym.to_string());
            }
            let iso = id == "iso8601";
            let shows_day = matches!(cs, CalShow::Always | CalShow::Critical) || !iso;
            let canonical = iso && rd == 1;
            if !iso {
                o = o.class("non-iso-calendar");
            }
            if !canonical {
                o = o.class("non-canonical-reference-field");
            }
            let parsed = PlainYearMonth::from_str(&text);
            if !iso && cs != CalShow::Never {
                // the text carries a non-ISO calendar annotation and the full reference date
                return match parsed {
                    Ok(b) => {
                        // the reference day is re-derived by the calendar: only the calendar is compared
                        chk!(o, b.calendar().identifier() == id, "C11/yearmonth/parse/calendar", id, b.calendar().identifier());
                        o
                    }
                    Err(e) if e.kind() == ErrorKind::Range && e.message() == "non-ISO calendar not supported." => {
                        o.fail("C11/yearmonth/non-iso-calendar/parse-rejected:non-ISO calendar not supported.", &text, err_str(&e))
                    }
                    Err(e) => o.fail("C11/yearmonth/parse/error", &text, err_str(&e)),
                };
            }
            if !iso {
                o = o.class("lossy:calendar-dropped");
            }
            match parsed {
                Ok(b) => {
                    let got = (b.iso_year() as i64, b.iso_month());
                    chk!(o, got == (yy, *m), "C11/yearmonth/parse/fields", (yy, *m), got);
                    chk!(o, b.calendar().identifier() == "iso8601", "C11/yearmonth/parse/calendar", "iso8601", b.calendar().identifier());
                    if canonical {
                        chk!(o, b == ym, "C11/yearmonth/parse/not-equal", format!("{ym:?}"), format!("{b:?}"));
                    }
                    if canonical || (iso && !shows_day) {
                        let again = b.to_ixdtf_string(conv_cs(cs));
                        chk!(o, again == text, "C11/yearmonth/idempotent", text, again);
                    }
                }
                Err(e) => bail!(o, "C11/yearmonth/parse/error", &text, err_str(&e)),
            }
        }
        // ------------------------------------------------------------------------------ PlainMonthDay
        Val::MonthDay { m, d, ref_year, cal } => {
            let id = cal_id(*cal);
            let ry = ref_year.unwrap_or(1972) as i64;
            let iso = id == "iso8601";
            let shows_year = matches!(cs, CalShow::Always | CalShow::Critical) || !iso;
            o = o.class("PlainMonthDay").nontrivial(shows_year && year_nontrivial(ry));
            if shows_year {
                o = o.class(year_class(ry));
            }
            let md = match PlainMonthDay::new_with_overflow(*m, *d, calendar(*cal), ArithmeticOverflow::Reject, *ref_year) {
                Ok(v) => v,
                Err(e) => bail!(o, "C11/monthday/construct", "Ok", err_str(&e)),
            };
            let text = md.to_ixdtf_string(conv_cs(cs));
            let want = month_day_text(ry, *m, *d, id, cs);
            chk!(o, text == want, "C11/monthday/text", want, text);
            if cs == CalShow::Auto {
                chk!(o, md.to_string() == want, "C11/monthday/display", want, md.to_string());
            }
            let canonical = iso && ry == 1972;
            if !iso {
                o = o.class("non-iso-calendar");
            }
            if !canonical {
                o = o.class("non-canonical-reference-field");
            }
            let parsed = PlainMonthDay::from_str(&text);
            if !iso && cs != CalShow::Never {
                return match parsed {
                    Ok(b) => {
                        chk!(o, b.calendar().identifier() == id, "C11/monthday/parse/calendar", id, b.calendar().identifier());
                        o
                    }
                    Err(e) if e.kind() == ErrorKind::Range && e.message() == "non-ISO calendar not supported." => {
                        o.fail("C11/monthday/non-iso-calendar/parse-rejected:non-ISO calendar not supported.", &text, err_str(&e))
                    }
                    Err(e) => o.fail("C11/monthday/parse/error", &text, err_str(&e)),
                };
            }
            if !iso {
                o = o.class("lossy:calendar-dropped");
            }
            match parsed {
                Ok(b) => {
                    let got = (b.iso_month(), b.iso_day());
                    chk!(o, got == (*m, *d), "C11/monthday/parse/fields", (*m, *d), got);
                    chk!(o, b.calendar().identifier() == "iso8601", "C11/monthday/parse/calendar", "iso8601", b.calendar().identifier());
                    if canonical {
                        chk!(o, b == md, "C11/monthday/parse/not-equal", format!("{md:?}"), format!("{b:?}"));
                    }
                    if canonical || (iso && !shows_year) {
                        let again = b.to_ixdtf_string(conv_cs(cs));
                        chk!(o, again == text, "C11/monthday/idempotent", text, again);
                    }
                }
                Err(e) => bail!(o, "C11/monthday/parse/error", &text, err_str(&e)),
            }
        }
        // ------------------------------------------------------------------------------ Instant
        Val::Instant { t, zone } => {
            o = o.class("Instant").class(prec_class(p));
            let inst = match Instant::try_new(*t) {
                Ok(v) => v,
                Err(e) => bail!(o, "C11/instant/construct", "Ok", err_str(&e)),
            };
            let w = round_as_if_positive(*t, q, Mode::Trunc);
            if w != *t {
                o = o.class("lossy:precision");
            }
            let (z, tz, prov) = match zone {
                Some(k) => (k.zone(), Some(k.timezone()), k.provider()),
                None => (crate::refm::tz::Zone::fixed("UTC", 0), None, ZoneKind::Fixed(0).provider()),
            };
            let off = z.offset_at(w);
            let wall = w + off as i128 * S;
            let (wd, wn) = (wall.div_euclid(DAY) as i64, wall.rem_euclid(DAY));
            let (y, _, _) = from_days(wd);
            o = o.class(year_class(y)).nontrivial(year_nontrivial(y) || wn % S != 0 || off != 0);
            if wn % S != 0 {
                o = o.class("subsecond-nonzero");
            }
            let want = match zone {
                None => format!("{}Z", fmt::datetime(wd, wn, p)),
                Some(_) => {
                    o = o.class(if off == 0 { "instant-in-zone:utc-offset" } else if off % 60 == 0 { "instant-in-zone:minute-offset" } else { "instant-in-zone:offset-with-seconds" });
                    format!("{}{}", fmt::datetime(wd, wn, p), fmt::offset_minutes(rounded_offset_seconds(off) / 60))
                }
            };
            let text = match inst.to_ixdtf_string_with_provider(tz.as_ref(), to_string_opts(p, c.via_unit), &prov) {
                Ok(s) => s,
                Err(e) => bail!(o, "C11/instant/format-error", &want, err_str(&e)),
            };
            chk!(o, text == want, "C11/instant/text", want, text);
            let parsed = Instant::from_str(&text);
            if off % 60 != 0 {
                // the minute-rounded offset no longer identifies the instant (Temporal prints it that way)
                return o.class("lossy:offset-rounded-to-minute");
            }
            match parsed {
                Ok(b) => {
                    chk!(o, b.as_i128() == w, "C11/instant/parse/value", w, b.as_i128());
                    match b.to_ixdtf_string_with_provider(tz.as_ref(), to_string_opts(p, c.via_unit), &prov) {
                        Ok(again) => chk!(o, again == text, "C11/instant/idempotent", text, again),
                        Err(e) => bail!(o, "C11/instant/idempotent/error", &text, err_str(&e)),
                    }
                }
                Err(e) => bail!(o, "C11/instant/parse/error", &text, err_str(&e)),
            }
        }
        // ------------------------------------------------------------------------------ ZonedDateTime
        Val::Zoned { t, zone, cal } => {
            let id = cal_id(*cal);
            let z = zone.zone();
            let tz = zone.timezone();
            let prov = zone.provider();
            o = o.class("ZonedDateTime").class(prec_class(p)).class(match zone {
                ZoneKind::Fixed(_) => "zone:fixed-offset",
                ZoneKind::Table(_) => "zone:table",
                ZoneKind::Real { .. } => "zone:real-iana-bundled-provider",
            });
            let zdt = match ZonedDateTime::try_new(*t, calendar(*cal), tz.clone()) {
                Ok(v) => v,
                Err(e) => bail!(o, "C11/zoned/construct", "Ok", err_str(&e)),
            };
            let w = round_as_if_positive(*t, q, Mode::Trunc);
            if w != *t {
                o = o.class("lossy:precision");
            }
            let off = z.offset_at(w);
            let wall = w + off as i128 * S;
            let (wd, wn) = (wall.div_euclid(DAY) as i64, wall.rem_euclid(DAY));
            let (y, _, _) = from_days(wd);
            o = o.class(year_class(y)).nontrivial(year_nontrivial(y) || wn % S != 0 || off != 0);
            if wn % S != 0 {
                o = o.class("subsecond-nonzero");
            }
            o = o.class(if off == 0 { "offset:utc" } else if off % 3600 == 0 { "offset:whole-hours" } else if off % 60 == 0 { "offset:non-zero-minutes" } else { "offset:non-zero-seconds" });
            let roff = rounded_offset_seconds(off);
            let mut want = fmt::datetime(wd, wn, p);
            if c.off_show == OffShow::Auto {
                want += &fmt::offset_minutes(roff / 60);
            }
            want += &zone_annotation(&zone.ident(), c.tz_show);
            want += &cal_annotation(id, cs);
            let fmt_z = |v: &ZonedDateTime| v.to_ixdtf_string_with_provider(conv_os(c.off_show), conv_ts(c.tz_show), conv_cs(cs), to_string_opts(p, c.via_unit), &prov);
            let text = match fmt_z(&zdt) {
                Ok(s) => s,
                Err(e) => bail!(o, "C11/zoned/format-error", &want, err_str(&e)),
            };
            chk!(o, text == want, "C11/zoned/text", want, text);
            // the parts of the text survive their own parsers: the time zone of a zoned string is its annotation (the
            // offset only when there is none; neither -> RangeError), the calendar is the annotation or ISO
            {
                let want_tz: Result<TimeZone, ()> = if c.tz_show != TzShow::Never {
                    Ok(tz.clone())
                } else if c.off_show == OffShow::Auto {
                    TimeZone::try_from_identifier_str(&fmt::offset_minutes(roff / 60)).map_err(|_| ())
                } else {
                    Err(())
                };
                match (TimeZone::try_from_str(&text), &want_tz) {
                    (Ok(g), Ok(w)) => chk!(o, g == *w, "C11/zoned/timezone-of-the-text", format!("{w:?}"), format!("{g:?}")),
                    (Err(e), Err(())) => chk!(o, e.kind() == ErrorKind::Range, "C11/zoned/timezone-of-the-text/error-kind", "RangeError", err_str(&e)),
                    (Ok(g), Err(())) => bail!(o, "C11/zoned/timezone-of-the-text/accepted", "RangeError (no offset, no annotation)", format!("{g:?}")),
                    (Err(e), Ok(w)) => bail!(o, "C11/zoned/timezone-of-the-text/error", format!("{w:?}"), err_str(&e)),
                }
                let want_cal = if cs != CalShow::Never || id == "iso8601" { id } else { "iso8601" };
                match Calendar::from_str(&text) {
                    Ok(g) => chk!(o, g.identifier() == want_cal, "C11/zoned/calendar-of-the-text", want_cal, g.identifier()),
                    Err(e) => bail!(o, "C11/zoned/calendar-of-the-text/error", want_cal, err_str(&e)),
                }
            }
            if c.tz_show == TzShow::Never {
                // without the annotation the text is not a zoned date-time string
                return o.class("lossy:zone-dropped");
            }
            // the instant Temporal assigns to the printed text (wall time as printed, offset as printed)
            let printed_wall = if p == Prec::Minute { wall - wall.rem_euclid(60 * S) } else { wall };
            let given = if c.off_show == OffShow::Auto { Given::Offset(roff) } else { Given::None };
            let spec = c13::expected(&z, printed_wall, given, Disamb::Compatible, OffOpt::Reject, true);
            let n_cand = z.instants(printed_wall).len();
            if n_cand > 1 {
                o = o.class("wall-time-in-overlap").nontrivial(true);
            }
            let parsed = ZonedDateTime::from_str_with_provider(&text, Disambiguation::Compatible, OffsetDisambiguation::Reject, &prov);
            if wd < -100_000_000 && (c.off_show == OffShow::Auto || matches!(zone, ZoneKind::Table(_))) {
                // Temporal's CheckISODaysRange rejects a wall date on epoch day -100000001 (-271821-04-19) when a
                // zoned string is interpreted (with an offset to match, or in a named zone), although instants with
                // such a wall date exist: not judged. (Offset zones without a printed offset check the UTC date.)
                o.unjudged = true;
                return o.class("unjudged:wall-date-on-epoch-day--100000001(CheckISODaysRange)");
            }
            if spec != Ok(w) {
                return o.class(if printed_wall != wall {
                    "lossy:minute-precision-drops-offset-seconds"
                } else if c.off_show == OffShow::Never {
                    "lossy:offset-dropped-in-overlap"
                } else {
                    "lossy:minute-rounded-offset-ambiguous"
                });
            }
            let keeps_cal = cs != CalShow::Never || id == "iso8601";
            if !keeps_cal {
                o = o.class("lossy:calendar-dropped");
            }
            match parsed {
                Ok(b) => {
                    let got = b.epoch_nanoseconds().as_i128();
                    chk!(o, got == w, "C11/zoned/parse/instant", w, got);
                    chk!(o, b.timezone() == &tz, "C11/zoned/parse/zone", format!("{tz:?}"), format!("{:?}", b.timezone()));
                    let wc = if keeps_cal { id } else { "iso8601" };
                    chk!(o, b.calendar().identifier() == wc, "C11/zoned/parse/calendar", wc, b.calendar().identifier());
                    match fmt_z(&b) {
                        Ok(again) => chk!(o, again == text, "C11/zoned/idempotent", text, again),
                        Err(e) => bail!(o, "C11/zoned/idempotent/error", &text, err_str(&e)),
                    }
                }
                Err(e) => {
                    if printed_wall > MAX_INSTANT && c.off_show == OffShow::Auto && e.kind() == ErrorKind::Range && e.message() == "Instant nanoseconds are not within a valid epoch range." {
                        // defect model: the wall-clock reading is converted to epoch ns with a range check before
                        // the offset is subtracted
                        bail!(o.class("wall-clock-as-utc-beyond-instant-limit"), "C11/zoned/parse/error/wall-clock-read-as-utc-beyond-instant-limit", &text, err_str(&e));
                    }
                    let sig = if off % 60 != 0 { "C11/zoned/parse/error/offset-with-seconds" } else if off % 3600 != 0 { "C11/zoned/parse/error/offset-with-minutes" } else { "C11/zoned/parse/error" };
                    bail!(o, sig, &text, err_str(&e))
                }
            }
        }
        // ------------------------------------------------------------------------------ Duration
        Val::Duration { f } => {
            o = o.class("Duration").class(prec_class(p));
            let Some(d) = Dur::from_f64s(f) else {
                return o.fail("C11/duration/case-not-integral", "integral fields", format!("{f:?}"));
            };
            let neg = d.sign() < 0;
            let sub = (d.f[7] * 1_000_000 + d.f[8] * 1000 + d.f[9]) % S;
            o = o.nontrivial(neg || sub != 0);
            if neg {
                o = o.class("negative-duration");
            }
            if sub != 0 {
                o = o.class("subsecond-nonzero");
            }
            if d.f[..7].iter().all(|v| *v == 0) && !d.f[7..].iter().all(|v| *v == 0) {
                o = o.class("only-subsecond-fields");
            }
            if f[7..].iter().any(|v| v.abs() > 9007199254740992.0) {
                o = o.class("subsecond-field>2^53");
            }
            let dur = match duration_from_f64s(f) {
                Ok(v) => v,
                Err(e) => bail!(o, "C11/duration/construct-rejected-valid", format!("{f:?}"), err_str(&e)),
            };
            let r = dur.as_temporal_string(to_string_opts(p, c.via_unit));
            if p == Prec::Minute {
                return match r {
                    Err(e) if e.kind() == ErrorKind::Range => o.class("duration-minute-rejected"),
                    other => o.fail("C11/duration/minute-accepted", "RangeError", format!("{:?}", other.map_err(|e| err_str(&e)))),
                };
            }
            // Auto / 9 digits print the fields as they are; fewer digits truncate towards zero and rebalance
            // from the largest non-zero unit (Temporal.Duration.prototype.toString steps 11-17)
            let w = if matches!(p, Prec::Auto | Prec::Digits(9)) { d } else { dur_truncated(&d, q) };
            if w != d {
                o = o.class("lossy:truncated-or-rebalanced");
            }
            let want = fmt::duration(&w, p);
            let text = match r {
                Ok(s) => s,
                Err(e) => bail!(o, "C11/duration/format-error", &want, err_str(&e)),
            };
            if text != want {
                // defect model: under auto precision the seconds component is omitted when the whole seconds are
                // zero although a sub-second part exists (and a larger unit is present)
                let whole = (d.f[6] * S + d.f[7] * 1_000_000 + d.f[8] * 1000 + d.f[9]) / S;
                let mut cut = d;
                cut.f[6] = 0;
                cut.f[7] = 0;
                cut.f[8] = 0;
                cut.f[9] = 0;
                let sig = if p == Prec::Auto && whole == 0 && sub != 0 && d.f[..6].iter().any(|v| *v != 0) && text == fmt::duration(&cut, p) {
                    "C11/duration/text/subsecond-part-dropped-when-whole-seconds-are-zero"
                } else {
                    "C11/duration/text"
                };
                bail!(o, sig, want, text);
            }
            if p == Prec::Auto {
                chk!(o, dur.to_string() == want, "C11/duration/display", want, dur.to_string());
            }
            match Duration::from_str(&text) {
                Ok(b) => {
                    let bf = duration_fields(&b);
                    let Some(bd) = Dur::from_f64s(&bf) else {
                        return o.fail("C11/duration/parse/non-integral", &text, format!("{bf:?}"));
                    };
                    let fold = |x: &Dur| x.f[6] * S + x.f[7] * 1_000_000 + x.f[8] * 1000 + x.f[9];
                    chk!(o, bd.f[..6] == w.f[..6] && fold(&bd) == fold(&w), "C11/duration/parse/fields", format!("{:?} + {} ns", &w.f[..6], fold(&w)), format!("{:?} + {} ns", &bd.f[..6], fold(&bd)));
                    match b.as_temporal_string(to_string_opts(p, c.via_unit)) {
                        Ok(again) => chk!(o, again == text, "C11/duration/idempotent", text, again),
                        Err(e) => bail!(o, "C11/duration/idempotent/error", &text, err_str(&e)),
                    }
                }
                Err(e) => bail!(o, "C11/duration/parse/error", &text, err_str(&e)),
            }
        }
    }
    o
}

/// time part truncated towards zero to a multiple of `q` ns and rebalanced from the larger of the
/// duration's largest non-zero unit and seconds; the date part is kept (days absorb whole 24 h only when
/// the largest unit is a date unit)
pub fn dur_truncated(d: &Dur, q: i128) -> Dur {
    let t = d.time_ns();
    let r = t - t % q;
    let largest = d.largest_unit().larger_of(U::Second);
    let mut b = balance_time(r, largest);
    b.f[0] = d.f[0];
    b.f[1] = d.f[1];
    b.f[2] = d.f[2];
    b.f[3] += d.f[3];
    b
}
