//! Exhaustive print/parse round trip of the textual names: option enums, UTC offsets, month codes,
//! calendar identifiers, time-zone identifiers.

use super::oracle::CALS;
use crate::chk;
use crate::conv::err_str;
use crate::props::c13::shaped_zones;
use crate::refm::fmt;
use crate::run::*;
use serde::{Deserialize, Serialize};
use std::str::FromStr;
use temporal_rs::options::{ArithmeticOverflow, Disambiguation, DisplayCalendar, DisplayOffset, DisplayTimeZone, DurationOverflow, OffsetDisambiguation, RoundingMode, Unit};
use temporal_rs::provider::TransitionDirection;
use temporal_rs::{Calendar, MonthCode, TimeZone, UtcOffset};

#[derive(Serialize, Deserialize, Debug, Clone, Copy, PartialEq, Eq)]
pub enum Family {
    Unit,
    RoundingMode,
    ArithmeticOverflow,
    DurationOverflow,
    Disambiguation,
    OffsetDisambiguation,
    DisplayCalendar,
    DisplayOffset,
    DisplayTimeZone,
    TransitionDirection,
    UtcOffset,
    MonthCode,
    Calendar,
    TimeZone,
}

#[derive(Serialize, Deserialize, Debug, Clone)]
pub struct NameCase {
    pub family: Family,
    pub idx: u32,
}
pub struct NameSub;

// every variant list is paired with an exhaustive `match` (a new variant in the crate stops the build)
const UNITS: [Unit; 11] = [Unit::Auto, Unit::Nanosecond, Unit::Microsecond, Unit::Millisecond, Unit::Second, Unit::Minute, Unit::Hour, Unit::Day, Unit::Week, Unit::Month, Unit::Year];
fn unit_ord(u: Unit) -> usize {
    match u {
        Unit::Auto => 0,
        Unit::Nanosecond => 1,
        Unit::Microsecond => 2,
        Unit::Millisecond => 3,
        Unit::Second => 4,
        Unit::Minute => 5,
        Unit::Hour => 6,
        Unit::Day => 7,
        Unit::Week => 8,
        Unit::Month => 9,
        Unit::Year => 10,
    }
}
const MODES: [RoundingMode; 9] = [RoundingMode::Ceil, RoundingMode::Floor, RoundingMode::Expand, RoundingMode::Trunc, RoundingMode::HalfCeil, RoundingMode::HalfFloor, RoundingMode::HalfExpand, RoundingMode::HalfTrunc, RoundingMode::HalfEven];
fn mode_ord(m: RoundingMode) -> usize {
    match m {
        RoundingMode::Ceil => 0,
        RoundingMode::Floor => 1,
        RoundingMode::Expand => 2,
        RoundingMode::Trunc => 3,
        RoundingMode::HalfCeil => 4,
        RoundingMode::HalfFloor => 5,
        RoundingMode::HalfExpand => 6,
        RoundingMode::HalfTrunc => 7,
        RoundingMode::HalfEven => 8,
    }
}
const AOS: [ArithmeticOverflow; 2] = [ArithmeticOverflow::Constrain, ArithmeticOverflow::Reject];
fn ao_ord(x: ArithmeticOverflow) -> usize {
    match x {
        ArithmeticOverflow::Constrain => 0,
        ArithmeticOverflow::Reject => 1,
    }
}
const DOS: [DurationOverflow; 2] = [DurationOverflow::Constrain, DurationOverflow::Balance];
fn do_ord(x: DurationOverflow) -> usize {
    match x {
        DurationOverflow::Constrain => 0,
        DurationOverflow::Balance => 1,
    }
}
const DISS: [Disambiguation; 4] = [Disambiguation::Compatible, Disambiguation::Earlier, Disambiguation::Later, Disambiguation::Reject];
fn dis_ord(x: Disambiguation) -> usize {
    match x {
        Disambiguation::Compatible => 0,
        Disambiguation::Earlier => 1,
        Disambiguation::Later => 2,
        Disambiguation::Reject => 3,
    }
}
const ODS: [OffsetDisambiguation; 4] = [OffsetDisambiguation::Use, OffsetDisambiguation::Prefer, OffsetDisambiguation::Ignore, OffsetDisambiguation::Reject];
fn od_ord(x: OffsetDisambiguation) -> usize {
    match x {
        OffsetDisambiguation::Use => 0,
        OffsetDisambiguation::Prefer => 1,
        OffsetDisambiguation::Ignore => 2,
        OffsetDisambiguation::Reject => 3,
    }
}
const DCS: [DisplayCalendar; 4] = [DisplayCalendar::Auto, DisplayCalendar::Always, DisplayCalendar::Never, DisplayCalendar::Critical];
fn dc_ord(x: DisplayCalendar) -> usize {
    match x {
        DisplayCalendar::Auto => 0,
        DisplayCalendar::Always => 1,
        DisplayCalendar::Never => 2,
        DisplayCalendar::Critical => 3,
    }
}
const DOFFS: [DisplayOffset; 2] = [DisplayOffset::Auto, DisplayOffset::Never];
fn doff_ord(x: DisplayOffset) -> usize {
    match x {
        DisplayOffset::Auto => 0,
        DisplayOffset::Never => 1,
    }
}
const DTZS: [DisplayTimeZone; 3] = [DisplayTimeZone::Auto, DisplayTimeZone::Never, DisplayTimeZone::Critical];
fn dtz_ord(x: DisplayTimeZone) -> usize {
    match x {
        DisplayTimeZone::Auto => 0,
        DisplayTimeZone::Never => 1,
        DisplayTimeZone::Critical => 2,
    }
}
const TDS: [TransitionDirection; 2] = [TransitionDirection::Next, TransitionDirection::Previous];
fn td_ord(x: TransitionDirection) -> usize {
    match x {
        TransitionDirection::Next => 0,
        TransitionDirection::Previous => 1,
    }
}

/// syntactically valid IANA-style names (TimeZone::IanaIdentifier is a public variant; only names of the
/// grammar's shape are in the domain)
pub fn zone_names() -> Vec<String> {
    let mut v: Vec<String> = [
        "UTC", "Etc/UTC", "Etc/GMT+5", "Etc/GMT-14", "GMT", "Europe/London", "America/New_York", "America/Argentina/Buenos_Aires", "America/Port-au-Prince", "Asia/Ho_Chi_Minh",
        "America/North_Dakota/New_Salem", "GB-Eire", "EST5EDT", "Australia/Lord_Howe", "Pacific/Apia", "Asia/Kolkata", "W-SU", "PST8PDT", "Africa/Sao_Tome", "utc", "europe/london", "America/St_Johns",
        "_Private/.Zone", "Antarctica/DumontDUrville",
    ]
    .iter()
    .map(|s| s.to_string())
    .collect();
    v.extend(shaped_zones().into_iter().map(|z| z.name));
    v.push("Test/Synthetic".into());
    v
}

const FAMILY_SIZES: [(Family, u32); 14] = [
    (Family::Unit, 11),
    (Family::RoundingMode, 9),
    (Family::ArithmeticOverflow, 2),
    (Family::DurationOverflow, 2),
    (Family::Disambiguation, 4),
    (Family::OffsetDisambiguation, 4),
    (Family::DisplayCalendar, 4),
    (Family::DisplayOffset, 2),
    (Family::DisplayTimeZone, 3),
    (Family::TransitionDirection, 2),
    (Family::UtcOffset, 2879),
    (Family::MonthCode, 200),
    (Family::Calendar, 18),
    (Family::TimeZone, 0), // filled in by size_of
];
fn size_of(f: Family, n: u32) -> u32 {
    if f == Family::TimeZone {
        2879 + zone_names().len() as u32
    } else {
        n
    }
}
pub fn count() -> u64 {
    FAMILY_SIZES.iter().map(|(f, n)| size_of(*f, *n) as u64).sum()
}
pub fn case_at(mut i: u64) -> NameCase {
    for (f, n) in FAMILY_SIZES.iter() {
        let n = size_of(*f, *n) as u64;
        if i < n {
            return NameCase { family: *f, idx: i as u32 };
        }
        i -= n;
    }
    NameCase { family: Family::Unit, idx: 0 }
}

macro_rules! enum_rt {
    ($o:expr, $fam:expr, $list:expr, $ord:expr, $ty:ty, $i:expr) => {{
        let Some(x) = $list.get($i as usize).copied() else {
            return $o.fail("C11/names/bad-index", "index in range", $i.to_string());
        };
        let s = x.to_string();
        match <$ty>::from_str(&s) {
            Ok(b) => chk!($o, $ord(b) == $ord(x), format!("C11/names/{}/{:?}/parses-to-other-variant", $fam, x), format!("{:?}", x), format!("{:?} via {:?}", b, s)),
            Err(_) => {
                $o = $o.fail(format!("C11/names/{}/{:?}/printed-name-does-not-parse:{}", $fam, x, s), format!("{:?}", x), format!("from_str({:?}) failed", s));
            }
        }
    }};
}

impl SubCheck for NameSub {
    type Case = NameCase;
    fn name(&self) -> &'static str {
        "names"
    }
    fn eval(&self, c: &NameCase) -> Outcome {
        let mut o = Outcome::pass().nontrivial(true);
        let i = c.idx;
        match c.family {
            Family::Unit => {
                o = o.class("enum:Unit");
                enum_rt!(o, "Unit", UNITS, unit_ord, Unit, i);
            }
            Family::RoundingMode => {
                o = o.class("enum:RoundingMode");
                enum_rt!(o, "RoundingMode", MODES, mode_ord, RoundingMode, i);
            }
            Family::ArithmeticOverflow => {
                o = o.class("enum:ArithmeticOverflow");
                enum_rt!(o, "ArithmeticOverflow", AOS, ao_ord, ArithmeticOverflow, i);
            }
            Family::DurationOverflow => {
                o = o.class("enum:DurationOverflow");
                enum_rt!(o, "DurationOverflow", DOS, do_ord, DurationOverflow, i);
            }
            Family::Disambiguation => {
                o = o.class("enum:Disambiguation");
                enum_rt!(o, "Disambiguation", DISS, dis_ord, Disambiguation, i);
            }
            Family::OffsetDisambiguation => {
                o = o.class("enum:OffsetDisambiguation");
                enum_rt!(o, "OffsetDisambiguation", ODS, od_ord, OffsetDisambiguation, i);
            }
            Family::DisplayCalendar => {
                o = o.class("enum:DisplayCalendar");
                enum_rt!(o, "DisplayCalendar", DCS, dc_ord, DisplayCalendar, i);
            }
            Family::DisplayOffset => {
                o = o.class("enum:DisplayOffset");
                enum_rt!(o, "DisplayOffset", DOFFS, doff_ord, DisplayOffset, i);
            }
            Family::DisplayTimeZone => {
                o = o.class("enum:DisplayTimeZone");
                enum_rt!(o, "DisplayTimeZone", DTZS, dtz_ord, DisplayTimeZone, i);
            }
            Family::TransitionDirection => {
                o = o.class("enum:TransitionDirection");
                enum_rt!(o, "TransitionDirection", TDS, td_ord, TransitionDirection, i);
            }
            Family::UtcOffset => {
                o = o.class("UtcOffset");
                let mins = i as i64 - 1439;
                let s = fmt::offset_minutes(mins);
                match UtcOffset::from_str(&s) {
                    Ok(u) => match u.to_string() {
                        Ok(t) => {
                            chk!(o, t == s, "C11/names/UtcOffset/text", s, t);
                            match UtcOffset::from_str(&t) {
                                Ok(u2) => chk!(o, u2 == u, "C11/names/UtcOffset/round-trip", format!("{u:?}"), format!("{u2:?}")),
                                Err(e) => o = o.fail("C11/names/UtcOffset/printed-does-not-parse", t, err_str(&e)),
                            }
                        }
                        Err(e) => o = o.fail("C11/names/UtcOffset/to_string-error", s, err_str(&e)),
                    },
                    Err(e) => o = o.fail("C11/names/UtcOffset/canonical-text-rejected", s, err_str(&e)),
                }
            }
            Family::MonthCode => {
                let n = i % 100;
                let leap = i >= 100;
                let s = format!("M{:02}{}", n, if leap { "L" } else { "" });
                let named = (1..=13).contains(&n);
                o = o.class(if named { "MonthCode:M01-M13(L)" } else { "MonthCode:other-number" });
                match MonthCode::from_str(&s) {
                    Ok(mc) => {
                        chk!(o, mc.as_str() == s, "C11/names/MonthCode/text", s, mc.as_str());
                        chk!(o, mc.to_month_integer() as u32 == n && mc.is_leap_month() == leap, "C11/names/MonthCode/parts", (n, leap), (mc.to_month_integer(), mc.is_leap_month()));
                        match MonthCode::from_str(mc.as_str()) {
                            Ok(b) => chk!(o, b == mc, "C11/names/MonthCode/round-trip", format!("{mc:?}"), format!("{b:?}")),
                            Err(e) => o = o.fail("C11/names/MonthCode/printed-does-not-parse", s, err_str(&e)),
                        }
                    }
                    Err(e) => {
                        if named {
                            o = o.fail("C11/names/MonthCode/rejected", s, err_str(&e));
                        } else {
                            // whether M00 / M14.. exist is the type's choice; nothing to round trip
                            o.unjudged = true;
                        }
                    }
                }
            }
            Family::Calendar => {
                o = o.class("Calendar");
                let (id, kind) = CALS[i as usize % CALS.len()];
                let cal = Calendar::new(kind);
                chk!(o, cal.identifier() == id, format!("C11/names/Calendar/{id}/identifier"), id, cal.identifier());
                match Calendar::from_str(cal.identifier()) {
                    Ok(b) => chk!(o, b == cal && b.identifier() == cal.identifier(), format!("C11/names/Calendar/{id}/round-trip"), cal.identifier(), b.identifier()),
                    Err(e) => o = o.fail(format!("C11/names/Calendar/{id}/printed-does-not-parse"), cal.identifier(), err_str(&e)),
                }
                match Calendar::from_utf8(cal.identifier().as_bytes()) {
                    Ok(b) => chk!(o, b == cal, format!("C11/names/Calendar/{id}/from_utf8-round-trip"), cal.identifier(), b.identifier()),
                    Err(e) => o = o.fail(format!("C11/names/Calendar/{id}/from_utf8-rejected"), cal.identifier(), err_str(&e)),
                }
            }
            Family::TimeZone => {
                let tz = if i < 2879 {
                    o = o.class("TimeZone:offset");
                    let s = fmt::offset_minutes(i as i64 - 1439);
                    match TimeZone::try_from_identifier_str(&s) {
                        Ok(TimeZone::UtcOffset(u)) => {
                            match TimeZone::UtcOffset(u).identifier() {
                                Ok(t) => chk!(o, t == s, "C11/names/TimeZone/offset-identifier-text", s, t),
                                Err(e) => o = o.fail("C11/names/TimeZone/identifier-error", s.clone(), err_str(&e)),
                            }
                            TimeZone::UtcOffset(u)
                        }
                        Ok(other) => return o.fail("C11/names/TimeZone/offset-read-as-name", s, format!("{other:?}")),
                        Err(e) => return o.fail("C11/names/TimeZone/canonical-offset-rejected", s, err_str(&e)),
                    }
                } else {
                    o = o.class("TimeZone:name");
                    let names = zone_names();
                    let Some(n) = names.get((i - 2879) as usize) else {
                        return o.fail("C11/names/bad-index", "index in range", i.to_string());
                    };
                    TimeZone::IanaIdentifier(n.clone())
                };
                let id = match tz.identifier() {
                    Ok(s) => s,
                    Err(e) => return o.fail("C11/names/TimeZone/identifier-error", format!("{tz:?}"), err_str(&e)),
                };
                match TimeZone::try_from_identifier_str(&id) {
                    Ok(b) => chk!(o, b == tz, "C11/names/TimeZone/round-trip", format!("{tz:?}"), format!("{b:?}")),
                    Err(e) => o = o.fail("C11/names/TimeZone/identifier-does-not-parse", id.clone(), err_str(&e)),
                }
                match TimeZone::try_from_str(&id) {
                    Ok(b) => chk!(o, b == tz, "C11/names/TimeZone/try_from_str-round-trip", format!("{tz:?}"), format!("{b:?}")),
                    Err(e) => o = o.fail("C11/names/TimeZone/try_from_str-rejected", id, err_str(&e)),
                }
            }
        }
        o
    }
}
