//! C07, calendar-unit part: ties (and tie +- 1 ns) when rounding to an increment of years, months or weeks.
//!
//! The case is *constructed* as a tie, so the oracle does not need the relative-rounding model: with
//! a = start + r1 units and b = start + r2 units (r2 = r1 + increment, both from AddISODate on a start day <= 28,
//! where no day clamping can occur) the instant exactly half-way between a and b has progress 1/2, one nanosecond
//! to either side has progress just below / above 1/2. The prescribed result is then RoundNumberToIncrement of
//! (r1 + increment * (1/2 +- eps)) for the named mode; `since` rounds with the negated mode and negates.
//!
//! Routes: PlainDateTime::until/since, PlainDate::until/since (when the half-way point is a midnight),
//! Duration::round relative to a PlainDate (duration = r1 units + half the span in days and hours).

use crate::chk;
use crate::conv::*;
use crate::refm::civil::*;
use crate::refm::dateadd::{date_add, Dt, Overflow, Ymd};
use crate::refm::dur::U;
use crate::refm::round::*;
use crate::run::*;
use crate::tzp::TableProvider;
use proptest::prelude::*;
use serde::{Deserialize, Serialize};
use temporal_rs::options::RelativeTo;

#[derive(Serialize, Deserialize, Debug, Clone, Copy, PartialEq, Eq)]
pub enum Route {
    DateTimeUntil,
    DateTimeSince,
    DateUntil,
    DateSince,
    DurationRound,
}

#[derive(Serialize, Deserialize, Debug, Clone)]
pub struct CalCase {
    pub route: Route,
    /// start date (day of month <= 28 is enforced by the generator)
    pub y: i64,
    pub m: u8,
    pub d: u8,
    /// time of day of the start (ns); ignored (0) for the date routes and Duration::round
    pub ns: i128,
    pub unit: U,
    pub inc: u32,
    /// signed count of increments already completed: r1 = k * inc (k < 0: the other value lies before the start)
    pub k: i64,
    pub negative: bool,
    /// -1: one ns nearer to r1 than the tie, 0: exact tie, +1: one ns nearer to r2
    pub delta: i8,
    pub mode: Mode,
    /// the other value is exactly start + r2 units where the addition had to clamp the day (start on the 29th..31st):
    /// the truncated difference is r2 - 1 units and some days, the progress towards r2 is exactly 1 and the result
    /// must be r2 under every mode (NudgeToCalendarUnit: "If progress = 1, roundedUnit = abs(r2)")
    #[serde(default)]
    pub end_clamped: bool,
}

pub struct CalSub;

impl SubCheck for CalSub {
    type Case = CalCase;
    fn name(&self) -> &'static str {
        "cal-tie"
    }
    fn eval(&self, c: &CalCase) -> Outcome {
        let mut o = Outcome::default();
        let sign: i128 = if c.negative { -1 } else { 1 };
        let inc = c.inc as i128;
        let r1 = c.k.unsigned_abs() as i128 * inc; // magnitude
        let r2 = r1 + inc;
        let start = Ymd::new(c.y, c.m, c.d);
        let ov = if c.end_clamped { Overflow::Constrain } else { Overflow::Reject };
        let add = |n: i128| -> Option<Ymd> {
            let n = sign * n;
            match c.unit {
                U::Year => date_add(start, n, 0, 0, 0, ov).ok(),
                U::Month => date_add(start, 0, n, 0, 0, ov).ok(),
                U::Week => date_add(start, 0, 0, n, 0, ov).ok(),
                _ => None,
            }
        };
        let (a, b) = match (add(r1), add(r2)) {
            (Some(a), Some(b)) => (a, b),
            _ => {
                o.unjudged = true;
                return o.class("out-of-range-construction");
            }
        };
        let date_route = matches!(c.route, Route::DateUntil | Route::DateSince);
        let ns0 = if matches!(c.route, Route::DateTimeUntil | Route::DateTimeSince) { c.ns } else { 0 };
        let a_ns = a.n() as i128 * NS_PER_DAY + ns0;
        let b_ns = b.n() as i128 * NS_PER_DAY + ns0;
        // half-way point; the span is a whole number of days so the sum is even
        let mid = (a_ns + b_ns) / 2;
        let delta = if date_route { 0 } else { c.delta as i128 };
        if c.end_clamped && (c.negative || b.d >= start.d || a.d < start.d && r1 != 0) {
            // not the shape this class is about (the end was not clamped, or the lower neighbour was clamped too)
            o.unjudged = true;
            return o.class("end-clamped:not-applicable");
        }
        // delta > 0 means nearer to b: b lies in direction `sign` from a
        let other_ns = if c.end_clamped { b_ns } else { mid + sign * delta };
        let other = Dt { day: other_ns.div_euclid(NS_PER_DAY) as i64, ns: other_ns.rem_euclid(NS_PER_DAY) };
        let start_dt = Dt { day: start.n(), ns: ns0 };
        if !other.in_range() || !start_dt.in_range() || !(Dt { day: b.n(), ns: ns0 }).in_range() || !(Dt { day: a.n(), ns: ns0 }).in_range() {
            o.unjudged = true;
            return o.class("out-of-range-construction");
        }
        if date_route && other.ns != 0 && !c.end_clamped {
            o.unjudged = true;
            return o.class("date-route-odd-span");
        }
        // exact value in units: sign * (r1 + inc * (1/2 + delta * eps)); as a rational with denominator 2000
        let num = sign * ((2 * r1 + inc) * 1000 + delta);
        let since = matches!(c.route, Route::DateTimeSince | Route::DateSince);
        let want: i128 = if c.end_clamped {
            if since {
                -r2
            } else {
                r2
            }
        } else if since {
            -round_rational(num, 2000, inc, c.mode.negated())
        } else {
            round_rational(num, 2000, inc, c.mode)
        };
        if c.end_clamped {
            o = o.class("end-clamped:progress=1");
        }
        o = o.class(match delta {
            0 => "tie",
            d if d < 0 => "tie-1ns",
            _ => "tie+1ns",
        });
        o = o.class(match c.unit {
            U::Year => "unit:year",
            U::Month => "unit:month",
            _ => "unit:week",
        });
        o = o.class(if c.inc % 2 == 0 { "inc:even" } else { "inc:odd" });
        o = o.class(if c.negative { "negative" } else { "positive" });
        if c.k % 2 != 0 {
            o = o.class("r1-odd-multiple");
        }
        o = o.class(match c.route {
            Route::DateTimeUntil => "route:datetime.until",
            Route::DateTimeSince => "route:datetime.since",
            Route::DateUntil => "route:date.until",
            Route::DateSince => "route:date.since",
            Route::DurationRound => "route:duration.round",
        });
        o.nontrivial = true;

        let u = unit(c.unit);
        let st = diff_settings(Some(u), Some(u), Some(c.inc), Some(mode(c.mode)));
        let got = match c.route {
            Route::DateTimeUntil | Route::DateTimeSince => {
                let p = plain_datetime(start_dt).expect("start in range");
                let q = plain_datetime(other).expect("other in range");
                if since {
                    p.since(&q, st)
                } else {
                    p.until(&q, st)
                }
            }
            Route::DateUntil | Route::DateSince => {
                let p = plain_date(start).expect("start in range");
                let q = plain_date(Ymd::from_n(other.day)).expect("other in range");
                if since {
                    p.since(&q, st)
                } else {
                    p.until(&q, st)
                }
            }
            Route::DurationRound => {
                // duration: r1 units, then the remaining distance in days + ns from a to other
                let rest = other_ns - a_ns; // signed
                let days = rest / NS_PER_DAY;
                let ns = rest % NS_PER_DAY;
                let mut f = [0f64; 10];
                let idx = match c.unit {
                    U::Year => 0,
                    U::Month => 1,
                    _ => 2,
                };
                f[idx] = (sign * r1) as f64;
                f[3] = days as f64;
                // split ns into hours.. to keep every field exactly representable
                let (h, rem) = (ns / 3_600_000_000_000, ns % 3_600_000_000_000);
                f[4] = h as f64;
                f[9] = rem as f64;
                let d = match duration_from_f64s(&f) {
                    Ok(d) => d,
                    Err(e) => return o.fail("C07/cal-tie/construct", "valid duration", err_str(&e)),
                };
                let prov = TableProvider::utc_only();
                let opts = round_options(Some(u), Some(u), Some(c.inc), Some(mode(c.mode)));
                d.round_with_provider(opts, Some(RelativeTo::PlainDate(plain_date(start).expect("start"))), &prov)
            }
        };
        let mut wf = [0f64; 10];
        let idx = match c.unit {
            U::Year => 0,
            U::Month => 1,
            _ => 2,
        };
        wf[idx] = want as f64;
        match got {
            Ok(g) => {
                let gf = duration_fields(&g);
                let r1s = if since { -sign * r1 } else { sign * r1 } as f64;
                let r2s = if since { -sign * r2 } else { sign * r2 } as f64;
                let mut only = gf;
                only[idx] = 0.0;
                chk!(o, only.iter().all(|v| *v == 0.0), "C07/cal-tie/other-fields-nonzero", format!("{wf:?}"), format!("{gf:?}"));
                chk!(o, gf[idx] == r1s || gf[idx] == r2s, "C07/cal-tie/not-a-neighbour", format!("{r1s} or {r2s}"), format!("{gf:?}"));
                chk!(o, gf[idx] == wf[idx], "C07/cal-tie/wrong-neighbour", format!("{wf:?}"), format!("{gf:?}"));
            }
            Err(e) => {
                // the bubbling / end-point arithmetic may legitimately leave the range only near the limits; the
                // generator stays 10000 years inside, so an error is a failure here
                return o.fail("C07/cal-tie/error", format!("{wf:?}"), err_str(&e));
            }
        }
        o
    }
}

pub fn cal_case() -> BoxedStrategy<CalCase> {
    let route = prop_oneof![
        3 => Just(Route::DateTimeUntil),
        2 => Just(Route::DateTimeSince),
        2 => Just(Route::DateUntil),
        1 => Just(Route::DateSince),
        2 => Just(Route::DurationRound),
    ];
    let unit = prop_oneof![Just(U::Year), Just(U::Month), Just(U::Week)];
    let inc = prop_oneof![4 => 1u32..=12, 1 => prop_oneof![Just(20u32), Just(25), Just(50), Just(100)]];
    let ymd = (prop_oneof![3 => 1900i64..=2100, 1 => -260_000i64..=260_000], 1u8..=12, 1u8..=28);
    let ns = prop_oneof![2 => Just(0i128), 1 => 0..NS_PER_DAY, 1 => Just(NS_PER_DAY - 1)];
    (route, unit, inc, ymd, ns, 0i64..=40, any::<bool>(), prop_oneof![2 => Just(0i8), 1 => Just(-1i8), 1 => Just(1i8)], crate::gen::mode(), (prop::bool::weighted(0.15), 29u8..=31))
        .prop_map(|(route, unit, inc, (y, m, d), ns, k, negative, delta, mode, (end_clamped, late_day))| {
            // keep the far end within ~ +-265000 years
            let k = if unit == U::Year { k.min(4000 / inc as i64) } else { k };
            if end_clamped {
                // month-end start, forward direction, months (or years from a leap day)
                let (unit, m, d) = if unit == U::Year { (U::Year, 2, 29) } else { (U::Month, m, late_day.min(dim(y, m))) };
                let y = if unit == U::Year { y - y.rem_euclid(4) } else { y };
                let d = d.min(dim(y, m));
                let route = if route == Route::DurationRound { Route::DateTimeUntil } else { route };
                return CalCase { route, y, m, d, ns, unit, inc, k, negative: false, delta: 0, mode, end_clamped: true };
            }
            CalCase { route, y, m, d, ns, unit, inc, k, negative, delta, mode, end_clamped: false }
        })
        .boxed()
}
