//! C17 - with / from_partial use only supplied fields; constrain clamps, reject errors.
//!
//! Sub-checks
//!  * `merge`    differential against a reference merge (supplied field, else the receiver's / the type
//!               default; month vs monthCode agreement; constrain clamps, reject errors; required fields;
//!               supported range) for PlainDate / PlainTime / PlainDateTime / PlainYearMonth `with` and
//!               `from_partial` and `ZonedDateTime::from_partial_with_provider` (UTC / fixed zones), plus the
//!               model-free law "a field that was not supplied is unchanged unless clamping forces it".
//!  * `ctor`     `new` / `try_new` / `new_with_overflow` of the four plain types against RegulateISODate /
//!               RegulateTime + range check.
//!  * `identity` `v.with(any non-empty subset of v's own fields) == v` (model-free).
//!  * `compose`  `v.with(p1).with(p2) == v.with(p1 merged p2)` when no clamping occurs, i.e. when the chain
//!               succeeds under `reject` (model-free).
//!
//! ISO calendar only (non-ISO merges belong to C16).

use crate::chk;
use crate::conv::*;
use crate::gen;
use crate::refm::civil::*;
use crate::refm::fmt;
use crate::refm::tz::Zone;
use crate::run::*;
use crate::tzp::TableProvider;
use proptest::prelude::*;
use serde::{Deserialize, Serialize};
use serde_json::Value;
use std::str::FromStr;
use temporal_rs::error::ErrorKind;
use temporal_rs::options::ArithmeticOverflow;
use temporal_rs::partial::{PartialDate, PartialDateTime, PartialTime, PartialZonedDateTime};
use temporal_rs::{
    MonthCode, PlainDate, PlainDateTime, PlainTime, PlainYearMonth, TemporalError, TimeZone, TinyAsciiStr, UtcOffset,
    ZonedDateTime,
};

// ------------------------------------------------------------------------------------------
// case data

#[derive(Serialize, Deserialize, Debug, Clone, Copy, PartialEq, Eq)]
pub enum Ty {
    Date,
    Time,
    DateTime,
    YearMonth,
    Zoned,
}
#[derive(Serialize, Deserialize, Debug, Clone, Copy, PartialEq, Eq)]
pub enum Op {
    With,
    From,
}
#[derive(Serialize, Deserialize, Debug, Clone, Copy, PartialEq, Eq)]
pub enum Ov {
    Absent,
    Constrain,
    Reject,
}
impl Ov {
    fn opt(self) -> Option<ArithmeticOverflow> {
        match self {
            Ov::Absent => None,
            Ov::Constrain => Some(ArithmeticOverflow::Constrain),
            Ov::Reject => Some(ArithmeticOverflow::Reject),
        }
    }
    fn bare(self) -> ArithmeticOverflow {
        self.opt().unwrap_or(ArithmeticOverflow::Constrain)
    }
    fn reject(self) -> bool {
        self == Ov::Reject
    }
}

/// partial date record; `month_code` / `era` are the strings handed to `MonthCode::from_str` /
/// `TinyAsciiStr::try_from_utf8` (only strings those constructors accept are generated)
#[derive(Serialize, Deserialize, Debug, Clone, Default, PartialEq)]
pub struct PD {
    pub year: Option<i32>,
    pub month: Option<u8>,
    pub month_code: Option<String>,
    pub day: Option<u8>,
    pub era: Option<String>,
    pub era_year: Option<i32>,
}
#[derive(Serialize, Deserialize, Debug, Clone, Copy, Default, PartialEq)]
pub struct PT {
    pub hour: Option<u8>,
    pub minute: Option<u8>,
    pub second: Option<u8>,
    pub millisecond: Option<u16>,
    pub microsecond: Option<u16>,
    pub nanosecond: Option<u16>,
}
impl PD {
    fn has_era(&self) -> bool {
        self.era.is_some() || self.era_year.is_some()
    }
    fn is_empty(&self) -> bool {
        *self == PD::default()
    }
    fn build(&self) -> PartialDate {
        PartialDate::new()
            .with_year(self.year)
            .with_month(self.month)
            .with_month_code(self.month_code.as_ref().map(|s| MonthCode::from_str(s).expect("generated month codes are constructible")))
            .with_day(self.day)
            .with_era(self.era.as_ref().map(|s| TinyAsciiStr::<19>::try_from_utf8(s.as_bytes()).expect("generated eras fit 19 ascii bytes")))
            .with_era_year(self.era_year)
    }
}
impl PT {
    fn arr(&self) -> [Option<u16>; 6] {
        [
            self.hour.map(u16::from),
            self.minute.map(u16::from),
            self.second.map(u16::from),
            self.millisecond,
            self.microsecond,
            self.nanosecond,
        ]
    }
    fn is_empty(&self) -> bool {
        *self == PT::default()
    }
    fn build(&self) -> PartialTime {
        PartialTime::new()
            .with_hour(self.hour)
            .with_minute(self.minute)
            .with_second(self.second)
            .with_millisecond(self.millisecond)
            .with_microsecond(self.microsecond)
            .with_nanosecond(self.nanosecond)
    }
}

const TMAX: [u16; 6] = [23, 59, 59, 999, 999, 999];

#[derive(Serialize, Deserialize, Debug, Clone, Copy, PartialEq, Eq)]
pub enum ZoneSel {
    /// `TimeZone::IanaIdentifier("UTC")` served by the harness provider
    UtcNamed,
    /// `TimeZone::UtcOffset`, minutes
    Offset(i16),
    /// a named zone with one fixed offset (minutes) served by `tzp::TableProvider`
    Table(i16),
}
impl ZoneSel {
    fn minutes(self) -> i64 {
        match self {
            ZoneSel::UtcNamed => 0,
            ZoneSel::Offset(m) | ZoneSel::Table(m) => m as i64,
        }
    }
    fn tz(self) -> TimeZone {
        match self {
            ZoneSel::UtcNamed => TimeZone::IanaIdentifier("UTC".into()),
            ZoneSel::Offset(m) => TimeZone::try_from_identifier_str(&fmt::offset_minutes(m as i64)).expect("offset zone"),
            ZoneSel::Table(_) => TimeZone::IanaIdentifier("Test/Fixed".into()),
        }
    }
    fn provider(self) -> TableProvider {
        match self {
            ZoneSel::Table(m) => TableProvider::new(vec![Zone::fixed("Test/Fixed", m as i64 * 60)]),
            _ => TableProvider::utc_only(),
        }
    }
}

/// the observable fields of a result (fields a type does not have are 0)
#[derive(Debug, Clone, Copy, PartialEq, Eq, Default)]
struct Fields {
    y: i64,
    m: u8,
    d: u8,
    t: [u16; 6],
    epoch: Option<i128>,
}

fn f_date(p: &PlainDate) -> Fields {
    Fields { y: p.iso_year() as i64, m: p.iso_month(), d: p.iso_day(), ..Default::default() }
}
fn t_arr(h: u8, mi: u8, s: u8, ms: u16, us: u16, ns: u16) -> [u16; 6] {
    [h as u16, mi as u16, s as u16, ms, us, ns]
}
fn f_time(p: &PlainTime) -> Fields {
    Fields { t: t_arr(p.hour(), p.minute(), p.second(), p.millisecond(), p.microsecond(), p.nanosecond()), ..Default::default() }
}
fn f_dt(p: &PlainDateTime) -> Fields {
    Fields {
        y: p.iso_year() as i64,
        m: p.iso_month(),
        d: p.iso_day(),
        t: t_arr(p.hour(), p.minute(), p.second(), p.millisecond(), p.microsecond(), p.nanosecond()),
        epoch: None,
    }
}
fn f_ym(p: &PlainYearMonth) -> Fields {
    Fields { y: p.iso_year() as i64, m: p.iso_month(), ..Default::default() }
}
fn f_zdt(p: &ZonedDateTime) -> Fields {
    Fields { epoch: Some(p.epoch_nanoseconds().as_i128()), ..Default::default() }
}

fn t_of_ns(ns: i128) -> [u16; 6] {
    let (h, mi, s, ms, us, n) = split_ns(ns);
    t_arr(h, mi, s, ms, us, n)
}
fn ns_of_t(t: &[u16; 6]) -> i128 {
    ((t[0] as i128 * 60 + t[1] as i128) * 60 + t[2] as i128) * 1_000_000_000 + t[3] as i128 * 1_000_000 + t[4] as i128 * 1_000 + t[5] as i128
}

/// receivers built through the validating constructors from (day number, ns of day)
fn recv_date(day: i64) -> PlainDate {
    let (y, m, d) = from_days(day);
    PlainDate::try_new(y as i32, m, d, iso()).expect("receiver date")
}
fn recv_time(ns: i128) -> PlainTime {
    plain_time(ns).expect("receiver time")
}
fn recv_dt(day: i64, ns: i128) -> PlainDateTime {
    let (y, m, d) = from_days(day);
    let t = split_ns(ns);
    PlainDateTime::try_new(y as i32, m, d, t.0, t.1, t.2, t.3, t.4, t.5, iso()).expect("receiver date-time")
}
/// the receiver's hidden reference day is the generated day (it must not influence `with`)
fn recv_ym(day: i64) -> PlainYearMonth {
    let (y, m, d) = from_days(day);
    PlainYearMonth::new_with_overflow(y as i32, m, Some(d), iso(), ArithmeticOverflow::Reject).expect("receiver year-month")
}

// ------------------------------------------------------------------------------------------
// reference merge

/// which error kinds the model admits
#[derive(Debug, Clone, Copy, PartialEq, Eq)]
struct ErrSet {
    ty: bool,
    range: bool,
}
impl ErrSet {
    fn admits(&self, k: ErrorKind) -> bool {
        (self.ty && k == ErrorKind::Type) || (self.range && k == ErrorKind::Range)
    }
    fn name(&self) -> &'static str {
        match (self.ty, self.range) {
            (true, true) => "TypeError or RangeError",
            (true, false) => "TypeError",
            (false, true) => "RangeError",
            _ => "error",
        }
    }
}

/// ISO month code: `M01`..`M12`, nothing else
fn iso_month_code(s: &str) -> Option<u8> {
    let b = s.as_bytes();
    if b.len() != 3 || b[0] != b'M' || !b[1].is_ascii_digit() || !b[2].is_ascii_digit() {
        return None;
    }
    let n = (b[1] - b'0') * 10 + (b[2] - b'0');
    (1..=12).contains(&n).then_some(n)
}

struct ModelIn<'a> {
    ty: Ty,
    op: Op,
    /// receiver (y, m, d) and time; for `from` the type defaults (no date; time 0)
    recv_ymd: Option<(i64, u8, u8)>,
    recv_t: [u16; 6],
    pd: &'a PD,
    pt: &'a PT,
    reject: bool,
    offset_s: i64,
}

struct ModelOut {
    res: Result<Fields, ErrSet>,
    /// some field of the merged record had to be clamped (constrain) to give the result
    clamped: bool,
    /// a supplied value is outside its field's range
    supplied_out_of_range: bool,
}

/// `Mnn` or `MnnL` with two digits, not `M00` (the MonthCode grammar; `M13`, `M99`, `M05L` are well formed)
fn month_code_well_formed(c: &str) -> bool {
    let b = c.as_bytes();
    (b.len() == 3 || (b.len() == 4 && b[3] == b'L')) && b[0] == b'M' && b[1].is_ascii_digit() && b[2].is_ascii_digit() && !(b.len() == 3 && &b[1..3] == b"00")
}

/// Reference merge. Era fields are not ISO calendar fields and are not looked at (cases that supply them
/// are executed but not judged, see `run`).
fn model(i: &ModelIn) -> ModelOut {
    let has_date = i.ty != Ty::Time;
    let has_time = matches!(i.ty, Ty::Time | Ty::DateTime | Ty::Zoned);
    let day_is_field = has_date && i.ty != Ty::YearMonth;
    let pd = i.pd;
    let pta = i.pt.arr();
    let date_any = has_date && (pd.year.is_some() || pd.month.is_some() || pd.month_code.is_some() || (day_is_field && pd.day.is_some()));
    let time_any = has_time && pta.iter().any(|x| x.is_some());

    // --- TypeError conditions
    let type_err = match i.op {
        Op::With => !(date_any || time_any),
        Op::From => {
            let date_missing = has_date && (pd.year.is_none() || (pd.month.is_none() && pd.month_code.is_none()) || (day_is_field && pd.day.is_none()));
            date_missing || (i.ty == Ty::Time && !time_any)
        }
    };

    // --- static range suspicion of the supplied values (used for the kind when a TypeError condition holds too)
    let mc_num = pd.month_code.as_deref().map(iso_month_code);
    let mut suspicious = false;
    let mut supplied_oor = false;
    if has_date {
        if let Some(m) = pd.month {
            if !(1..=12).contains(&m) {
                suspicious = true;
                supplied_oor = true;
            }
        }
        if let Some(c) = mc_num {
            match c {
                None => {
                    suspicious = true;
                    supplied_oor = true;
                }
                Some(n) => {
                    if pd.month.is_some() && pd.month != Some(n) {
                        suspicious = true;
                    }
                }
            }
        }
        if let Some(d) = pd.day {
            if !(1..=28).contains(&d) {
                suspicious = true;
            }
            if !(1..=31).contains(&d) {
                supplied_oor = true;
            }
        }
        if let Some(y) = pd.year {
            if !(-271820..=275759).contains(&y) {
                suspicious = true;
            }
            if !(-271821..=275760).contains(&y) {
                supplied_oor = true;
            }
        }
    }
    if has_time {
        for k in 0..6 {
            if let Some(v) = pta[k] {
                if v > TMAX[k] {
                    suspicious = true;
                    supplied_oor = true;
                }
            }
        }
    }
    if type_err {
        // Which kind wins when a value problem coexists with a missing field: Temporal reads the record field by
        // field in alphabetical order (PrepareCalendarFields: day, month, monthCode, year); a missing required
        // field is a TypeError at its position, a value that cannot even be converted (day 0, month 0, a month code
        // that is not of the form Mnn / MnnL) is a RangeError at its position; every other value problem (month 13,
        // day 31 in a short month, month vs monthCode, M13, year beyond the limits) is only looked at after the
        // whole record has been read. A missing month / monthCode is noticed after the record has been read as
        // well. So the TypeError is certain unless a conversion-level problem sits before the missing field.
        let conversion_problem = (day_is_field && pd.day == Some(0)) || pd.month == Some(0) || pd.month_code.as_deref().is_some_and(|c| !month_code_well_formed(c));
        let day_missing = i.op == Op::From && day_is_field && pd.day.is_none();
        let either = conversion_problem && !day_missing && suspicious;
        return ModelOut { res: Err(ErrSet { ty: true, range: either }), clamped: false, supplied_out_of_range: supplied_oor };
    }

    let range = |oor: bool| ModelOut { res: Err(ErrSet { ty: false, range: true }), clamped: false, supplied_out_of_range: oor };
    let mut clamped = false;
    let mut out = Fields::default();

    // --- date part
    if has_date {
        let (ry, rm, rd) = i.recv_ymd.unwrap_or((0, 0, 0)); // `from`: every needed field is supplied (checked above)
        let y: i64 = pd.year.map(i64::from).unwrap_or(ry);
        // month: a supplied month or monthCode replaces the receiver's month *and* month code
        let m: u8 = match (pd.month, mc_num) {
            (_, Some(None)) => return range(supplied_oor), // not an ISO month code
            (Some(m), Some(Some(n))) => {
                if m != n {
                    return range(supplied_oor); // month contradicts monthCode (before any clamping)
                }
                n
            }
            (None, Some(Some(n))) => n,
            (Some(m), None) => {
                if (1..=12).contains(&m) {
                    m
                } else if i.reject {
                    return range(supplied_oor);
                } else {
                    clamped = true;
                    m.clamp(1, 12)
                }
            }
            (None, None) => rm,
        };
        let d_raw: u8 = if day_is_field { pd.day.unwrap_or(rd) } else { 1 };
        let dmax = dim(y, m);
        if day_is_field && pd.day.is_some() && !(1..=dmax).contains(&d_raw) {
            supplied_oor = true;
        }
        let d = if (1..=dmax).contains(&d_raw) {
            d_raw
        } else if i.reject {
            return range(supplied_oor);
        } else {
            clamped = true;
            d_raw.clamp(1, dmax)
        };
        out.y = y;
        out.m = m;
        out.d = d;
    }
    // --- time part
    if has_time {
        for k in 0..6 {
            let v = pta[k].unwrap_or(i.recv_t[k]);
            out.t[k] = if v <= TMAX[k] {
                v
            } else if i.reject {
                return range(supplied_oor);
            } else {
                clamped = true;
                TMAX[k]
            };
        }
    }
    // --- supported range
    let in_range = match i.ty {
        Ty::Time => true,
        Ty::Date => date_in_range(to_days(out.y, out.m, out.d)),
        Ty::DateTime => datetime_in_range(to_days(out.y, out.m, out.d), ns_of_t(&out.t)),
        Ty::YearMonth => ym_in_range(out.y, out.m),
        Ty::Zoned => {
            let wall = to_days(out.y, out.m, out.d) as i128 * NS_PER_DAY + ns_of_t(&out.t);
            let e = wall - i.offset_s as i128 * 1_000_000_000;
            out.epoch = Some(e);
            instant_in_range(e)
        }
    };
    if !in_range {
        return range(supplied_oor);
    }
    // projection on what the type shows
    match i.ty {
        Ty::YearMonth => out.d = 0,
        Ty::Zoned => out = Fields { epoch: out.epoch, ..Default::default() },
        _ => {}
    }
    ModelOut { res: Ok(out), clamped, supplied_out_of_range: supplied_oor }
}

// ------------------------------------------------------------------------------------------
// merge sub-check

#[derive(Serialize, Deserialize, Debug, Clone)]
pub struct MergeCase {
    pub ty: Ty,
    pub op: Op,
    pub recv_day: i64,
    pub recv_ns: i128,
    pub pd: PD,
    pub pt: PT,
    pub ov: Ov,
    pub zone: ZoneSel,
    pub offset_given: bool,
    /// minutes added to the zone's offset in the supplied `offset` field (0 = the matching offset); with the default
    /// offset option (reject) a record whose offset contradicts its time zone is a RangeError
    #[serde(default)]
    pub offset_delta: i16,
}
pub struct MergeSub;

fn label(ty: Ty, op: Op) -> &'static str {
    match (ty, op) {
        (Ty::Date, Op::With) => "date.with",
        (Ty::Date, Op::From) => "date.from_partial",
        (Ty::Time, Op::With) => "time.with",
        (Ty::Time, Op::From) => "time.from_partial",
        (Ty::DateTime, Op::With) => "datetime.with",
        (Ty::DateTime, Op::From) => "datetime.from_partial",
        (Ty::YearMonth, Op::With) => "yearmonth.with",
        (Ty::YearMonth, Op::From) => "yearmonth.from_partial",
        (Ty::Zoned, _) => "zoned.from_partial",
    }
}

fn show(r: &Result<Fields, TemporalError>) -> String {
    match r {
        Ok(f) => format!("{f:?}"),
        Err(e) => err_str(e),
    }
}

/// `with`: every third receiver is updated from a record whose own `calendar` member names another calendar than the
/// receiver's (the Rust record always has one; default ISO). The calendar is not a supplied field: the fields are
/// resolved in the receiver's calendar and the result is the same.
fn foreign_record_calendar(c: &MergeCase) -> bool {
    c.op == Op::With && matches!(c.ty, Ty::Date | Ty::DateTime | Ty::YearMonth) && (c.recv_day as i128 + c.recv_ns).rem_euclid(3) == 0
}
fn build_for_with(c: &MergeCase) -> PartialDate {
    let pd = c.pd.build();
    if foreign_record_calendar(c) {
        let names = ["persian", "hebrew", "gregory", "chinese", "roc"];
        pd.with_calendar(temporal_rs::Calendar::from_str(names[(c.recv_day.rem_euclid(5)) as usize]).expect("calendar"))
    } else {
        pd
    }
}

/// executes the operation under test; a panic becomes `Err(Err(location))`
fn execute(c: &MergeCase) -> Result<Result<Fields, TemporalError>, String> {
    guard(|| match (c.ty, c.op) {
        (Ty::Date, Op::With) => recv_date(c.recv_day).with(build_for_with(c), c.ov.opt()).map(|r| f_date(&r)),
        (Ty::Date, Op::From) => PlainDate::from_partial(c.pd.build(), c.ov.opt()).map(|r| f_date(&r)),
        (Ty::Time, Op::With) => recv_time(c.recv_ns).with(c.pt.build(), c.ov.opt()).map(|r| f_time(&r)),
        (Ty::Time, Op::From) => PlainTime::from_partial(c.pt.build(), c.ov.opt()).map(|r| f_time(&r)),
        (Ty::DateTime, Op::With) => recv_dt(c.recv_day, c.recv_ns)
            .with(PartialDateTime::new().with_partial_date(build_for_with(c)).with_partial_time(c.pt.build()), c.ov.opt())
            .map(|r| f_dt(&r)),
        (Ty::DateTime, Op::From) => {
            PlainDateTime::from_partial(PartialDateTime::new().with_partial_date(c.pd.build()).with_partial_time(c.pt.build()), c.ov.opt()).map(|r| f_dt(&r))
        }
        (Ty::YearMonth, Op::With) => recv_ym(c.recv_day).with(build_for_with(c), c.ov.opt()).map(|r| f_ym(&r)),
        (Ty::YearMonth, Op::From) => PlainYearMonth::from_partial(c.pd.build(), c.ov.bare()).map(|r| f_ym(&r)),
        (Ty::Zoned, _) => {
            let offset = c.offset_given.then(|| UtcOffset::from_str(&fmt::offset_minutes((c.zone.minutes() + c.offset_delta as i64).clamp(-1439, 1439))).expect("offset string"));
            let p = PartialZonedDateTime::new().with_date(c.pd.build()).with_time(c.pt.build()).with_offset(offset).with_timezone(Some(c.zone.tz()));
            ZonedDateTime::from_partial_with_provider(p, c.ov.opt(), None, None, &c.zone.provider()).map(|r| f_zdt(&r))
        }
    })
}

impl SubCheck for MergeSub {
    type Case = MergeCase;
    fn name(&self) -> &'static str {
        "merge"
    }
    fn eval(&self, c: &MergeCase) -> Outcome {
        let lab = label(c.ty, c.op);
        let has_date = c.ty != Ty::Time;
        let has_time = matches!(c.ty, Ty::Time | Ty::DateTime | Ty::Zoned);
        // fields the type does not have are not part of the case
        let pd = if has_date { c.pd.clone() } else { PD::default() };
        let pt = if has_time { c.pt } else { PT::default() };
        let (ry, rm, rd) = from_days(c.recv_day);
        let mi = ModelIn {
            ty: c.ty,
            op: c.op,
            recv_ymd: (c.op == Op::With).then_some((ry, rm, rd)),
            recv_t: if c.op == Op::With { t_of_ns(c.recv_ns) } else { [0; 6] },
            pd: &pd,
            pt: &pt,
            reject: c.ov.reject(),
            offset_s: c.zone.minutes() * 60,
        };
        let mut mo = model(&mi);
        let contradicting = c.ty == Ty::Zoned && c.offset_given && (c.zone.minutes() + c.offset_delta as i64).clamp(-1439, 1439) != c.zone.minutes();
        if contradicting && mo.res.is_ok() {
            mo.res = Err(ErrSet { ty: false, range: true });
        }
        let c2 = MergeCase { pd: pd.clone(), pt, ..c.clone() };

        // --- classes and the non-triviality rule
        let foreign_cal = foreign_record_calendar(c);
        let n_fields = if has_date { if c.ty == Ty::YearMonth { 3 } else { 4 } } else { 0 } + if has_time { 6 } else { 0 };
        let n_supplied = [pd.year.is_some(), pd.month.is_some(), pd.month_code.is_some(), pd.day.is_some() && c.ty != Ty::YearMonth].iter().filter(|b| **b).count()
            + pt.arr().iter().filter(|x| x.is_some()).count();
        let both_months = pd.month.is_some() && pd.month_code.is_some();
        let mut o = Outcome::pass().class(lab);
        if foreign_cal {
            o = o.class("with:record-names-another-calendar");
        }
        o = o.nontrivial((n_supplied >= 1 && n_supplied < n_fields) || mo.supplied_out_of_range || both_months);
        o = o.class(match c.ov {
            Ov::Absent => "overflow-absent",
            Ov::Constrain => "constrain",
            Ov::Reject => "reject",
        });
        if both_months {
            o = o.class("month+monthCode");
        }
        if mo.supplied_out_of_range {
            o = o.class("supplied-out-of-range");
        }
        if mo.clamped {
            o = o.class("expect-clamped");
        }
        if n_supplied == 0 && !pd.has_era() {
            o = o.class("empty-record");
        }
        if pd.year.map_or(false, |y| !(-271821..=275760).contains(&y)) {
            o = o.class("year-beyond-range");
        }
        o = o.class(match &mo.res {
            Ok(_) => "expect-ok",
            Err(ErrSet { ty: true, range: false }) => "expect-TypeError",
            Err(ErrSet { ty: false, .. }) => "expect-RangeError",
            Err(_) => "expect-Type-or-RangeError",
        });

        // --- run
        let got = match execute(&c2) {
            Ok(r) => r,
            Err(p) => return o.class("panic").fail(panic_signature(lab, &p), "no panic", p),
        };

        // --- unjudged classes
        if pd.has_era() {
            // ISO 8601 has no eras: Temporal never reads era / eraYear for this calendar (they would be
            // ignored), while the crate gives the ISO calendar an era named "default" and otherwise reports
            // Type/RangeErrors. Executed (panics count), not compared.
            o.unjudged = true;
            return o.class("unjudged:era-on-iso").class(match &got {
                Ok(_) => "era-on-iso:ok",
                Err(e) if e.kind() == ErrorKind::Type => "era-on-iso:TypeError",
                Err(e) if e.kind() == ErrorKind::Range => "era-on-iso:RangeError",
                Err(_) => "era-on-iso:other-error",
            });
        }
        if c.ty == Ty::YearMonth && pd.day.is_some() {
            let only_day = pd.year.is_none() && pd.month.is_none() && pd.month_code.is_none();
            if c.op == Op::With && only_day {
                // Temporal: `day` is not a year-month field, the record counts as empty (TypeError); the
                // record handed to the crate is not empty. Doubtful -> not compared.
                o.unjudged = true;
                return o.class("unjudged:yearmonth.with-day-only");
            }
            if c.op == Op::From && c.ov.reject() {
                // Temporal ignores `day` here; the crate regulates it as the reference day (as its
                // constructor does). Doubtful when the day is invalid for the month -> not compared.
                if let (Some(y), Ok(m)) = (pd.year, month_for_day_check(&pd)) {
                    if !(1..=dim(y as i64, m)).contains(&pd.day.unwrap()) {
                        o.unjudged = true;
                        return o.class("unjudged:yearmonth.from_partial-invalid-day-under-reject");
                    }
                }
            }
        }

        // --- compare with the reference merge
        match (&mo.res, &got) {
            (Ok(w), Ok(g)) => {
                if g != w {
                    return o.fail(format!("C17/{lab}/mismatch"), format!("{w:?}"), format!("{g:?}"));
                }
            }
            (Err(es), Err(e)) => {
                if !es.admits(e.kind()) {
                    let sig = known_error_signature(&c2, &mo, e).unwrap_or_else(|| format!("C17/{lab}/error-kind"));
                    return o.fail(sig, es.name(), err_str(e));
                }
            }
            (Ok(w), Err(e)) => {
                let sig = known_error_signature(&c2, &mo, e).unwrap_or_else(|| format!("C17/{lab}/unexpected-error"));
                return o.fail(sig, format!("{w:?}"), err_str(e));
            }
            (Err(es), Ok(g)) => {
                let sig = known_accept_signature(&c2, g).unwrap_or_else(|| format!("C17/{lab}/accepted"));
                return o.fail(sig, es.name(), format!("{g:?}"));
            }
        }

        // --- model-free: a field that was not supplied is unchanged unless clamping forces it
        if c.op == Op::With {
            if let Ok(g) = &got {
                let sig = format!("C17/{lab}/unsupplied-field-changed");
                if has_date {
                    if pd.year.is_none() {
                        chk!(o, g.y == ry, sig.clone(), ("year", ry), g);
                    }
                    if pd.month.is_none() && pd.month_code.is_none() {
                        chk!(o, g.m == rm, sig.clone(), ("month", rm), g);
                    }
                    if c.ty != Ty::YearMonth && pd.day.is_none() {
                        let forced = g.d < rd && g.d == dim(g.y, g.m) && !c.ov.reject();
                        chk!(o, g.d == rd || forced, sig.clone(), ("day", rd), g);
                    }
                }
                if has_time {
                    let rt = t_of_ns(c.recv_ns);
                    let pta = pt.arr();
                    for k in 0..6 {
                        if pta[k].is_none() {
                            chk!(o, g.t[k] == rt[k], sig.clone(), ("time field", k, rt[k]), g);
                        }
                    }
                }
            }
        }
        let _ = show;
        o
    }
}

fn month_for_day_check(pd: &PD) -> Result<u8, ()> {
    match (pd.month, pd.month_code.as_deref().map(iso_month_code)) {
        (_, Some(None)) => Err(()),
        (Some(m), Some(Some(n))) if m != n => Err(()),
        (_, Some(Some(n))) => Ok(n),
        (Some(m), None) if (1..=12).contains(&m) => Ok(m),
        _ => Err(()),
    }
}

/// Defect model D1 (date.rs `impl_with_fallback_method!`): `with` derives a month code from a supplied
/// `month` *before* the overflow option is applied, so a month outside 1..=12 under constrain is a
/// RangeError (13 -> "M13" is not an ISO month code; 0 and 14..=255 have no month code) instead of
/// being clamped. Matches only: with, month supplied without monthCode, month outside 1..=12, constrain,
/// the reference merge expects a value, and the error is the RangeError this defect produces.
fn known_error_signature(c: &MergeCase, mo: &ModelOut, e: &TemporalError) -> Option<String> {
    // Defect model D4 (zoneddatetime.rs from_partial_with_provider): a record without time fields is
    // treated as "start of day", which asserts that no offset was given. Matches only: zoned, offset
    // supplied, no time field supplied, the reference merge expects a value, the error is the assertion.
    if c.ty == Ty::Zoned && c.offset_given && c.pt.is_empty() && mo.res.is_ok() && e.kind() == ErrorKind::Assert {
        return Some("C17/zoned.from_partial/offset-without-time-fields/assertion-error".to_string());
    }
    if c.op != Op::With || !matches!(c.ty, Ty::Date | Ty::DateTime | Ty::YearMonth) || c.ov.reject() || mo.res.is_err() {
        return None;
    }
    let m = c.pd.month?;
    if c.pd.month_code.is_some() || (1..=12).contains(&m) || e.kind() != ErrorKind::Range {
        return None;
    }
    let predicted = if m == 13 { "MonthCode was not valid for the current calendar." } else { "Month not in a valid range." };
    (e.message() == predicted).then(|| "C17/with/month-only-out-of-range-under-constrain/RangeError-instead-of-clamp".to_string())
}
/// Defect model D2 (year_month.rs `PlainYearMonth::with`): no emptiness check, an empty record returns
/// the receiver. Matches only: a record with no field at all and a result equal to the receiver.
fn known_accept_signature(c: &MergeCase, g: &Fields) -> Option<String> {
    let (ry, rm, _) = from_days(c.recv_day);
    (c.ty == Ty::YearMonth && c.op == Op::With && c.pd.is_empty() && g.y == ry && g.m == rm).then(|| SIG_YM_EMPTY.to_string())
}
const SIG_YM_EMPTY: &str = "C17/yearmonth.with/empty-record-accepted-as-identity";

/// signature of a panic inside the code under test (no panic is a listed finding: the overflow of the
/// 32-bit date kernels for years far outside the supported range, found by this check, is fixed in /repo)
fn panic_signature(lab: &str, p: &str) -> String {
    let loc = p.split(": ").next().unwrap_or("panic@?").to_string();
    format!("C17/{lab}/{loc}")
}

// ------------------------------------------------------------------------------------------
// constructors

#[derive(Serialize, Deserialize, Debug, Clone, Copy, PartialEq, Eq)]
pub enum Ctor {
    New,
    TryNew,
    WithOverflow(bool), // true = reject
}
#[derive(Serialize, Deserialize, Debug, Clone)]
pub struct CtorCase {
    pub ty: Ty,
    pub ctor: Ctor,
    pub year: i32,
    pub month: u8,
    pub day: u8,
    /// PlainYearMonth: the reference day argument
    pub ref_day: Option<u8>,
    pub hms: [u8; 3],
    pub sub: [u16; 3],
}
pub struct CtorSub;

fn ctor_label(ty: Ty) -> &'static str {
    match ty {
        Ty::Date => "date.ctor",
        Ty::Time => "time.ctor",
        Ty::DateTime => "datetime.ctor",
        Ty::YearMonth => "yearmonth.ctor",
        Ty::Zoned => "zoned.ctor",
    }
}

impl SubCheck for CtorSub {
    type Case = CtorCase;
    fn name(&self) -> &'static str {
        "ctor"
    }
    fn eval(&self, c: &CtorCase) -> Outcome {
        let lab = ctor_label(c.ty);
        let reject = match c.ctor {
            Ctor::New => false,
            Ctor::TryNew => true,
            Ctor::WithOverflow(r) => r,
        };
        // every field is supplied: the reference merge of a complete record
        let pd = PD {
            year: Some(c.year),
            month: Some(c.month),
            month_code: None,
            day: Some(if c.ty == Ty::YearMonth { c.ref_day.unwrap_or(1) } else { c.day }),
            era: None,
            era_year: None,
        };
        let pt = PT {
            hour: Some(c.hms[0]),
            minute: Some(c.hms[1]),
            second: Some(c.hms[2]),
            millisecond: Some(c.sub[0]),
            microsecond: Some(c.sub[1]),
            nanosecond: Some(c.sub[2]),
        };
        let mo = if c.ty == Ty::YearMonth {
            // the year-month constructor regulates its reference day like a date's day (Temporal: the
            // constructor throws for an invalid reference day); the range is that of a year-month
            ctor_ym_model(c.year as i64, c.month, c.ref_day.unwrap_or(1), reject)
        } else {
            model(&ModelIn { ty: c.ty, op: Op::From, recv_ymd: None, recv_t: [0; 6], pd: &pd, pt: &pt, reject, offset_s: 0 })
        };
        let mut o = Outcome::pass().class(lab).class(if reject { "reject" } else { "constrain" });
        o = o.nontrivial(mo.supplied_out_of_range);
        if mo.supplied_out_of_range {
            o = o.class("supplied-out-of-range");
        }
        if mo.clamped {
            o = o.class("expect-clamped");
        }
        if !(-271821..=275760).contains(&c.year) && c.ty != Ty::Time {
            o = o.class("year-beyond-range");
        }
        o = o.class(if mo.res.is_ok() { "expect-ok" } else { "expect-RangeError" });
        let c = c.clone();
        let got = guard(|| {
            let ov = if reject { ArithmeticOverflow::Reject } else { ArithmeticOverflow::Constrain };
            match c.ty {
                Ty::Date => match c.ctor {
                    Ctor::New => PlainDate::new(c.year, c.month, c.day, iso()),
                    Ctor::TryNew => PlainDate::try_new(c.year, c.month, c.day, iso()),
                    Ctor::WithOverflow(_) => PlainDate::new_with_overflow(c.year, c.month, c.day, iso(), ov),
                }
                .map(|r| f_date(&r)),
                Ty::Time => match c.ctor {
                    Ctor::New => PlainTime::new(c.hms[0], c.hms[1], c.hms[2], c.sub[0], c.sub[1], c.sub[2]),
                    Ctor::TryNew => PlainTime::try_new(c.hms[0], c.hms[1], c.hms[2], c.sub[0], c.sub[1], c.sub[2]),
                    Ctor::WithOverflow(_) => PlainTime::new_with_overflow(c.hms[0], c.hms[1], c.hms[2], c.sub[0], c.sub[1], c.sub[2], ov),
                }
                .map(|r| f_time(&r)),
                Ty::DateTime => match c.ctor {
                    Ctor::New => PlainDateTime::new(c.year, c.month, c.day, c.hms[0], c.hms[1], c.hms[2], c.sub[0], c.sub[1], c.sub[2], iso()),
                    Ctor::TryNew => PlainDateTime::try_new(c.year, c.month, c.day, c.hms[0], c.hms[1], c.hms[2], c.sub[0], c.sub[1], c.sub[2], iso()),
                    Ctor::WithOverflow(_) => {
                        PlainDateTime::new_with_overflow(c.year, c.month, c.day, c.hms[0], c.hms[1], c.hms[2], c.sub[0], c.sub[1], c.sub[2], iso(), ov)
                    }
                }
                .map(|r| f_dt(&r)),
                Ty::YearMonth | Ty::Zoned => PlainYearMonth::new_with_overflow(c.year, c.month, c.ref_day, iso(), ov).map(|r| f_ym(&r)),
            }
        });
        let got = match got {
            Ok(r) => r,
            Err(p) => return o.class("panic").fail(panic_signature(lab, &p), "no panic", p),
        };
        match (&mo.res, &got) {
            (Ok(w), Ok(g)) => {
                chk!(o, g == w, format!("C17/{lab}/mismatch"), w, g);
            }
            (Err(_), Err(e)) => chk!(o, e.kind() == ErrorKind::Range, format!("C17/{lab}/error-kind"), "RangeError", err_str(e)),
            (Ok(w), Err(e)) => o = o.fail(format!("C17/{lab}/unexpected-error"), format!("{w:?}"), err_str(e)),
            (Err(_), Ok(g)) => o = o.fail(format!("C17/{lab}/accepted"), "RangeError", format!("{g:?}")),
        }
        o
    }
}

fn ctor_ym_model(y: i64, m: u8, d: u8, reject: bool) -> ModelOut {
    let month_ok = (1..=12).contains(&m);
    let mm = m.clamp(1, 12);
    let day_ok = (1..=dim(y, mm)).contains(&d);
    let oor = !month_ok || !(1..=31).contains(&d) || (month_ok && !day_ok) || !(-271821..=275760).contains(&y);
    let res = if reject && (!month_ok || !day_ok) {
        Err(ErrSet { ty: false, range: true })
    } else if !ym_in_range(y, mm) {
        Err(ErrSet { ty: false, range: true })
    } else {
        Ok(Fields { y, m: mm, ..Default::default() })
    };
    ModelOut { res, clamped: !month_ok || !day_ok, supplied_out_of_range: oor }
}

// ------------------------------------------------------------------------------------------
// laws (model-free)

/// a value of one of the four plain types, as a receiver
#[derive(Clone, Debug, PartialEq)]
enum Val {
    D(PlainDate),
    T(PlainTime),
    DT(PlainDateTime),
    YM(PlainYearMonth),
}
impl Val {
    fn recv(ty: Ty, day: i64, ns: i128) -> Val {
        match ty {
            Ty::Date => Val::D(recv_date(day)),
            Ty::Time => Val::T(recv_time(ns)),
            Ty::DateTime | Ty::Zoned => Val::DT(recv_dt(day, ns)),
            Ty::YearMonth => Val::YM(recv_ym(day)),
        }
    }
    fn with(&self, pd: &PD, pt: &PT, ov: Ov) -> Result<Val, TemporalError> {
        match self {
            Val::D(v) => v.with(pd.build(), ov.opt()).map(Val::D),
            Val::T(v) => v.with(pt.build(), ov.opt()).map(Val::T),
            Val::DT(v) => v.with(PartialDateTime::new().with_partial_date(pd.build()).with_partial_time(pt.build()), ov.opt()).map(Val::DT),
            Val::YM(v) => v.with(pd.build(), ov.opt()).map(Val::YM),
        }
    }
    fn fields(&self) -> Fields {
        match self {
            Val::D(v) => f_date(v),
            Val::T(v) => f_time(v),
            Val::DT(v) => f_dt(v),
            Val::YM(v) => f_ym(v),
        }
    }
}
fn show_val(r: &Result<Val, TemporalError>) -> String {
    match r {
        Ok(v) => format!("{:?}", v.fields()),
        Err(e) => err_str(e),
    }
}

#[derive(Serialize, Deserialize, Debug, Clone)]
pub struct IdentityCase {
    pub ty: Ty,
    pub recv_day: i64,
    pub recv_ns: i128,
    /// bit 0 year, 1 month, 2 monthCode, 3 day, 4..=9 hour..nanosecond
    pub mask: u16,
    pub ov: Ov,
}
pub struct IdentitySub;

fn law_label(ty: Ty) -> &'static str {
    match ty {
        Ty::Date => "date",
        Ty::Time => "time",
        Ty::DateTime | Ty::Zoned => "datetime",
        Ty::YearMonth => "yearmonth",
    }
}
/// bits of the mask that are fields of the type
fn type_bits(ty: Ty) -> u16 {
    match ty {
        Ty::Date => 0b1111,
        Ty::Time => 0b11_1111_0000,
        Ty::DateTime | Ty::Zoned => 0b11_1111_1111,
        Ty::YearMonth => 0b0111,
    }
}

impl SubCheck for IdentitySub {
    type Case = IdentityCase;
    fn name(&self) -> &'static str {
        "identity"
    }
    fn eval(&self, c: &IdentityCase) -> Outcome {
        let lab = law_label(c.ty);
        let mask = c.mask & type_bits(c.ty);
        let (y, m, d) = from_days(c.recv_day);
        let t = t_of_ns(c.recv_ns);
        let bit = |k: u16| mask & (1 << k) != 0;
        let pd = PD {
            year: bit(0).then_some(y as i32),
            month: bit(1).then_some(m),
            month_code: bit(2).then(|| format!("M{m:02}")),
            day: bit(3).then_some(d),
            era: None,
            era_year: None,
        };
        let pt = PT {
            hour: bit(4).then_some(t[0] as u8),
            minute: bit(5).then_some(t[1] as u8),
            second: bit(6).then_some(t[2] as u8),
            millisecond: bit(7).then_some(t[3]),
            microsecond: bit(8).then_some(t[4]),
            nanosecond: bit(9).then_some(t[5]),
        };
        let v = Val::recv(c.ty, c.recv_day, c.recv_ns);
        let mut o = Outcome::pass().class(match c.ty {
            Ty::Date => "identity:date",
            Ty::Time => "identity:time",
            Ty::DateTime | Ty::Zoned => "identity:datetime",
            Ty::YearMonth => "identity:yearmonth",
        });
        o = o.nontrivial(mask != 0 && (mask != type_bits(c.ty) || (bit(1) && bit(2))));
        if bit(1) && bit(2) {
            o = o.class("month+monthCode");
        }
        let got = match guard(|| v.with(&pd, &pt, c.ov)) {
            Ok(r) => r,
            Err(p) => {
                let loc = p.split(": ").next().unwrap_or("panic@?").to_string();
                return o.class("panic").fail(format!("C17/identity/{lab}/{loc}"), "no panic", p);
            }
        };
        if mask == 0 {
            o = o.class("empty-record");
            match &got {
                Err(e) => chk!(o, e.kind() == ErrorKind::Type, format!("C17/identity/{lab}/empty/error-kind"), "TypeError", err_str(e)),
                Ok(g) => {
                    let sig = if c.ty == Ty::YearMonth && g.fields() == v.fields() { SIG_YM_EMPTY.to_string() } else { format!("C17/identity/{lab}/empty/accepted") };
                    o = o.fail(sig, "TypeError", format!("{:?}", g.fields()));
                }
            }
            return o;
        }
        match &got {
            Ok(g) => chk!(o, g.fields() == v.fields(), format!("C17/identity/{lab}/changed"), v.fields(), g.fields()),
            Err(e) => o = o.fail(format!("C17/identity/{lab}/error"), format!("{:?}", v.fields()), err_str(e)),
        }
        o
    }
}

#[derive(Serialize, Deserialize, Debug, Clone)]
pub struct ComposeCase {
    pub ty: Ty,
    pub recv_day: i64,
    pub recv_ns: i128,
    pub p1: (PD, PT),
    pub p2: (PD, PT),
}
pub struct ComposeSub;

fn merge_partials(p1: &(PD, PT), p2: &(PD, PT)) -> (PD, PT) {
    let (d1, t1) = p1;
    let (d2, t2) = p2;
    let p2_month = d2.month.is_some() || d2.month_code.is_some();
    (
        PD {
            year: d2.year.or(d1.year),
            month: if p2_month { d2.month } else { d1.month },
            month_code: if p2_month { d2.month_code.clone() } else { d1.month_code.clone() },
            day: d2.day.or(d1.day),
            era: None,
            era_year: None,
        },
        PT {
            hour: t2.hour.or(t1.hour),
            minute: t2.minute.or(t1.minute),
            second: t2.second.or(t1.second),
            millisecond: t2.millisecond.or(t1.millisecond),
            microsecond: t2.microsecond.or(t1.microsecond),
            nanosecond: t2.nanosecond.or(t1.nanosecond),
        },
    )
}

/// drop what is not a field of the type (and era fields)
fn project(ty: Ty, p: &(PD, PT)) -> (PD, PT) {
    let mut d = p.0.clone();
    let mut t = p.1;
    d.era = None;
    d.era_year = None;
    match ty {
        Ty::Date => t = PT::default(),
        Ty::Time => d = PD::default(),
        Ty::YearMonth => {
            d.day = None;
            t = PT::default();
        }
        _ => {}
    }
    (d, t)
}

impl SubCheck for ComposeSub {
    type Case = ComposeCase;
    fn name(&self) -> &'static str {
        "compose"
    }
    fn eval(&self, c: &ComposeCase) -> Outcome {
        let lab = law_label(c.ty);
        let p1 = project(c.ty, &c.p1);
        let p2 = project(c.ty, &c.p2);
        let mut o = Outcome::pass().class(match c.ty {
            Ty::Date => "compose:date",
            Ty::Time => "compose:time",
            Ty::DateTime | Ty::Zoned => "compose:datetime",
            Ty::YearMonth => "compose:yearmonth",
        });
        if (p1.0.is_empty() && p1.1.is_empty()) || (p2.0.is_empty() && p2.1.is_empty()) {
            return o.class("compose:empty-step(no claim)");
        }
        let pm = merge_partials(&p1, &p2);
        let v = Val::recv(c.ty, c.recv_day, c.recv_ns);
        let r = guard(|| {
            let a = v.with(&p1.0, &p1.1, Ov::Reject);
            let a = match a {
                Ok(a) => a,
                Err(_) => return None,
            };
            let b = a.with(&p2.0, &p2.1, Ov::Reject);
            let m = v.with(&pm.0, &pm.1, Ov::Reject);
            // the same chain under constrain (only compared when nothing can have been clamped)
            let bc = v.with(&p1.0, &p1.1, Ov::Constrain).and_then(|a| a.with(&p2.0, &p2.1, Ov::Absent));
            let mc = v.with(&pm.0, &pm.1, Ov::Constrain);
            Some((b, m, bc, mc))
        });
        let r = match r {
            Ok(r) => r,
            Err(p) => {
                let loc = p.split(": ").next().unwrap_or("panic@?").to_string();
                return o.class("panic").fail(format!("C17/compose/{lab}/{loc}"), "no panic", p);
            }
        };
        let Some((b, m, bc, mc)) = r else {
            return o.class("compose:first-step-rejected(no claim)");
        };
        let overlap = (p1.0.year.is_some() && p2.0.year.is_some())
            || ((p1.0.month.is_some() || p1.0.month_code.is_some()) && (p2.0.month.is_some() || p2.0.month_code.is_some()))
            || (p1.0.day.is_some() && p2.0.day.is_some())
            || p1.1.arr().iter().zip(p2.1.arr().iter()).any(|(a, b)| a.is_some() && b.is_some());
        o = o.nontrivial(true);
        if overlap {
            o = o.class("compose:overlapping-fields");
        }
        match (&b, &m) {
            (Ok(x), Ok(y)) => {
                o = o.class("compose:chain-ok");
                chk!(o, x.fields() == y.fields(), format!("C17/compose/{lab}/mismatch"), x.fields(), y.fields());
                // nothing was clamped: the constrain chain and the constrain merge give the same value
                match (&bc, &mc) {
                    (Ok(xc), Ok(yc)) => {
                        chk!(o, xc.fields() == x.fields() && yc.fields() == x.fields(), format!("C17/compose/{lab}/constrain-differs-from-reject"), x.fields(), (xc.fields(), yc.fields()));
                    }
                    _ => o = o.fail(format!("C17/compose/{lab}/constrain-rejects-what-reject-accepts"), format!("{:?}", x.fields()), format!("{} / {}", show_val(&bc), show_val(&mc))),
                }
            }
            (Err(x), Err(y)) => {
                o = o.class("compose:second-step-rejected");
                chk!(o, x.kind() == y.kind(), format!("C17/compose/{lab}/error-kinds-differ"), kind_name(x.kind()), kind_name(y.kind()));
            }
            _ => o = o.fail(format!("C17/compose/{lab}/verdicts-differ"), format!("two steps: {}", show_val(&b)), format!("merged: {}", show_val(&m))),
        }
        o
    }
}

// ------------------------------------------------------------------------------------------
// generators

fn year_val() -> BoxedStrategy<i32> {
    prop_oneof![
        6 => -271821i32..=275760,
        4 => 1900i32..=2100,
        2 => proptest::sample::select(vec![0, 1, -1, 4, 100, 400, 1970, 1972, 2000, 2024, 9999, 10000, -271821, -271820, 275760, 275759]),
        2 => proptest::sample::select(vec![-271822, 275761, i32::MIN, i32::MAX, i32::MIN + 1, i32::MAX - 1, 1 << 24, -(1 << 24), 5_000_000, -5_000_000, 65535, 1 << 16]),
        1 => any::<i32>(),
    ]
    .boxed()
}
fn month_val() -> BoxedStrategy<u8> {
    prop_oneof![
        6 => 1u8..=12,
        1 => Just(0u8),
        1 => Just(13u8),
        1 => proptest::sample::select(vec![14u8, 100, 255, 12, 1, 2]),
        1 => any::<u8>(),
    ]
    .boxed()
}
fn day_val() -> BoxedStrategy<u8> {
    prop_oneof![
        4 => 1u8..=28,
        4 => 28u8..=31,
        1 => Just(0u8),
        1 => Just(32u8),
        1 => proptest::sample::select(vec![255u8, 100, 1, 31, 30, 29]),
        1 => any::<u8>(),
    ]
    .boxed()
}
fn month_code_val() -> BoxedStrategy<String> {
    prop_oneof![
        7 => (1u8..=12).prop_map(|m| format!("M{m:02}")),
        2 => proptest::sample::select(vec!["M13", "M00", "M05L", "M12L", "M13L", "M99", "M00L", "M01L"]).prop_map(String::from),
    ]
    .boxed()
}
fn era_val() -> BoxedStrategy<String> {
    proptest::sample::select(vec!["default", "ce", "bce", "gregory", "iso8601", "reiwa"]).prop_map(String::from).boxed()
}
fn small_field(max: u8) -> BoxedStrategy<u8> {
    prop_oneof![
        6 => 0u8..=max,
        1 => Just(max),
        1 => Just(max + 1),
        1 => proptest::sample::select(vec![0u8, 1, 255, 60, 24, 100]),
        1 => any::<u8>(),
    ]
    .boxed()
}
fn sub_field() -> BoxedStrategy<u16> {
    prop_oneof![
        6 => 0u16..=999,
        1 => Just(999u16),
        1 => Just(1000u16),
        1 => proptest::sample::select(vec![0u16, 1, 255, 256, 65535, 1001, 32768]),
        1 => any::<u16>(),
    ]
    .boxed()
}

/// date partial with the four main fields chosen by `mask` (bit 0 year, 1 month, 2 monthCode, 3 day);
/// when month and monthCode are both present they agree half of the time
fn pd_with_mask(mask: BoxedStrategy<u8>, era_weight: f64) -> BoxedStrategy<PD> {
    (
        mask,
        (year_val(), month_val(), month_code_val(), day_val()),
        prop::bool::ANY,
        (prop::bool::weighted(era_weight), prop::bool::weighted(era_weight), era_val(), year_val()),
    )
        .prop_map(|(mask, (y, m, mc, d), agree, (has_era, has_era_year, era, era_year))| {
            let mc = if agree && mask & 0b110 == 0b110 && (1..=12).contains(&m) { format!("M{m:02}") } else { mc };
            PD {
                year: (mask & 1 != 0).then_some(y),
                month: (mask & 2 != 0).then_some(m),
                month_code: (mask & 4 != 0).then_some(mc),
                day: (mask & 8 != 0).then_some(d),
                era: has_era.then_some(era),
                era_year: has_era_year.then_some(era_year),
            }
        })
        .boxed()
}
fn any_mask4() -> BoxedStrategy<u8> {
    (0u8..16).boxed()
}
/// subsets for `from_partial`: half of them contain the required fields
fn from_mask4() -> BoxedStrategy<u8> {
    prop_oneof![
        3 => proptest::sample::select(vec![0b1011u8, 0b1101, 0b1111, 0b0011, 0b0101, 0b0111]),
        2 => 0u8..16,
    ]
    .boxed()
}
fn pt_any() -> BoxedStrategy<PT> {
    (
        prop_oneof![6 => 0u8..64, 1 => Just(0u8), 1 => Just(63u8)],
        (small_field(23), small_field(59), small_field(59)),
        (sub_field(), sub_field(), sub_field()),
    )
        .prop_map(|(mask, (h, mi, s), (ms, us, ns))| PT {
            hour: (mask & 1 != 0).then_some(h),
            minute: (mask & 2 != 0).then_some(mi),
            second: (mask & 4 != 0).then_some(s),
            millisecond: (mask & 8 != 0).then_some(ms),
            microsecond: (mask & 16 != 0).then_some(us),
            nanosecond: (mask & 32 != 0).then_some(ns),
        })
        .boxed()
}
fn ov_any() -> BoxedStrategy<Ov> {
    proptest::sample::select(vec![Ov::Absent, Ov::Constrain, Ov::Reject, Ov::Constrain, Ov::Reject]).boxed()
}
fn zone_any() -> BoxedStrategy<ZoneSel> {
    prop_oneof![
        2 => Just(ZoneSel::UtcNamed),
        3 => (-1439i16..=1439).prop_map(ZoneSel::Offset),
        1 => proptest::sample::select(vec![-1439i16, 1439, 0, 330, -570, 765, -720, 840]).prop_map(ZoneSel::Offset),
        2 => (-1439i16..=1439).prop_map(ZoneSel::Table),
    ]
    .boxed()
}

/// receivers on the first / last representable days whose update lands exactly on, or one unit beyond, a limit of
/// the type (the first day's midnight is outside the date-time limits although the date and the time are each valid)
fn merge_case_at_limits() -> BoxedStrategy<MergeCase> {
    use crate::refm::civil::{from_days, MAX_DAY, MIN_DAY};
    let day = prop_oneof![Just(MIN_DAY), Just(MIN_DAY + 1), Just(MAX_DAY), Just(MAX_DAY - 1)];
    let ns = prop_oneof![Just(1i128), Just(0i128), Just(1_000i128), Just(1_000_000i128), Just(NS_PER_DAY - 1), Just(3_600_000_000_000i128), 0i128..NS_PER_DAY];
    (day, ns, 0u8..6, -1i64..=1, ov_any(), proptest::sample::select(vec![Ty::DateTime, Ty::DateTime, Ty::Date]))
        .prop_map(|(recv_day, recv_ns, shape, dd, ov, ty)| {
            let recv_ns = if recv_day == MIN_DAY && recv_ns == 0 { 1 } else { recv_ns };
            let mut pd = PD::default();
            let mut pt = PT::default();
            // zero the lowest non-zero time field(s) / move the day by one
            match shape {
                0 => pt.nanosecond = Some(0),
                1 => {
                    pt.nanosecond = Some(0);
                    pt.microsecond = Some(0);
                    pt.millisecond = Some(0);
                }
                2 => {
                    pt = PT { hour: Some(0), minute: Some(0), second: Some(0), millisecond: Some(0), microsecond: Some(0), nanosecond: Some(0) };
                }
                3 => {
                    let (_, _, d) = from_days((recv_day + dd).clamp(MIN_DAY - 1, MAX_DAY + 1));
                    pd.day = Some(d);
                }
                4 => {
                    let (_, _, d) = from_days((recv_day + dd).clamp(MIN_DAY - 1, MAX_DAY + 1));
                    pd.day = Some(d);
                    pt = PT { hour: Some(0), minute: Some(0), second: Some(0), millisecond: Some(0), microsecond: Some(0), nanosecond: Some(0) };
                }
                _ => pt = PT { hour: Some(23), minute: Some(59), second: Some(59), millisecond: Some(999), microsecond: Some(999), nanosecond: Some(999) },
            }
            let (recv_ns, pt) = if ty == Ty::Date { (0, PT::default()) } else { (recv_ns, pt) };
            let pd = if ty == Ty::Date && pd.day.is_none() { PD { day: Some(from_days(recv_day + dd).2), ..PD::default() } } else { pd };
            MergeCase { ty, op: Op::With, recv_day, recv_ns, pd, pt, ov, zone: ZoneSel::UtcNamed, offset_given: false, offset_delta: 0 }
        })
        .boxed()
}

pub fn merge_case() -> BoxedStrategy<MergeCase> {
    prop_oneof![19 => merge_case_general(), 1 => merge_case_at_limits()].boxed()
}

fn merge_case_general() -> BoxedStrategy<MergeCase> {
    let ty_op = proptest::sample::select(vec![
        (Ty::Date, Op::With),
        (Ty::Date, Op::With),
        (Ty::Date, Op::From),
        (Ty::Time, Op::With),
        (Ty::Time, Op::From),
        (Ty::DateTime, Op::With),
        (Ty::DateTime, Op::With),
        (Ty::DateTime, Op::From),
        (Ty::YearMonth, Op::With),
        (Ty::YearMonth, Op::From),
        (Ty::Zoned, Op::From),
    ]);
    (ty_op, gen::datetime(), pd_with_mask(any_mask4(), 0.1), pd_with_mask(from_mask4(), 0.1), pt_any(), ov_any(), zone_any(), prop::bool::weighted(0.4), prop_oneof![3 => Just(0i16), 1 => proptest::sample::select(vec![60i16, -60, 1, -1, 30, 300])])
        .prop_map(|((ty, op), (recv_day, recv_ns), pd_with, pd_from, pt, ov, zone, offset_given, offset_delta)| {
            let pd = if op == Op::With { pd_with } else { pd_from };
            // normalise what the case does not use, so that distinct cases are distinct inputs
            let (recv_day, recv_ns) = if op == Op::With { (recv_day, recv_ns) } else { (0, 0) };
            let (zone, offset_given) = if ty == Ty::Zoned { (zone, offset_given) } else { (ZoneSel::UtcNamed, false) };
            let pd = if ty == Ty::Time { PD::default() } else { pd };
            let pt = if matches!(ty, Ty::Date | Ty::YearMonth) { PT::default() } else { pt };
            let (recv_day, recv_ns) = match ty {
                Ty::Time => (0, recv_ns),
                Ty::Date | Ty::YearMonth => (recv_day, 0),
                _ => (recv_day, recv_ns),
            };
            let offset_delta = if ty == Ty::Zoned && offset_given { offset_delta } else { 0 };
            MergeCase { ty, op, recv_day, recv_ns, pd, pt, ov, zone, offset_given, offset_delta }
        })
        .boxed()
}

pub fn ctor_case() -> BoxedStrategy<CtorCase> {
    (
        proptest::sample::select(vec![Ty::Date, Ty::Time, Ty::DateTime, Ty::YearMonth]),
        proptest::sample::select(vec![Ctor::New, Ctor::TryNew, Ctor::WithOverflow(false), Ctor::WithOverflow(true)]),
        (year_val(), month_val(), day_val(), proptest::option::weighted(0.6, day_val())),
        (small_field(23), small_field(59), small_field(59)),
        (sub_field(), sub_field(), sub_field()),
    )
        .prop_map(|(ty, ctor, (year, month, day, ref_day), hms, sub)| {
            let ctor = if ty == Ty::YearMonth {
                match ctor {
                    Ctor::New | Ctor::WithOverflow(false) => Ctor::WithOverflow(false),
                    _ => Ctor::WithOverflow(true),
                }
            } else {
                ctor
            };
            let has_date = ty != Ty::Time;
            let has_time = ty == Ty::Time || ty == Ty::DateTime;
            CtorCase {
                ty,
                ctor,
                year: if has_date { year } else { 0 },
                month: if has_date { month } else { 0 },
                day: if has_date && ty != Ty::YearMonth { day } else { 0 },
                ref_day: if ty == Ty::YearMonth { ref_day } else { None },
                hms: if has_time { [hms.0, hms.1, hms.2] } else { [0; 3] },
                sub: if has_time { [sub.0, sub.1, sub.2] } else { [0; 3] },
            }
        })
        .boxed()
}

pub fn identity_case() -> BoxedStrategy<IdentityCase> {
    (proptest::sample::select(vec![Ty::Date, Ty::Time, Ty::DateTime, Ty::YearMonth]), gen::datetime(), 0u16..1024, ov_any())
        .prop_map(|(ty, (recv_day, recv_ns), mask, ov)| {
            let (recv_day, recv_ns) = match ty {
                Ty::Time => (0, recv_ns),
                Ty::Date | Ty::YearMonth => (recv_day, 0),
                _ => (recv_day, recv_ns),
            };
            IdentityCase { ty, recv_day, recv_ns, mask: mask & type_bits(ty), ov }
        })
        .boxed()
}

/// in-range biased partials for the composition law
fn law_partial() -> BoxedStrategy<(PD, PT)> {
    let pd = (
        prop_oneof![3 => proptest::sample::select(vec![0u8, 1, 2, 4, 8, 8, 2, 4]), 2 => 0u8..16],
        (prop_oneof![3 => 1900i32..=2100, 2 => -271821i32..=275760, 1 => proptest::sample::select(vec![-271821, -271820, 275760, 275759, 0, -1, 2000, 2024])], prop_oneof![9 => 1u8..=12, 1 => month_val()], month_code_val(), prop_oneof![9 => 1u8..=31, 1 => day_val()]),
        prop::bool::weighted(0.8),
    )
        .prop_map(|(mask, (y, m, mc, d), agree)| {
            let mc = if agree && mask & 0b110 == 0b110 && (1..=12).contains(&m) { format!("M{m:02}") } else { mc };
            PD {
                year: (mask & 1 != 0).then_some(y),
                month: (mask & 2 != 0).then_some(m),
                month_code: (mask & 4 != 0).then_some(mc),
                day: (mask & 8 != 0).then_some(d),
                era: None,
                era_year: None,
            }
        });
    let pt = (
        prop_oneof![3 => Just(0u8), 3 => proptest::sample::select(vec![1u8, 2, 4, 8, 16, 32]), 2 => 0u8..64],
        (prop_oneof![9 => 0u8..=23, 1 => small_field(23)], prop_oneof![9 => 0u8..=59, 1 => small_field(59)], prop_oneof![9 => 0u8..=59, 1 => small_field(59)]),
        (prop_oneof![9 => 0u16..=999, 1 => sub_field()], prop_oneof![9 => 0u16..=999, 1 => sub_field()], prop_oneof![9 => 0u16..=999, 1 => sub_field()]),
    )
        .prop_map(|(mask, (h, mi, s), (ms, us, ns))| PT {
            hour: (mask & 1 != 0).then_some(h),
            minute: (mask & 2 != 0).then_some(mi),
            second: (mask & 4 != 0).then_some(s),
            millisecond: (mask & 8 != 0).then_some(ms),
            microsecond: (mask & 16 != 0).then_some(us),
            nanosecond: (mask & 32 != 0).then_some(ns),
        });
    (pd, pt).boxed()
}
pub fn compose_case() -> BoxedStrategy<ComposeCase> {
    (proptest::sample::select(vec![Ty::Date, Ty::Time, Ty::DateTime, Ty::DateTime, Ty::YearMonth]), gen::datetime(), law_partial(), law_partial())
        .prop_map(|(ty, (recv_day, recv_ns), p1, p2)| {
            let (recv_day, recv_ns) = match ty {
                Ty::Time => (0, recv_ns),
                Ty::Date | Ty::YearMonth => (recv_day, 0),
                _ => (recv_day, recv_ns),
            };
            ComposeCase { ty, recv_day, recv_ns, p1: project(ty, &p1), p2: project(ty, &p2) }
        })
        .boxed()
}

// ------------------------------------------------------------------------------------------

pub fn run(ctx: &mut Ctx) {
    ctx.rule = "merge: [one case in twenty: receiver on the first / last two representable days and a record that lands exactly on, or one unit beyond, a limit] generated (type in {PlainDate, PlainTime, PlainDateTime, PlainYearMonth} x {with, from_partial}, ZonedDateTime::from_partial_with_provider with UTC / UtcOffset / fixed table zones and an optional matching offset) x receiver (boundary-biased date-times) x every subset of {year, month, monthCode, day, era, eraYear} and of the six time fields x values over the full u8/u16/i32 ranges biased to {0, 1, max, max+1, 255, 65535, -271821, 275760 +-1, i32::MIN/MAX} x month codes {M01..M12, M13, M00, M99, M05L, M12L, M13L, M00L, M01L} x overflow {absent, constrain, reject}, ISO calendar; oracle: reference merge (supplied field else receiver's / type default; monthCode must be M01..M12; month must equal the month code's number; constrain clamps month to 1..=12, day to 1..=days_in_month(resulting year, resulting month), time fields to their maxima, 0 -> 1 for month and day; reject -> RangeError; missing required field / empty record -> TypeError (when a supplied value cannot even be converted - day 0, month 0 - and sits before the missing field in Temporal's alphabetical reading order, either kind is admitted); result inside the supported range of the type else RangeError), plus the model-free law that a field that was not supplied keeps the receiver's value unless the day had to be clamped to the month end. ctor: new / try_new / new_with_overflow of the four plain types against the same regulation. identity: v.with(any subset of v's own fields, month and/or monthCode) == v, empty subset -> TypeError. compose: v.with(p1).with(p2) == v.with(p1 merged p2) whenever the chain succeeds under reject (so nothing was clamped), verdicts and error kinds agree otherwise, and the same chain under constrain gives the same value. non-trivial = at least one field supplied and at least one absent, or a supplied value out of range, or month and monthCode both present.".into();
    ctx.assumptions.push("ISO calendar only; era / eraYear on the ISO calendar are executed but not judged (Temporal ignores them for iso8601, the crate defines an ISO era named 'default')".into());
    ctx.note("unjudged classes: (1) any record that supplies era or eraYear (ISO calendar); (2) PlainYearMonth::with with only `day` supplied (Temporal: empty record -> TypeError, crate: record not empty); (3) PlainYearMonth::from_partial under reject with a `day` that is invalid for the month (Temporal ignores day, the crate regulates it as reference day).");
    ctx.note("ZonedDateTime::with is 'Not yet implemented' in the crate and is not exercised; the time zone is always supplied (its absence is outside the date/time field merge).");
    let t = ctx.tier;
    ctx.run_prop(&MergeSub, &merge_case, t.pick(1_500_000, 24_000_000));
    ctx.run_prop(&CtorSub, &ctor_case, t.pick(300_000, 3_000_000));
    ctx.run_prop(&IdentitySub, &identity_case, t.pick(200_000, 1_500_000));
    ctx.run_prop(&ComposeSub, &compose_case, t.pick(400_000, 3_000_000));
}

pub fn replay(ctx: &mut Ctx, sub: &str, case: &Value) -> bool {
    match sub {
        "merge" => ctx.replay_case(&MergeSub, case),
        "ctor" => ctx.replay_case(&CtorSub, case),
        "identity" => ctx.replay_case(&IdentitySub, case),
        "compose" => ctx.replay_case(&ComposeSub, case),
        _ => false,
    }
}
