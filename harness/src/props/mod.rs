//! One module per property. `run` executes all sub-checks of a property; `replay` one case.

use crate::run::Ctx;
use serde_json::Value;

pub mod c01;
pub mod c02;
pub mod c03;
pub mod c04;
pub mod c05;
pub mod c06;
pub mod c07;
pub mod c07cal;
pub mod c08;
pub mod c09;
pub mod c10;
pub mod c11;
pub mod c12;
pub mod c13;
pub mod c14;
pub mod c15;
pub mod c16;
pub mod c17;
pub mod c18;
pub mod c19;
pub mod c20;

pub const IDS: [&str; 20] = [
    "C01", "C02", "C03", "C04", "C05", "C06", "C07", "C08", "C09", "C10", "C11", "C12", "C13", "C14", "C15", "C16",
    "C17", "C18", "C19", "C20",
];

pub fn run(ctx: &mut Ctx) {
    match ctx.id {
        "C01" => c01::run(ctx),
        "C02" => c02::run(ctx),
        "C03" => c03::run(ctx),
        "C04" => c04::run(ctx),
        "C05" => c05::run(ctx),
        "C06" => c06::run(ctx),
        "C07" => c07::run(ctx),
        "C08" => c08::run(ctx),
        "C09" => c09::run(ctx),
        "C10" => c10::run(ctx),
        "C11" => c11::run(ctx),
        "C12" => c12::run(ctx),
        "C13" => c13::run(ctx),
        "C14" => c14::run(ctx),
        "C15" => c15::run(ctx),
        "C16" => c16::run(ctx),
        "C17" => c17::run(ctx),
        "C18" => c18::run(ctx),
        "C19" => c19::run(ctx),
        "C20" => c20::run(ctx),
        other => {
            eprintln!("unknown property {other}");
            std::process::exit(2);
        }
    }
}

pub fn replay(ctx: &mut Ctx, sub: &str, case: &Value) -> bool {
    match ctx.id {
        "C01" => c01::replay(ctx, sub, case),
        "C02" => c02::replay(ctx, sub, case),
        "C03" => c03::replay(ctx, sub, case),
        "C04" => c04::replay(ctx, sub, case),
        "C05" => c05::replay(ctx, sub, case),
        "C06" => c06::replay(ctx, sub, case),
        "C07" => c07::replay(ctx, sub, case),
        "C08" => c08::replay(ctx, sub, case),
        "C09" => c09::replay(ctx, sub, case),
        "C10" => c10::replay(ctx, sub, case),
        "C11" => c11::replay(ctx, sub, case),
        "C12" => c12::replay(ctx, sub, case),
        "C13" => c13::replay(ctx, sub, case),
        "C14" => c14::replay(ctx, sub, case),
        "C15" => c15::replay(ctx, sub, case),
        "C16" => c16::replay(ctx, sub, case),
        "C17" => c17::replay(ctx, sub, case),
        "C18" => c18::replay(ctx, sub, case),
        "C19" => c19::replay(ctx, sub, case),
        "C20" => c20::replay(ctx, sub, case),
        _ => false,
    }
}

/// Oracle self-tests (run by setup): closed-form calendar vs odometer, rounding vs brute force.
pub fn selftest() -> i32 {
    let mut code = 0;
    match crate::refm::civil::self_test() {
        Ok(n) => println!("selftest civil: ok ({n} comparisons)"),
        Err(e) => {
            println!("selftest civil: FAILED {e}");
            code = 2;
        }
    }
    match crate::refm::round::self_test() {
        Ok(n) => println!("selftest round: ok ({n} comparisons)"),
        Err(e) => {
            println!("selftest round: FAILED {e}");
            code = 2;
        }
    }
    match crate::refm::exact::self_test() {
        Ok(n) => println!("selftest exact: ok ({n} comparisons)"),
        Err(e) => {
            println!("selftest exact: FAILED {e}");
            code = 2;
        }
    }
    match crate::refm::relround::self_test() {
        Ok(n) => println!("selftest relround (test262 tables ported by the repo): ok ({n} comparisons)"),
        Err(e) => {
            println!("selftest relround: FAILED {e}");
            code = 2;
        }
    }
    match crate::refm::tz::self_test() {
        Ok(n) => println!("selftest tz: ok ({n} comparisons)"),
        Err(e) => {
            println!("selftest tz: FAILED {e}");
            code = 2;
        }
    }
    code
}
