//! One module per property. `run` executes all sub-checks of a property; `replay` one case.

use crate::run::Ctx;
use serde_json::Value;

pub mod c01;

pub const IDS: [&str; 20] = [
    "C01", "C02", "C03", "C04", "C05", "C06", "C07", "C08", "C09", "C10", "C11", "C12", "C13", "C14", "C15", "C16",
    "C17", "C18", "C19", "C20",
];

pub fn run(ctx: &mut Ctx) {
    match ctx.id {
        "C01" => c01::run(ctx),
        other => {
            eprintln!("property {other} has no check yet");
            std::process::exit(2);
        }
    }
}

pub fn replay(ctx: &mut Ctx, sub: &str, case: &Value) -> bool {
    match ctx.id {
        "C01" => c01::replay(ctx, sub, case),
        _ => false,
    }
}

/// Oracle self-tests (run by setup): closed-form calendar vs odometer, rounding vs brute force.
pub fn selftest() -> i32 {
    let mut code = 0;
    match crate::refm::civil::self_test() {
        Ok(n) => println!("selftest civil: ok ({n} comparisons)"),
        Err(e) => {
            println!("selftest civil: FAILED {e}");
            code = 2;
        }
    }
    match crate::refm::round::self_test() {
        Ok(n) => println!("selftest round: ok ({n} comparisons)"),
        Err(e) => {
            println!("selftest round: FAILED {e}");
            code = 2;
        }
    }
    match crate::refm::tz::self_test() {
        Ok(n) => println!("selftest tz: ok ({n} comparisons)"),
        Err(e) => {
            println!("selftest tz: FAILED {e}");
            code = 2;
        }
    }
    code
}
