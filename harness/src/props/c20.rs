//! C20 - the process-wide time-zone provider is thread-safe and survives failed calls.
//!
//! Oracle (metamorphic): the result of a convenience-API call must not depend on history or
//! schedule, i.e. it must equal the result of the same call executed alone through the
//! `_with_provider` core API against a fresh `FsTzdbProvider` (computed in the parent process,
//! which never touches `TZ_PROVIDER` itself).
//!
//! * sub-check `program` (a): N in {2,4,8,16} threads x lists of calls over a small zone palette
//!   (so threads collide on the same cold zones), optional sequential warm-up. The program is
//!   run (1) single-threaded in generated global orders and (2) with real threads released by a
//!   barrier, each run in a fresh child process (the cache is cold once per process).
//! * sub-check `fault` (b): short histories with one or two failing calls (error kinds, injected
//!   panic while holding the lock - same or second thread -, a call that panics inside the
//!   provider, `Display` panicking) at every position, each in a fresh child process.

pub mod calls;
pub mod child;

use crate::run::*;
use calls::*;
use child::*;
use proptest::prelude::*;
use serde::{Deserialize, Serialize};
use serde_json::{json, Value};
use std::collections::BTreeSet;
use std::sync::atomic::{AtomicBool, AtomicU64, Ordering as AO};

// ------------------------------------------------------------------------------------------------
// pools

pub const ZONES: [&str; 52] = [
    "America/New_York",
    "America/Los_Angeles",
    "America/Chicago",
    "America/Denver",
    "America/Sao_Paulo",
    "America/St_Johns",
    "America/Halifax",
    "America/Mexico_City",
    "America/Argentina/Buenos_Aires",
    "America/Anchorage",
    "America/Havana",
    "America/Santiago",
    "Europe/London",
    "Europe/Paris",
    "Europe/Berlin",
    "Europe/Moscow",
    "Europe/Lisbon",
    "Europe/Dublin",
    "Europe/Istanbul",
    "Europe/Kyiv",
    "Asia/Tokyo",
    "Asia/Kolkata",
    "Asia/Kathmandu",
    "Asia/Tehran",
    "Asia/Shanghai",
    "Asia/Seoul",
    "Asia/Dubai",
    "Asia/Jerusalem",
    "Asia/Gaza",
    "Asia/Kabul",
    "Asia/Yangon",
    "Australia/Sydney",
    "Australia/Lord_Howe",
    "Australia/Adelaide",
    "Australia/Perth",
    "Australia/Eucla",
    "Pacific/Auckland",
    "Pacific/Chatham",
    "Pacific/Honolulu",
    "Pacific/Kiritimati",
    "Pacific/Apia",
    "Pacific/Fiji",
    "Africa/Cairo",
    "Africa/Casablanca",
    "Africa/Johannesburg",
    "Africa/Lagos",
    "Atlantic/Azores",
    "Antarctica/Troll",
    "UTC",
    "Etc/GMT+5",
    "US/Pacific",
    "Asia/Calcutta",
];
/// names that make a call fail: unknown, mis-cased, truncated, a directory - and files that exist in the zoneinfo
/// directory but are not time-zone data (the read succeeds, the parse fails)
const BAD_ZONES: [&str; 10] = ["Mars/Olympus_Mons", "No/Such_Zone", "America/New_york", "Europe/Londonx", "America", "Asia/Tokyo_", "tzdata.zi", "leapseconds", "zone.tab", "iso3166.tab"];
const OFFSET_ZONES: [&str; 5] = ["+05:30", "-08:00", "+00:00", "Z", "-03:30"];
const DURS: [&str; 14] = [
    "P1D", "PT1H", "P1M", "P1Y", "PT36H", "P1M15DT12H", "-P1D", "PT90M", "P2W", "PT0S", "P1Y2M3DT4H5M6S", "-P1M", "PT24H", "P40D",
];
/// durations that make the operation fail (out of range / malformed)
const BAD_DURS: [&str; 4] = ["P300000Y", "-P300000Y", "P1", "1D"];

fn zones_on_disk() -> Vec<String> {
    ZONES.iter().filter(|z| std::path::Path::new("/usr/share/zoneinfo").join(z).is_file()).map(|z| z.to_string()).collect()
}
fn is_real_zone(z: &str) -> bool {
    ZONES.contains(&z)
}

// ------------------------------------------------------------------------------------------------
// generators

fn t_modern() -> BoxedStrategy<T> {
    ((-631_152_000i64..2_145_830_400), prop_oneof![Just(0u32), 0u32..1_000_000_000]).prop_map(|(s, n)| T { s, n }).boxed()
}
fn t_any() -> BoxedStrategy<T> {
    crate::gen::boxed_union(vec![
        (12, t_modern()),
        (1, ((-8_640_000_000_000i64..8_640_000_000_000), 0u32..1_000_000_000).prop_map(|(s, n)| T { s, n }).boxed()),
        (1, (0i64..3, prop::bool::ANY).prop_map(|(k, neg)| T { s: if neg { -8_640_000_000_000 + k } else { 8_640_000_000_000 - k }, n: 0 }).boxed()),
    ])
}

/// a zone identifier: mostly from the palette verbatim; sometimes a case/truncation variant of a
/// palette zone (unknown to a case-sensitive tzdb, but a sloppy cache key would serve it), an
/// unknown name or a fixed offset
fn zone_from(palette: &[String], good_only: bool) -> BoxedStrategy<String> {
    let pal = proptest::sample::select(palette.to_vec());
    if good_only {
        return pal.boxed();
    }
    crate::gen::boxed_union(vec![
        (40, pal.clone().boxed()),
        (2, pal.clone().prop_map(|z| variant(&z, 'l')).boxed()),
        (1, pal.clone().prop_map(|z| variant(&z, 'u')).boxed()),
        (1, pal.clone().prop_map(|z| variant(&z, 't')).boxed()),
        (1, pal.prop_map(|z| variant(&z, 'x')).boxed()),
        (2, proptest::sample::select(BAD_ZONES.to_vec()).prop_map(String::from).boxed()),
        (3, proptest::sample::select(OFFSET_ZONES.to_vec()).prop_map(String::from).boxed()),
    ])
}

/// l: lower case, u: upper case, t: cut at the last '/', x: append a letter. A placeholder `#k`
/// (palette slot k, resolved by `subst`) keeps the variant as a suffix `#k~v`.
fn variant(z: &str, kind: char) -> String {
    if z.starts_with('#') {
        return format!("{z}~{kind}");
    }
    match kind {
        'l' => z.to_ascii_lowercase(),
        'u' => z.to_ascii_uppercase(),
        't' => z.rsplit_once('/').map(|x| x.0.to_string()).unwrap_or_else(|| z.to_string()),
        'x' => format!("{z}x"),
        _ => z.to_string(),
    }
}

/// replaces every placeholder `#k` / `#k~v` by (the variant of) palette[k mod len]
fn subst(s: &str, pal: &[String]) -> String {
    let b: Vec<char> = s.chars().collect();
    let mut out = String::with_capacity(s.len() + 16);
    let mut i = 0;
    while i < b.len() {
        if b[i] == '#' && i + 1 < b.len() && b[i + 1].is_ascii_digit() && !pal.is_empty() {
            let z = &pal[(b[i + 1] as usize - '0' as usize) % pal.len()];
            if i + 3 < b.len() && b[i + 2] == '~' {
                out.push_str(&variant(z, b[i + 3]));
                i += 4;
            } else {
                out.push_str(z);
                i += 2;
            }
        } else {
            out.push(b[i]);
            i += 1;
        }
    }
    out
}

fn subst_call(c: &Call, pal: &[String]) -> Call {
    let f = |s: &String| subst(s, pal);
    match c {
        Call::ZdtFromStr { s, dis, off, then } => Call::ZdtFromStr { s: f(s), dis: *dis, off: *off, then: *then },
        Call::ZdtGet { t, zone, acc } => Call::ZdtGet { t: *t, zone: f(zone), acc: *acc },
        Call::ZdtAdd { t, zone, dur, sub, reject } => Call::ZdtAdd { t: *t, zone: f(zone), dur: dur.clone(), sub: *sub, reject: *reject },
        Call::ZdtDiff { t, zone, t2, zone2, largest, since } => Call::ZdtDiff { t: *t, zone: f(zone), t2: *t2, zone2: f(zone2), largest: *largest, since: *since },
        Call::ZdtWithTime { t, zone, sec } => Call::ZdtWithTime { t: *t, zone: f(zone), sec: *sec },
        Call::RelTo { rel } => Call::RelTo { rel: f(rel) },
        Call::DurRound { dur, rel, largest, smallest } => Call::DurRound { dur: dur.clone(), rel: f(rel), largest: *largest, smallest: *smallest },
        Call::DurTotal { dur, rel, unit } => Call::DurTotal { dur: dur.clone(), rel: f(rel), unit: *unit },
        Call::DurCompare { a, b, rel } => Call::DurCompare { a: a.clone(), b: b.clone(), rel: f(rel) },
        Call::InstantStr { t, zone } => Call::InstantStr { t: *t, zone: zone.as_ref().map(f) },
        Call::PdtToZdt { y, mo, d, h, mi, sec, zone, dis } => Call::PdtToZdt { y: *y, mo: *mo, d: *d, h: *h, mi: *mi, sec: *sec, zone: f(zone), dis: *dis },
        Call::Now { which, zone } => Call::Now { which: *which, zone: f(zone) },
        Call::InjectPanic => Call::InjectPanic,
    }
}

/// "YYYY-MM-DDTHH:MM:SS<offset>[zone]<calendar>" plus malformed relatives
fn zoned_string(palette: &[String], good_only: bool) -> BoxedStrategy<String> {
    let offs: Vec<&'static str> = if good_only { vec!["", "", "Z"] } else { vec!["", "", "", "Z", "Z", "+00:00", "-05:00", "+01:00", "+09:00"] };
    let cals: Vec<&'static str> = if good_only { vec![""] } else { vec!["", "", "", "", "[u-ca=iso8601]", "[u-ca=gregory]", "[u-ca=hebrew]"] };
    let well = (
        (1950i32..2038, 1u8..=12, 1u8..=28),
        (0u8..24, 0u8..60, 0u8..60),
        proptest::sample::select(offs),
        zone_from(palette, good_only),
        proptest::sample::select(cals),
    )
        .prop_map(|((y, mo, d), (h, mi, s), off, zone, cal)| format!("{y:04}-{mo:02}-{d:02}T{h:02}:{mi:02}:{s:02}{off}[{zone}]{cal}"));
    if good_only {
        return well.boxed();
    }
    let pal0 = palette[0].clone();
    crate::gen::boxed_union(vec![
        (30, well.boxed()),
        (
            3,
            proptest::sample::select(vec![
                "garbage".to_string(),
                String::new(),
                format!("2020-13-45T99:00[{pal0}]"),
                format!("2020-01-01T00:00[{pal0}"),
                "2020-01-01T00:00".to_string(),
                "2020-02-30".to_string(),
                format!("2020-01-01[{pal0}]"),
                format!("+275760-09-13T00:00:01Z[{pal0}]"),
            ])
            .boxed(),
        ),
    ])
}

fn dur_string(good_only: bool) -> BoxedStrategy<String> {
    let good = proptest::sample::select(DURS.to_vec()).prop_map(String::from);
    if good_only {
        return good.boxed();
    }
    crate::gen::boxed_union(vec![(12, good.boxed()), (1, proptest::sample::select(BAD_DURS.to_vec()).prop_map(String::from).boxed())])
}

fn acc() -> BoxedStrategy<Acc> {
    proptest::sample::select(ACCS.to_vec()).boxed()
}
/// accessors that succeed on a known zone
fn acc_good() -> BoxedStrategy<Acc> {
    proptest::sample::select(ACCS.iter().copied().filter(|a| !matches!(a, Acc::TransitionNext | Acc::TransitionPrev)).collect::<Vec<_>>()).boxed()
}

/// one call over the palette; `good_only`: drawn so that it normally succeeds (history bases)
fn call_strategy(palette: Vec<String>, good_only: bool) -> BoxedStrategy<Call> {
    let p = &palette;
    let t = if good_only { t_modern() } else { t_any() };
    let a = if good_only { acc_good() } else { acc() };
    let unit_opt = |lo: u8, hi: u8| prop_oneof![2 => Just(None), 3 => (lo..=hi).prop_map(Some)];
    crate::gen::boxed_union(vec![
        (6, (t.clone(), zone_from(p, good_only), a.clone()).prop_map(|(t, zone, acc)| Call::ZdtGet { t, zone, acc }).boxed()),
        (
            4,
            (zoned_string(p, good_only), if good_only { Just(0u8).boxed() } else { (0u8..4).boxed() }, if good_only { Just(0u8).boxed() } else { (0u8..4).boxed() }, a)
                .prop_map(|(s, dis, off, then)| Call::ZdtFromStr { s, dis, off, then })
                .boxed(),
        ),
        (
            3,
            (t.clone(), zone_from(p, good_only), dur_string(good_only), prop::bool::ANY, if good_only { Just(false).boxed() } else { prop::bool::ANY.boxed() })
                .prop_map(|(t, zone, dur, sub, reject)| Call::ZdtAdd { t, zone, dur, sub, reject })
                .boxed(),
        ),
        (
            3,
            (t_modern(), zone_from(p, good_only), t_modern(), zone_from(p, good_only), unit_opt(0, 9), prop::bool::ANY)
                .prop_map(|(t, zone, t2, zone2, largest, since)| Call::ZdtDiff { t, zone, t2, zone2, largest, since })
                .boxed(),
        ),
        (1, (t.clone(), zone_from(p, good_only), 0u32..86400).prop_map(|(t, zone, sec)| Call::ZdtWithTime { t, zone, sec }).boxed()),
        (1, zoned_string(p, good_only).prop_map(|rel| Call::RelTo { rel }).boxed()),
        (
            2,
            (dur_string(good_only), zoned_string(p, good_only), unit_opt(0, 4), unit_opt(3, 6))
                .prop_map(|(dur, rel, largest, smallest)| {
                    // keep the options legal unless both are absent (which is an error: a failing call)
                    let (largest, smallest) = match (largest, smallest) {
                        (Some(l), Some(s)) if l > s => (Some(s), Some(s)),
                        x => x,
                    };
                    Call::DurRound { dur, rel, largest, smallest }
                })
                .boxed(),
        ),
        (2, (dur_string(good_only), zoned_string(p, good_only), 0u8..=6).prop_map(|(dur, rel, unit)| Call::DurTotal { dur, rel, unit }).boxed()),
        (1, (dur_string(good_only), dur_string(good_only), zoned_string(p, good_only)).prop_map(|(a, b, rel)| Call::DurCompare { a, b, rel }).boxed()),
        (2, (t, prop_oneof![1 => Just(None), 6 => zone_from(p, good_only).prop_map(Some)]).prop_map(|(t, zone)| Call::InstantStr { t, zone }).boxed()),
        (
            2,
            ((1950i32..2038, 1u8..=12, 1u8..=28), (0u8..24, 0u8..60, 0u8..60), zone_from(p, good_only), if good_only { Just(0u8).boxed() } else { (0u8..4).boxed() })
                .prop_map(|((y, mo, d), (h, mi, sec), zone, dis)| Call::PdtToZdt { y, mo, d, h, mi, sec, zone, dis })
                .boxed(),
        ),
        (2, (0u8..3, zone_from(p, good_only)).prop_map(|(which, zone)| Call::Now { which, zone }).boxed()),
    ])
}

fn palette(pool: Vec<String>, lo: usize, hi: usize) -> BoxedStrategy<Vec<String>> {
    proptest::sample::subsequence(pool, lo..=hi).prop_shuffle().boxed()
}

// ------------------------------------------------------------------------------------------------
// shared evaluation helpers

/// children spawned by this process (evidence)
static CHILDREN: AtomicU64 = AtomicU64::new(0);
/// calls inside programs: total / not executed because they panic when run alone
static PROGRAM_CALLS: AtomicU64 = AtomicU64::new(0);
static PROGRAM_CALLS_NOT_RUN: AtomicU64 = AtomicU64::new(0);
/// a deterministic hang was confirmed: later evaluations are not executed (each would block for
/// two watchdog periods; shrinking would take hours)
static HANG_CONFIRMED: AtomicBool = AtomicBool::new(false);
// shrink budget: evaluations of `program` still allowed after its first failure in this process
thread_local! {
    // per worker lane, so that every lane can shrink its own failure
    static FAIL_SEEN: std::cell::Cell<bool> = const { std::cell::Cell::new(false) };
    static EVALS_AFTER_FAIL: std::cell::Cell<u64> = const { std::cell::Cell::new(0) };
}
static SHRINK_BUDGET: AtomicU64 = AtomicU64::new(u64::MAX);

/// outcome of a worker that could be started
enum Ran {
    Done(JobResult),
    Died(String),
    Timeout,
}

fn spawn(job: &Job) -> Ran {
    CHILDREN.fetch_add(1, AO::Relaxed);
    beat_start(); // the engine watchdog is per case; a case here is several bounded child runs
    match run_in_child(job) {
        ChildOutcome::Infra(why) => {
            println!("INCONCLUSIVE property=C20 cannot run a worker process: {why}");
            remove_job_dir();
            std::process::exit(2);
        }
        ChildOutcome::Done(r) => Ran::Done(r),
        ChildOutcome::Died(w) => Ran::Died(w),
        ChildOutcome::Timeout => Ran::Timeout,
    }
}

fn inconclusive(what: &str) -> ! {
    println!(
        "INCONCLUSIVE property=C20 {what}: a worker process did not finish within {} s and the hang did not reproduce in the single-threaded schedule (liveness is only observable as a bounded wait)",
        timeout_s()
    );
    remove_job_dir();
    std::process::exit(2);
}

struct Mismatch {
    lock: bool,
    at: String,
    expected: String,
    actual: String,
}

/// all positions where actual differs from expected
fn mismatches(tag: &str, exp: &[Vec<String>], act: &[Vec<String>], steps: &[Vec<Step>]) -> Vec<Mismatch> {
    let mut out = vec![];
    for (ti, (e, a)) in exp.iter().zip(act.iter()).enumerate() {
        if e.len() != a.len() {
            out.push(Mismatch { lock: false, at: format!("{tag}[{ti}]"), expected: format!("{} results", e.len()), actual: format!("{} results", a.len()) });
            continue;
        }
        for (ci, (x, y)) in e.iter().zip(a.iter()).enumerate() {
            if steps[ti][ci].skip {
                continue;
            }
            if !same(x, y) {
                out.push(Mismatch { lock: is_lock_error(y), at: format!("{tag}[{ti}][{ci}] {:?}", steps[ti][ci].call), expected: x.clone(), actual: y.clone() });
            }
        }
    }
    if exp.len() != act.len() {
        out.push(Mismatch { lock: false, at: tag.to_string(), expected: format!("{} lists", exp.len()), actual: format!("{} lists", act.len()) });
    }
    out
}

// ------------------------------------------------------------------------------------------------
// (a) programs

#[derive(Serialize, Deserialize, Debug, Clone)]
pub enum Order {
    /// interleaving: at step k the thread picks[k mod len] mod (number of unfinished threads),
    /// counted among the unfinished ones, runs its next call
    Picks(Vec<u8>),
    /// whole threads one after the other, starting with thread r (rotations of "who touches a zone first")
    Rotation(u8),
}

#[derive(Serialize, Deserialize, Debug, Clone)]
pub struct ProgramCase {
    pub warm: Vec<Call>,
    pub threads: Vec<Vec<Call>>,
    pub orders: Vec<Order>,
}

fn global_order(lens: &[usize], o: &Order) -> Vec<u16> {
    let n = lens.len();
    let mut out = vec![];
    match o {
        Order::Rotation(r) => {
            for k in 0..n {
                let t = (k + *r as usize) % n.max(1);
                out.extend(std::iter::repeat(t as u16).take(lens[t]));
            }
        }
        Order::Picks(p) => {
            let mut left: Vec<usize> = lens.to_vec();
            let total: usize = lens.iter().sum();
            for k in 0..total {
                let alive: Vec<usize> = (0..n).filter(|&t| left[t] > 0).collect();
                let pick = if p.is_empty() { 0 } else { p[k % p.len()] as usize };
                let t = alive[pick % alive.len()];
                left[t] -= 1;
                out.push(t as u16);
            }
        }
    }
    out
}

pub struct ProgramSub;

impl SubCheck for ProgramSub {
    type Case = ProgramCase;
    fn name(&self) -> &'static str {
        "program"
    }
    fn eval(&self, c: &ProgramCase) -> Outcome {
        if HANG_CONFIRMED.load(AO::SeqCst) {
            let mut o = Outcome::pass().class("not-run:after-confirmed-hang");
            o.unjudged = true;
            return o;
        }
        let spent = if FAIL_SEEN.with(|f| f.get()) { EVALS_AFTER_FAIL.with(|n| n.replace(n.get() + 1)) } else { 0 };
        if spent >= SHRINK_BUDGET.load(AO::SeqCst) {
            let mut o = Outcome::pass().class("not-run:shrink-budget-exhausted");
            o.unjudged = true;
            return o;
        }
        let mut o = eval_program(c);
        if o.failed() {
            FAIL_SEEN.with(|f| f.set(true));
            o = o.class("FAILED");
        }
        o
    }
}

fn eval_program(c: &ProgramCase) -> Outcome {
    let mut o = Outcome::pass();
    if c.threads.is_empty() || c.threads.len() > 64 {
        return o.class("degenerate:no-threads");
    }
    // ---- the oracle: every call alone against a fresh provider
    let mk = |call: &Call| -> (Step, String) {
        let e = exec_isolated(call);
        // a call that panics when run alone is another property's defect (C03/C13); executing it
        // through a wrapper would poison the lock as a side effect, so it is not executed here
        // (the fault histories do execute such calls, as faults)
        let skip = e.starts_with("Panic(") || matches!(call, Call::InjectPanic);
        (Step { call: call.clone(), thr: false, skip }, e)
    };
    let (warm_steps, warm_exp): (Vec<Step>, Vec<String>) = c.warm.iter().map(mk).unzip();
    let mut steps: Vec<Vec<Step>> = vec![];
    let mut exp: Vec<Vec<String>> = vec![];
    for t in &c.threads {
        let (s, e): (Vec<Step>, Vec<String>) = t.iter().map(mk).unzip();
        steps.push(s);
        exp.push(e);
    }
    PROGRAM_CALLS.fetch_add((steps.iter().map(|t| t.len()).sum::<usize>() + warm_steps.len()) as u64, AO::Relaxed);
    PROGRAM_CALLS_NOT_RUN.fetch_add(steps.iter().flatten().chain(warm_steps.iter()).filter(|s| s.skip).count() as u64, AO::Relaxed);
    // ---- classes and the non-triviality rule
    let n_threads = c.threads.len();
    o = o.class(match n_threads {
        1 => "threads=1",
        2 => "threads=2",
        3..=4 => "threads=3-4",
        5..=8 => "threads=5-8",
        _ => "threads=9-16",
    });
    let warm_zones: BTreeSet<String> = c.warm.iter().flat_map(|x| x.zones()).collect();
    let per_thread: Vec<BTreeSet<String>> = c.threads.iter().map(|t| t.iter().flat_map(|x| x.zones()).filter(|z| is_real_zone(z)).collect()).collect();
    let mut all: BTreeSet<&String> = BTreeSet::new();
    per_thread.iter().for_each(|s| all.extend(s.iter()));
    let shared_cold = all.iter().filter(|z| !warm_zones.contains(**z) && per_thread.iter().filter(|s| s.contains(**z)).count() >= 2).count();
    let shared_warm = all.iter().filter(|z| warm_zones.contains(**z) && per_thread.iter().filter(|s| s.contains(**z)).count() >= 2).count();
    let firsts: Vec<Option<String>> = c.threads.iter().map(|t| t.first().and_then(|x| x.zones().into_iter().find(|z| is_real_zone(z) && !warm_zones.contains(z)))).collect();
    let same_first = firsts.iter().flatten().any(|z| firsts.iter().flatten().filter(|y| *y == z).count() >= 2);
    if shared_cold > 0 {
        o = o.class("cold-zone-shared-by>=2-threads");
    }
    if shared_warm > 0 {
        o = o.class("warm-zone-shared-by>=2-threads");
    }
    if same_first {
        o = o.class("same-cold-zone-is-first-call-of>=2-threads");
    }
    if !c.warm.is_empty() {
        o = o.class("has-warm-up");
    }
    let flat_exp = || exp.iter().flatten().chain(warm_exp.iter());
    if flat_exp().any(|e| err_kind(e).is_some() || e.contains(" -> Err(")) {
        o = o.class("has-failing-call");
    }
    if steps.iter().flatten().chain(warm_steps.iter()).any(|s| s.skip) {
        o = o.class("has-call-not-run(panics-alone)");
    }
    if c.threads.iter().flatten().flat_map(|x| x.zones()).any(|z| !is_real_zone(&z) && tz_of(&z).map(|t| matches!(t, temporal_rs::TimeZone::IanaIdentifier(_))).unwrap_or(false)) {
        o = o.class("has-unknown-or-miscased-zone");
    }
    o = o.nontrivial(n_threads >= 2 && shared_cold > 0);

    let lens: Vec<usize> = c.threads.iter().map(|t| t.len()).collect();
    let mut all_exp = vec![warm_exp.clone()];
    all_exp.extend(exp.iter().cloned());
    let mut all_steps = vec![warm_steps.clone()];
    all_steps.extend(steps.iter().cloned());
    let judge = |o: Outcome, mode: &str, r: &JobResult| -> Outcome {
        let mut act = vec![r.warm.clone()];
        act.extend(r.threads.iter().cloned());
        let mm = mismatches(mode, &all_exp, &act, &all_steps);
        // report a wrong value before a lock error (a lock error may be the consequence of a panic)
        if let Some(m) = mm.iter().find(|m| !m.lock).or(mm.first()) {
            let what = if m.lock { "lock-error" } else { "result-differs" };
            return o.fail(
                format!("C20/program/{mode}/{what}"),
                format!("{} (the call alone, fresh provider)", m.expected),
                format!("{} at {} ({} of {} results differ)", m.actual, m.at, mm.len(), all_exp.iter().map(|v| v.len()).sum::<usize>()),
            );
        }
        o
    };
    // ---- (1) single-threaded replays in generated global orders
    for ord in &c.orders {
        let job = Job { warm: warm_steps.clone(), threads: steps.clone(), order: Some(global_order(&lens, ord)) };
        match spawn(&job) {
            Ran::Done(r) => {
                o = judge(o, "seq", &r);
            }
            Ran::Died(why) => return o.fail("C20/program/seq/child-died", "worker finishes", why),
            Ran::Timeout => match spawn(&job) {
                Ran::Timeout => {
                    HANG_CONFIRMED.store(true, AO::SeqCst);
                    return o.fail(
                        "C20/program/seq/hang-deterministic",
                        "single-threaded schedule finishes",
                        format!("worker killed after {} s, twice in a row, in the same single-threaded schedule {:?}", timeout_s(), ord),
                    );
                }
                _ => inconclusive("single-threaded replay hung once, then finished"),
            },
        }
        if o.failed() {
            return o;
        }
    }
    // ---- (2) real threads
    let job = Job { warm: warm_steps.clone(), threads: steps.clone(), order: None };
    match spawn(&job) {
        Ran::Done(r) => o = judge(o, "conc", &r),
        Ran::Died(why) => return o.fail("C20/program/conc/child-died", "worker finishes", why),
        Ran::Timeout => inconclusive("concurrent program"),
    }
    o
}

/// No `prop_flat_map`: calls are generated over palette *slots* `#0..#5` and resolved against the
/// generated palette in the final `prop_map`, so proptest can shrink every part independently
/// (drop calls, lower the thread count, drop palette zones).
fn program_strategy(pool: Vec<String>, n_orders: usize, total_lo: usize, total_hi: usize) -> BoxedStrategy<ProgramCase> {
    let slots: Vec<String> = (0..6).map(|k| format!("#{k}")).collect();
    let call = call_strategy(slots.clone(), false);
    let first = call_strategy(vec![slots[0].clone()], true);
    let orders = prop::collection::vec(
        prop_oneof![
            2 => prop::collection::vec(any::<u8>(), 4..24).prop_map(Order::Picks),
            1 => (0u8..16).prop_map(Order::Rotation),
        ],
        n_orders..=n_orders,
    );
    (
        (palette(pool, 2, 6), 0usize..4, total_lo..=total_hi),
        prop_oneof![
            3 => Just(vec![]).boxed(),
            3 => prop::collection::vec(call.clone(), 1..6).boxed(),
            // a wide warm-up: one accessor call on each of 66..=100 distinct zones of the database (a process that has
            // met many zones: cache growth, eviction, per-zone state)
            1 => (any::<u16>(), 66usize..=100, t_modern()).prop_map(|(start, n, t)| {
                let names = crate::props::c03::iana_names();
                (0..n).map(|k| Call::ZdtGet { t, zone: names[(start as usize + k * 7) % names.len()].clone(), acc: Acc::OffsetNs }).collect::<Vec<Call>>()
            }).boxed(),
        ],
        prop::collection::vec(prop::collection::vec(call, 1..=100), 16..=16),
        // 0: nothing; 1: all threads start with the same call on a cold zone; 2: same zone, own call
        (0u8..3, first.clone(), prop::collection::vec(first, 16..=16)),
        orders,
    )
        .prop_map(|((pal, nsel, total), warm, lists, (head_mode, head, heads), orders)| {
            let n = [2usize, 4, 8, 16][nsel];
            let per = (total / n).max(1);
            let mut threads: Vec<Vec<Call>> = lists.into_iter().take(n).map(|mut l| {
                l.truncate(per);
                l
            }).collect();
            match head_mode {
                1 => threads.iter_mut().for_each(|t| t.insert(0, head.clone())),
                2 => threads.iter_mut().zip(heads).for_each(|(t, h)| t.insert(0, h)),
                _ => {}
            }
            ProgramCase {
                warm: warm.iter().map(|c| subst_call(c, &pal)).collect(),
                threads: threads.iter().map(|t| t.iter().map(|c| subst_call(c, &pal)).collect()).collect(),
                orders,
            }
        })
        .boxed()
}

// ------------------------------------------------------------------------------------------------
// (b) fault histories

#[derive(Serialize, Deserialize, Debug, Clone)]
pub struct HStep {
    pub call: Call,
    /// run on a second thread (spawned, joined)
    pub thr: bool,
}
#[derive(Serialize, Deserialize, Debug, Clone)]
pub struct HistoryCase {
    pub steps: Vec<HStep>,
}

/// `Api` whose every provider-backed method answers like a wrapper that finds the lock poisoned:
/// predicts, per call, the result under the defect "a panic while the lock is held poisons
/// TZ_PROVIDER" (calls that fail before reaching a wrapper keep their own error).
mod poisoned {
    use super::calls::*;
    use std::cmp::Ordering;
    use temporal_rs::options::*;
    use temporal_rs::primitive::FiniteF64;
    use temporal_rs::provider::TransitionDirection;
    use temporal_rs::*;
    use tinystr::TinyAsciiStr;
    pub struct Poisoned;
    fn e<T>() -> TemporalResult<T> {
        Err(TemporalError::general(LOCK_MSG))
    }
    #[rustfmt::skip]
    impl Api for Poisoned {
        fn from_str(&self, _: &str, _: Disambiguation, _: OffsetDisambiguation) -> TemporalResult<ZonedDateTime> { e() }
        fn year(&self, _: &ZonedDateTime) -> TemporalResult<i32> { e() }
        fn month(&self, _: &ZonedDateTime) -> TemporalResult<u8> { e() }
        fn month_code(&self, _: &ZonedDateTime) -> TemporalResult<MonthCode> { e() }
        fn day(&self, _: &ZonedDateTime) -> TemporalResult<u8> { e() }
        fn hour(&self, _: &ZonedDateTime) -> TemporalResult<u8> { e() }
        fn minute(&self, _: &ZonedDateTime) -> TemporalResult<u8> { e() }
        fn second(&self, _: &ZonedDateTime) -> TemporalResult<u8> { e() }
        fn millisecond(&self, _: &ZonedDateTime) -> TemporalResult<u16> { e() }
        fn offset(&self, _: &ZonedDateTime) -> TemporalResult<String> { e() }
        fn offset_nanoseconds(&self, _: &ZonedDateTime) -> TemporalResult<i64> { e() }
        fn era(&self, _: &ZonedDateTime) -> TemporalResult<Option<TinyAsciiStr<16>>> { e() }
        fn era_year(&self, _: &ZonedDateTime) -> TemporalResult<Option<i32>> { e() }
        fn day_of_week(&self, _: &ZonedDateTime) -> TemporalResult<u16> { e() }
        fn day_of_year(&self, _: &ZonedDateTime) -> TemporalResult<u16> { e() }
        fn week_of_year(&self, _: &ZonedDateTime) -> TemporalResult<Option<u16>> { e() }
        fn year_of_week(&self, _: &ZonedDateTime) -> TemporalResult<Option<i32>> { e() }
        fn days_in_week(&self, _: &ZonedDateTime) -> TemporalResult<u16> { e() }
        fn days_in_month(&self, _: &ZonedDateTime) -> TemporalResult<u16> { e() }
        fn days_in_year(&self, _: &ZonedDateTime) -> TemporalResult<u16> { e() }
        fn months_in_year(&self, _: &ZonedDateTime) -> TemporalResult<u16> { e() }
        fn in_leap_year(&self, _: &ZonedDateTime) -> TemporalResult<bool> { e() }
        fn hours_in_day(&self, _: &ZonedDateTime) -> TemporalResult<u8> { e() }
        fn transition(&self, _: &ZonedDateTime, _: TransitionDirection) -> TemporalResult<Option<ZonedDateTime>> { e() }
        fn start_of_day(&self, _: &ZonedDateTime) -> TemporalResult<ZonedDateTime> { e() }
        fn to_plain_date(&self, _: &ZonedDateTime) -> TemporalResult<PlainDate> { e() }
        fn to_plain_time(&self, _: &ZonedDateTime) -> TemporalResult<PlainTime> { e() }
        fn to_plain_datetime(&self, _: &ZonedDateTime) -> TemporalResult<PlainDateTime> { e() }
        fn ixdtf(&self, _: &ZonedDateTime) -> TemporalResult<String> { e() }
        fn display(&self, _: &ZonedDateTime) -> Result<String, String> { Err(DISPLAY_POISON.into()) }
        fn with_plain_time(&self, _: &ZonedDateTime, _: PlainTime) -> TemporalResult<ZonedDateTime> { e() }
        fn add(&self, _: &ZonedDateTime, _: &Duration, _: Option<ArithmeticOverflow>) -> TemporalResult<ZonedDateTime> { e() }
        fn subtract(&self, _: &ZonedDateTime, _: &Duration, _: Option<ArithmeticOverflow>) -> TemporalResult<ZonedDateTime> { e() }
        fn since(&self, _: &ZonedDateTime, _: &ZonedDateTime, _: DifferenceSettings) -> TemporalResult<Duration> { e() }
        fn until(&self, _: &ZonedDateTime, _: &ZonedDateTime, _: DifferenceSettings) -> TemporalResult<Duration> { e() }
        fn relative_to(&self, _: &str) -> TemporalResult<RelativeTo> { e() }
        fn dur_round(&self, _: &Duration, _: RoundingOptions, _: Option<RelativeTo>) -> TemporalResult<Duration> { e() }
        fn dur_total(&self, _: &Duration, _: Unit, _: Option<RelativeTo>) -> TemporalResult<FiniteF64> { e() }
        fn dur_compare(&self, _: &Duration, _: &Duration, _: Option<RelativeTo>) -> TemporalResult<Ordering> { e() }
        fn instant_str(&self, _: &Instant, _: Option<&TimeZone>) -> TemporalResult<String> { e() }
        fn pdt_to_zdt(&self, _: &PlainDateTime, _: &TimeZone, _: Disambiguation) -> TemporalResult<ZonedDateTime> { e() }
        fn now(&self, _: u8, _: TimeZone) -> TemporalResult<()> { e() }
    }
    pub const DISPLAY_POISON: &str = "<Display panics on the lock error>";
}

/// does `actual` equal what the poisoned-lock defect predicts for this call?
fn matches_poison_prediction(call: &Call, actual: &str) -> bool {
    if let Call::InjectPanic = call {
        return actual == INJECTED;
    }
    let predicted = exec(&poisoned::Poisoned, call);
    if predicted.contains(poisoned::DISPLAY_POISON) {
        // Display: `expect` in src/builtins/compiled/zoneddatetime.rs on the lock error
        let prefix = predicted.split("display!").next().unwrap_or("");
        return actual.starts_with(prefix)
            && actual[prefix.len()..].starts_with("display!panic@")
            && actual[prefix.len()..].split(": ").next().is_some_and(|loc| loc.contains("src/builtins/compiled/zoneddatetime.rs:"))
            && actual.contains("A valid ZonedDateTime string with default options")
            && actual.contains(LOCK_MSG);
    }
    predicted == actual
}

pub struct FaultSub;

impl SubCheck for FaultSub {
    type Case = HistoryCase;
    fn name(&self) -> &'static str {
        "fault"
    }
    fn eval(&self, c: &HistoryCase) -> Outcome {
        let mut o = Outcome::pass();
        if HANG_CONFIRMED.load(AO::SeqCst) {
            o = o.class("not-run:after-confirmed-hang");
            o.unjudged = true;
            return o;
        }
        let exp: Vec<String> = c.steps.iter().map(|s| exec_isolated(&s.call)).collect();
        let steps: Vec<Step> = c.steps.iter().map(|s| Step { call: s.call.clone(), thr: s.thr, skip: false }).collect();
        // ---- classes: which kinds of failing calls, where
        let failing: Vec<usize> = (0..exp.len()).filter(|&i| is_failure(&exp[i]) || exp[i].contains(" -> Err(")).collect();
        let holds_lock_panic: Vec<usize> = (0..exp.len()).filter(|&i| matches!(c.steps[i].call, Call::InjectPanic) || exp[i].starts_with("Panic(")).collect();
        for &i in &failing {
            o = o.class(match (&c.steps[i].call, c.steps[i].thr) {
                (Call::InjectPanic, false) => "fault:injected-panic-holding-lock",
                (Call::InjectPanic, true) => "fault:injected-panic-holding-lock(second-thread)",
                _ if exp[i].starts_with("Panic(") => "fault:call-panics-inside-provider",
                _ if exp[i].contains("display!") => "fault:display-panics",
                _ => match err_kind(&exp[i]).or_else(|| exp[i].split(" -> ").nth(1).and_then(err_kind)) {
                    Some("Range") => "fault:RangeError",
                    Some("Generic") => "fault:GenericError",
                    Some("Syntax") => "fault:SyntaxError",
                    Some("Type") => "fault:TypeError",
                    Some("Assert") => "fault:AssertError",
                    _ => "fault:other",
                },
            });
        }
        o = o.class(match failing.len() {
            0 => "failing-calls=0",
            1 => "failing-calls=1",
            _ => "failing-calls>=2",
        });
        let good_after_fault = failing.first().map(|&f| (f + 1..exp.len()).any(|j| !failing.contains(&j))).unwrap_or(false);
        if good_after_fault {
            o = o.class("success-expected-after-failing-call");
        }
        o = o.nontrivial(good_after_fault);

        // ---- run the history in a fresh process (single thread + optional helper threads)
        let job = Job { warm: vec![], threads: vec![steps.clone()], order: Some(vec![0; steps.len()]) };
        let r = match spawn(&job) {
            Ran::Done(r) => r,
            Ran::Died(why) => return o.fail("C20/fault/child-died", "worker finishes", why),
            Ran::Timeout => match spawn(&job) {
                Ran::Timeout => {
                    HANG_CONFIRMED.store(true, AO::SeqCst);
                    return o.fail("C20/fault/hang-deterministic", "history finishes", format!("worker killed after {} s, twice in a row", timeout_s()));
                }
                _ => inconclusive("fault history hung once, then finished"),
            },
        };
        let act = r.threads.first().cloned().unwrap_or_default();
        let mm = mismatches("history", &[exp.clone()], &[act.clone()], &[steps.clone()]);
        if mm.is_empty() {
            return o;
        }
        // ---- defect model: poisoned lock. Every differing result must (1) come after a step that
        // panicked while holding the lock and (2) be exactly what the poisoned wrappers produce.
        let first_poison = holds_lock_panic.iter().copied().find(|&i| act.get(i).map(|a| a == INJECTED || a.starts_with("Panic(")).unwrap_or(false));
        if act.len() == exp.len() {
            if let Some(p) = first_poison {
                let explained = (0..exp.len()).filter(|&j| !same(&exp[j], &act[j])).all(|j| j > p && matches_poison_prediction(&c.steps[j].call, &act[j]));
                if explained {
                    let origin = if matches!(c.steps[p].call, Call::InjectPanic) { "injected-panic" } else { "provider-panic" };
                    let m = &mm[0];
                    return o.fail(
                        format!("C20/fault/poisoned-after-{origin}: later calls return Err(Generic:{LOCK_MSG})"),
                        format!("{} (the call alone, fresh provider)", m.expected),
                        format!("{} at {} ({} results after the panic at step {} differ, all equal to the poisoned-lock prediction)", m.actual, m.at, mm.len(), p),
                    );
                }
            }
        }
        let m = mm.iter().find(|m| !m.lock).unwrap_or(&mm[0]);
        let what = if m.lock { "lock-error" } else { "result-differs" };
        o.fail(
            format!("C20/fault/{what}"),
            format!("{} (the call alone, fresh provider)", m.expected),
            format!("{} at {} ({} results differ)", m.actual, m.at, mm.len()),
        )
    }
}

/// the failing-call kinds that are enumerated (label, step)
fn fault_kinds(base_zone: &str) -> Vec<(&'static str, HStep)> {
    let t0 = T { s: 1_590_000_000, n: 0 };
    let h = |call: Call| HStep { call, thr: false };
    vec![
        ("unknown-zone-in-string", h(Call::ZdtFromStr { s: "2020-06-01T12:00:00[Mars/Olympus_Mons]".into(), dis: 0, off: 0, then: Acc::Hour })),
        ("unknown-zone-value", h(Call::ZdtGet { t: t0, zone: "No/Such_Zone".into(), acc: Acc::Hour })),
        ("miscased-known-zone", h(Call::ZdtGet { t: t0, zone: base_zone.to_ascii_lowercase(), acc: Acc::Offset })),
        ("truncated-known-zone", h(Call::InstantStr { t: t0, zone: Some(base_zone.rsplit_once('/').map(|x| x.0).unwrap_or("Nowhere").to_string()) })),
        ("out-of-range-result", h(Call::ZdtAdd { t: T { s: 8_640_000_000_000 - 1, n: 0 }, zone: base_zone.into(), dur: "P1D".into(), sub: false, reject: false })),
        ("out-of-range-instant", h(Call::ZdtAdd { t: T { s: 8_640_000_000_000 - 1, n: 0 }, zone: base_zone.into(), dur: "PT36H".into(), sub: false, reject: false })),
        ("out-of-range-duration", h(Call::ZdtAdd { t: t0, zone: base_zone.into(), dur: "P300000Y".into(), sub: false, reject: false })),
        ("malformed-zoned-string", h(Call::ZdtFromStr { s: format!("2020-13-45T99:00[{base_zone}]"), dis: 0, off: 0, then: Acc::Year })),
        ("malformed-relative-to", h(Call::DurRound { dur: "P1D".into(), rel: "not a date".into(), largest: None, smallest: Some(4) })),
        ("offset-mismatch-rejected", h(Call::ZdtFromStr { s: format!("2020-06-01T12:00:00+13:37[{base_zone}]"), dis: 0, off: 0, then: Acc::Hour })),
        ("provider-method-not-implemented", h(Call::ZdtGet { t: t0, zone: base_zone.into(), acc: Acc::TransitionNext })),
        ("display-on-unknown-zone", h(Call::ZdtGet { t: t0, zone: "No/Such_Zone".into(), acc: Acc::Display })),
        ("wall-time-in-24h-gap", h(Call::ZdtFromStr { s: "2011-12-30T12:00:00[Pacific/Apia]".into(), dis: 0, off: 0, then: Acc::Hour })),
        // an identifier that names an existing file of the zoneinfo directory which is not TZif data: the read succeeds,
        // the parse fails
        ("zone-file-that-is-not-tzif", h(Call::ZdtGet { t: t0, zone: "tzdata.zi".into(), acc: Acc::Hour })),
        ("zone-file-that-is-not-tzif-2", h(Call::InstantStr { t: t0, zone: Some("leapseconds".into()) })),
        ("injected-panic", h(Call::InjectPanic)),
        ("injected-panic-second-thread", HStep { call: Call::InjectPanic, thr: true }),
    ]
}

fn build_histories(seed: u64, pool: &[String], sets: usize, pair_sets: usize) -> (Vec<HistoryCase>, Value) {
    let mut out = vec![];
    let mut kinds_doc = serde_json::Map::new();
    for set in 0..sets.max(pair_sets) {
        // three zones per set; bases mix "same zone as before the fault" and "new zone after it"
        let pal: Vec<String> = (0..3).map(|k| pool[(hash64(format!("{seed}|pal|{set}|{k}").as_bytes()) % pool.len() as u64) as usize].clone()).collect();
        let base_zone = pal[0].clone();
        let good = call_strategy(pal.clone(), true);
        let kinds = fault_kinds(&base_zone);
        if set == 0 {
            for (label, st) in &kinds {
                kinds_doc.insert(label.to_string(), json!({"call": st.call, "second_thread": st.thr, "alone": exec_isolated(&st.call)}));
            }
        }
        if set < sets {
            for len in 1..=3usize {
                let base: Vec<Call> = sample_strategy(&good, hash64(format!("{seed}|base|{set}|{len}").as_bytes()), len);
                for (_, k) in &kinds {
                    for pos in 0..=len {
                        // calls after the fault alternate between the main thread and a second thread
                        let mut steps: Vec<HStep> = base.iter().enumerate().map(|(i, c)| HStep { call: c.clone(), thr: i >= pos && (set + len + pos) % 2 == 1 && i % 2 == 0 }).collect();
                        steps.insert(pos, k.clone());
                        out.push(HistoryCase { steps });
                    }
                }
            }
        }
        if set < pair_sets {
            // two failing calls: fault, call, fault, call (every ordered pair of kinds)
            let base: Vec<Call> = sample_strategy(&good, hash64(format!("{seed}|pairbase|{set}").as_bytes()), 2);
            for (_, k1) in &kinds {
                for (_, k2) in &kinds {
                    out.push(HistoryCase {
                        steps: vec![k1.clone(), HStep { call: base[0].clone(), thr: false }, k2.clone(), HStep { call: base[1].clone(), thr: false }],
                    });
                }
            }
        }
    }
    (out, Value::Object(kinds_doc))
}

// ------------------------------------------------------------------------------------------------

pub fn run(ctx: &mut Ctx) {
    child_main_if_requested();
    ctx.level = "fault_enumeration";
    let pool = zones_on_disk();
    if pool.len() < 20 {
        println!("INCONCLUSIVE property=C20 only {} of the {} pool zones exist under /usr/share/zoneinfo", pool.len(), ZONES.len());
        std::process::exit(2);
    }
    ctx.rule = "program (a): palette of 2-6 real IANA zones out of 52; N in {2,4,8,16} threads x calls (a total of 100-200 calls is split over the threads, each thread list has 1-100 generated calls, so 2-thread programs can be shorter; ZonedDateTime from_str/accessors/add/subtract/until/since/with_plain_time/start_of_day/hours_in_day/to_plain_*/to_ixdtf_string/Display, Duration round/total/compare with RelativeTo::try_from_str, Instant::to_ixdtf_string, PlainDateTime::to_zoned_date_time), ~12% of zone references unknown / mis-cased / truncated / fixed-offset, malformed strings and out-of-range values mixed in; optional sequential warm-up; in 2/3 of the programs every thread starts with a call on the same cold zone. Each program runs in fresh child processes: single-threaded in generated global orders (random interleaving picks, rotations), then with one OS thread per list behind a barrier; every result must equal the call alone through *_with_provider against a fresh FsTzdbProvider (errors by kind, values exactly), and no result may be the lock error. non-trivial = >= 2 threads reference the same real zone that the warm-up did not touch. fault (b): histories = 1-3 generated succeeding calls with one failing call of each of 17 kinds inserted at every position (calls after it alternately on a second thread), plus every ordered pair of kinds as fault,call,fault,call; each in a fresh child process; non-trivial = a failing call is followed by a call that succeeds alone.".into();
    ctx.assumptions = vec![
        "oracle = the same call alone: core *_with_provider API against a fresh FsTzdbProvider, computed in the parent process which never uses TZ_PROVIDER".into(),
        "ZonedDateTime::microsecond()/nanosecond() are not used (mis-wired wrappers are C19's subject); Now::plain_datetime_iso / plain_date_iso / plain_time_iso are compared by verdict only (the reading depends on the clock)".into(),
        "calls whose isolated run panics (defects of C03/C13) are not executed inside concurrent programs (they would poison the lock as a side effect); the fault histories execute them as faults".into(),
        format!("liveness is observed as a bounded wait: worker watchdog {} s (TVERIF_C20_TIMEOUT_S); a hang that repeats in the same single-threaded schedule is a violation, any other timeout is exit 2", timeout_s()),
    ];
    ctx.note("defect model KF-C20-poison: a history is excused only if every differing result comes after a step that panicked while the lock was held (injected, or a call whose isolated run panics) and equals exactly what poisoned wrappers produce for that call (computed by running the call against an Api whose every provider-backed method returns the lock error; Display: its expect panic carrying the lock error); any other difference is reported under C20/fault/result-differs or C20/fault/lock-error");
    ctx.note("warm cache is covered by the sequential warm-up inside the same worker process (not by batching several programs per worker): every program and every history has its own process, so cold state is real for each");
    ctx.note("after a failing program each lane evaluates at most SHRINK_BUDGET further programs (quick 300) so that shrinking stays bounded (every evaluation spawns 3-4 processes); after a confirmed deterministic hang nothing further is executed");
    let tier = ctx.tier;
    SHRINK_BUDGET.store(tier.pick(300, 3000), AO::SeqCst);

    // ---- (b) fault histories: enumeration
    let (hist, kinds_doc) = build_histories(ctx.sub_seed("fault", 0), &pool, tier.pick(2, 24) as usize, tier.pick(1, 12) as usize);
    ctx.extra.insert("fault_kinds".into(), kinds_doc);
    ctx.extra.insert("fault_histories".into(), json!(hist.len()));
    ctx.run_enum(&FaultSub, hist.len() as u64, &|i| hist[i as usize].clone(), false);

    // ---- (a) concurrent programs
    let n_orders = tier.pick(2, 3) as usize;
    let pool2 = pool.clone();
    let strat = move || program_strategy(pool2.clone(), n_orders, 100, 200);
    ctx.run_prop(&ProgramSub, &strat, tier.pick(480, 20000));

    ctx.extra.insert("child_processes".into(), json!(CHILDREN.load(AO::Relaxed)));
    ctx.extra.insert("zones_in_pool".into(), json!(pool.len()));
    ctx.extra.insert("program_calls".into(), json!({"total": PROGRAM_CALLS.load(AO::Relaxed), "not_run_because_they_panic_alone": PROGRAM_CALLS_NOT_RUN.load(AO::Relaxed)}));
    remove_job_dir();

    // ---- generator floors (more cases do not fix a starved generator)
    if ctx.violations.is_empty() {
        let need = [
            ("cold-zone-shared-by>=2-threads", 50u64),
            ("same-cold-zone-is-first-call-of>=2-threads", 50),
            ("has-warm-up", 30),
            ("has-failing-call", 50),
            ("success-expected-after-failing-call", 100),
            ("fault:injected-panic-holding-lock", 10),
            ("fault:injected-panic-holding-lock(second-thread)", 10),
            ("fault:RangeError", 10),
            ("fault:GenericError", 10),
        ];
        for (class, floor) in need {
            let n = ctx.stats.classes.get(class).copied().unwrap_or(0);
            if n < floor {
                println!("INCONCLUSIVE property=C20 generator starved: class {class:?} has {n} cases, floor {floor}");
                std::process::exit(2);
            }
        }
    }
}

pub fn replay(ctx: &mut Ctx, sub: &str, case: &Value) -> bool {
    child_main_if_requested();
    let known = match sub {
        "program" => ctx.replay_case(&ProgramSub, case),
        "fault" => ctx.replay_case(&FaultSub, case),
        _ => false,
    };
    remove_job_dir();
    known
}

