//! Option oracle of C10: which (largestUnit, smallestUnit, roundingIncrement, roundingMode)
//! combinations each Temporal operation accepts, and what omitted options resolve to.
//!
//! Written from the Temporal algorithm text (GetDifferenceSettings, Temporal.Duration.prototype.round
//! / total, Temporal.PlainTime/PlainDateTime/Instant.prototype.round, ToSecondsStringPrecisionRecord,
//! ValidateTemporalRoundingIncrement, MaximumTemporalDurationRoundingIncrement) as summarised in
//! DESIGN.md Appendix A. Table driven; no dependency on temporal_rs.

use crate::refm::dur::U;
use crate::refm::round::Mode;
use serde::{Deserialize, Serialize};

/// a unit-valued option as a caller can pass it
#[derive(Clone, Copy, Debug, PartialEq, Eq, Serialize, Deserialize, Hash)]
pub enum UOpt {
    Absent,
    Auto,
    U(U),
}

#[derive(Clone, Copy, Debug, PartialEq, Eq)]
pub enum Group {
    Date,
    Time,
    DateTime,
}
impl Group {
    pub fn contains(self, u: U) -> bool {
        match self {
            Group::Date => u.is_date(),
            Group::Time => u.is_time(),
            Group::DateTime => true,
        }
    }
}

/// one row of the GetDifferenceSettings call table
#[derive(Clone, Copy, Debug)]
pub struct DiffRow {
    pub group: Group,
    pub disallowed: &'static [U],
    pub fallback_smallest: U,
    pub default_largest: U,
}

#[derive(Clone, Copy, Debug, PartialEq, Eq, Serialize, Deserialize, Hash)]
pub enum DiffType {
    PlainDate,
    PlainYearMonth,
    PlainTime,
    Instant,
    PlainDateTime,
    ZonedDateTime,
}

pub fn diff_row(t: DiffType) -> DiffRow {
    match t {
        DiffType::PlainDate => DiffRow { group: Group::Date, disallowed: &[], fallback_smallest: U::Day, default_largest: U::Day },
        DiffType::PlainYearMonth => {
            DiffRow { group: Group::Date, disallowed: &[U::Week, U::Day], fallback_smallest: U::Month, default_largest: U::Year }
        }
        DiffType::PlainTime => DiffRow { group: Group::Time, disallowed: &[], fallback_smallest: U::Nanosecond, default_largest: U::Hour },
        DiffType::Instant => DiffRow { group: Group::Time, disallowed: &[], fallback_smallest: U::Nanosecond, default_largest: U::Second },
        DiffType::PlainDateTime => {
            DiffRow { group: Group::DateTime, disallowed: &[], fallback_smallest: U::Nanosecond, default_largest: U::Day }
        }
        DiffType::ZonedDateTime => {
            DiffRow { group: Group::DateTime, disallowed: &[], fallback_smallest: U::Nanosecond, default_largest: U::Hour }
        }
    }
}

/// ValidateTemporalRoundingIncrement(increment, dividend, inclusive)
pub fn ok_inc(inc: u64, dividend: u64, inclusive: bool) -> bool {
    let maximum = if inclusive { dividend } else { dividend - 1 };
    inc >= 1 && inc <= maximum && dividend % inc == 0
}

/// MaximumTemporalDurationRoundingIncrement
pub fn max_inc(u: U) -> Option<u64> {
    u.max_increment().map(|m| m as u64)
}

/// number of `u` in a 24 h day (Instant.prototype.round validates against these, inclusively)
pub fn per_day(u: U) -> Option<u64> {
    match u {
        U::Hour => Some(24),
        U::Minute => Some(1440),
        U::Second => Some(86_400),
        U::Millisecond => Some(86_400_000),
        U::Microsecond => Some(86_400_000_000),
        U::Nanosecond => Some(86_400_000_000_000),
        _ => None,
    }
}

/// fully resolved options of an accepted cell
#[derive(Clone, Copy, Debug, PartialEq, Eq)]
pub struct Resolved {
    /// None for operations that have no largestUnit
    pub largest: Option<U>,
    pub smallest: U,
    pub inc: u32,
    /// the mode as the *caller* would have to write it to get the same result (for `since` this is
    /// the un-negated mode; the negation is part of the operation)
    pub mode: Mode,
}

#[derive(Clone, Copy, Debug, PartialEq, Eq)]
pub enum Verdict {
    /// the combination is legal; the computation succeeds on the harness operands
    Accept(Resolved),
    /// the combination is legal, but with this increment the computation itself must end in a
    /// RangeError (a date far outside the supported range has to be produced): Err(Range) either way,
    /// the validation verdict is not observable
    AcceptThenRange(Resolved),
    /// RangeError, with the rule that rejects
    Reject(&'static str),
    /// executed and counted, not compared
    Unjudged(&'static str),
}

fn larger(a: U, b: U) -> U {
    a.larger_of(b)
}

/// GetDifferenceSettings. `mode` is what the caller passed.
pub fn diff(t: DiffType, l: UOpt, s: UOpt, inc: Option<u32>, mode: Option<Mode>) -> Verdict {
    let row = diff_row(t);
    // largestUnit: group + auto
    if let UOpt::U(u) = l {
        if !row.group.contains(u) {
            return Verdict::Reject("largestUnit not in the operation's unit group");
        }
        if row.disallowed.contains(&u) {
            return Verdict::Reject("largestUnit is a disallowed unit");
        }
    }
    // smallestUnit: group, auto is not a legal value
    let s_res = match s {
        UOpt::Auto => return Verdict::Reject("smallestUnit auto"),
        UOpt::U(u) => {
            if !row.group.contains(u) {
                return Verdict::Reject("smallestUnit not in the operation's unit group");
            }
            if row.disallowed.contains(&u) {
                return Verdict::Reject("smallestUnit is a disallowed unit");
            }
            u
        }
        UOpt::Absent => row.fallback_smallest,
    };
    let l_res = match l {
        UOpt::U(u) => u,
        _ => larger(row.default_largest, s_res),
    };
    if larger(l_res, s_res) != l_res {
        return Verdict::Reject("largestUnit smaller than smallestUnit");
    }
    let i = inc.unwrap_or(1);
    if let Some(m) = max_inc(s_res) {
        if !ok_inc(i as u64, m, false) {
            return Verdict::Reject("increment not below / not dividing the unit maximum");
        }
    }
    Verdict::Accept(Resolved { largest: Some(l_res), smallest: s_res, inc: i, mode: mode.unwrap_or(Mode::Trunc) })
}

/// Temporal.Duration.prototype.round. `existing_largest` = DefaultTemporalLargestUnit(duration),
/// `calendar_units_present` = years/months/weeks non-zero, `has_relative_to` = a PlainDate relativeTo.
pub fn duration_round(
    l: UOpt,
    s: UOpt,
    inc: Option<u32>,
    mode: Option<Mode>,
    existing_largest: U,
    has_relative_to: bool,
) -> Verdict {
    if l == UOpt::Absent && s == UOpt::Absent {
        return Verdict::Reject("neither largestUnit nor smallestUnit given");
    }
    let s_res = match s {
        UOpt::Auto => return Verdict::Reject("smallestUnit auto"),
        UOpt::U(u) => u,
        UOpt::Absent => U::Nanosecond,
    };
    let l_res = match l {
        UOpt::U(u) => u,
        _ => larger(existing_largest, s_res),
    };
    if larger(l_res, s_res) != l_res {
        return Verdict::Reject("largestUnit smaller than smallestUnit");
    }
    let i = inc.unwrap_or(1);
    if let Some(m) = max_inc(s_res) {
        if !ok_inc(i as u64, m, false) {
            return Verdict::Reject("increment not below / not dividing the unit maximum");
        }
    }
    if !has_relative_to && (existing_largest.is_calendar() || l_res.is_calendar()) {
        // (an invalid option set is a RangeError as well; both routes agree)
        return Verdict::Reject("calendar units without relativeTo");
    }
    if i > 1 && s_res.is_date() && l_res != s_res {
        return Verdict::Unjudged("increment > 1 with a date smallestUnit and largestUnit != smallestUnit: Temporal added a rejection after this crate's snapshot");
    }
    Verdict::Accept(Resolved { largest: Some(l_res), smallest: s_res, inc: i, mode: mode.unwrap_or(Mode::HalfExpand) })
}

/// Temporal.Duration.prototype.total
pub fn duration_total(unit: UOpt, existing_largest: U, has_relative_to: bool) -> Verdict {
    let u = match unit {
        UOpt::Auto => return Verdict::Reject("unit auto"),
        UOpt::Absent => return Verdict::Reject("unit is required"),
        UOpt::U(u) => u,
    };
    if !has_relative_to && (existing_largest.is_calendar() || u.is_calendar()) {
        return Verdict::Reject("calendar units without relativeTo");
    }
    Verdict::Accept(Resolved { largest: None, smallest: u, inc: 1, mode: Mode::Trunc })
}

#[derive(Clone, Copy, Debug, PartialEq, Eq, Serialize, Deserialize, Hash)]
pub enum RoundType {
    PlainTime,
    PlainDateTime,
    Instant,
}

/// Temporal.{PlainTime,PlainDateTime,Instant}.prototype.round; largestUnit is not an option of these
/// operations (whatever the caller puts there is not read).
pub fn round(t: RoundType, s: UOpt, inc: Option<u32>, mode: Option<Mode>) -> Verdict {
    let u = match s {
        UOpt::Absent => return Verdict::Reject("smallestUnit is required"),
        UOpt::Auto => return Verdict::Reject("smallestUnit auto"),
        UOpt::U(u) => u,
    };
    let i = inc.unwrap_or(1) as u64;
    let ok = match t {
        RoundType::PlainTime => {
            if !u.is_time() {
                return Verdict::Reject("smallestUnit not a time unit");
            }
            ok_inc(i, max_inc(u).unwrap(), false)
        }
        RoundType::PlainDateTime => {
            if u == U::Day {
                ok_inc(i, 1, true)
            } else if u.is_time() {
                ok_inc(i, max_inc(u).unwrap(), false)
            } else {
                return Verdict::Reject("smallestUnit not a time unit or day");
            }
        }
        RoundType::Instant => {
            if !u.is_time() {
                return Verdict::Reject("smallestUnit not a time unit");
            }
            ok_inc(i, per_day(u).unwrap(), true)
        }
    };
    if !ok {
        return Verdict::Reject("increment outside / not dividing the maximum");
    }
    Verdict::Accept(Resolved { largest: None, smallest: u, inc: i as u32, mode: mode.unwrap_or(Mode::HalfExpand) })
}

/// fractionalSecondDigits as the Rust API spells it
#[derive(Clone, Copy, Debug, PartialEq, Eq, Serialize, Deserialize, Hash)]
pub enum Prec {
    Auto,
    Minute,
    Digit(u8),
}

/// what a toString call prints the seconds with
#[derive(Clone, Copy, Debug, PartialEq, Eq)]
pub enum PrecRes {
    Auto,
    Minute,
    Digits(u8),
}

/// toString options (smallestUnit, fractionalSecondDigits, roundingMode). `is_duration`: Duration
/// additionally rejects minute. Returns the verdict and the resolved precision.
pub fn to_string(s: UOpt, p: Prec, mode: Option<Mode>, is_duration: bool) -> (Verdict, Option<PrecRes>) {
    let m = mode.unwrap_or(Mode::Trunc);
    match s {
        UOpt::Auto => (Verdict::Reject("smallestUnit auto"), None),
        UOpt::U(u) => {
            let pr = match u {
                U::Minute if !is_duration => PrecRes::Minute,
                U::Second => PrecRes::Digits(0),
                U::Millisecond => PrecRes::Digits(3),
                U::Microsecond => PrecRes::Digits(6),
                U::Nanosecond => PrecRes::Digits(9),
                _ => return (Verdict::Reject("smallestUnit not minute..nanosecond (Duration: second..nanosecond)"), None),
            };
            match p {
                Prec::Auto => {}
                Prec::Digit(d) if d <= 9 => {}
                _ => {
                    return (
                        Verdict::Unjudged("smallestUnit given together with a precision that is not a Temporal fractionalSecondDigits value"),
                        Some(pr),
                    )
                }
            }
            (Verdict::Accept(Resolved { largest: None, smallest: u, inc: 1, mode: m }), Some(pr))
        }
        UOpt::Absent => match p {
            Prec::Auto => (Verdict::Accept(Resolved { largest: None, smallest: U::Nanosecond, inc: 1, mode: m }), Some(PrecRes::Auto)),
            Prec::Digit(d) if d <= 9 => {
                let (u, inc) = match d {
                    0 => (U::Second, 1),
                    1..=3 => (U::Millisecond, 10u32.pow(3 - d as u32)),
                    4..=6 => (U::Microsecond, 10u32.pow(6 - d as u32)),
                    _ => (U::Nanosecond, 10u32.pow(9 - d as u32)),
                };
                (Verdict::Accept(Resolved { largest: None, smallest: u, inc, mode: m }), Some(PrecRes::Digits(d)))
            }
            Prec::Digit(_) => (Verdict::Reject("fractionalSecondDigits outside 0..=9"), None),
            Prec::Minute => (Verdict::Unjudged("Precision::Minute without smallestUnit is not a Temporal option value"), None),
        },
    }
}

/// Self-test on hand-derived examples (spec text / MDN examples), so a slip in the tables is seen.
pub fn self_test() -> Result<u64, String> {
    use UOpt::*;
    let mut n = 0;
    let mut want = |name: &str, v: Verdict, accept: bool| -> Result<(), String> {
        n += 1;
        let got = matches!(v, Verdict::Accept(_));
        if got != accept {
            return Err(format!("options oracle self-test {name}: {v:?}"));
        }
        Ok(())
    };
    want("date default", diff(DiffType::PlainDate, Absent, Absent, None, None), true)?;
    want("date hour", diff(DiffType::PlainDate, U(crate::refm::dur::U::Hour), Absent, None, None), false)?;
    want("date y<m", diff(DiffType::PlainDate, U(crate::refm::dur::U::Month), U(crate::refm::dur::U::Year), None, None), false)?;
    want("date inc 1e9 days", diff(DiffType::PlainDate, Absent, Absent, Some(1_000_000_000), None), true)?;
    want("time auto", diff(DiffType::PlainTime, Auto, Absent, None, None), true)?;
    want("time s=auto", diff(DiffType::PlainTime, Absent, Auto, None, None), false)?;
    want("time hour 24", diff(DiffType::PlainTime, Absent, U(crate::refm::dur::U::Hour), Some(24), None), false)?;
    want("time hour 12", diff(DiffType::PlainTime, Absent, U(crate::refm::dur::U::Hour), Some(12), None), true)?;
    want("time minute 7", diff(DiffType::PlainTime, Absent, U(crate::refm::dur::U::Minute), Some(7), None), false)?;
    want("instant default largest second, smallest hour", diff(DiffType::Instant, Absent, U(crate::refm::dur::U::Hour), None, None), true)?;
    want("instant largest second smallest hour", diff(DiffType::Instant, U(crate::refm::dur::U::Second), U(crate::refm::dur::U::Hour), None, None), false)?;
    want("ym week", diff(DiffType::PlainYearMonth, U(crate::refm::dur::U::Week), Absent, None, None), false)?;
    want("ym month", diff(DiffType::PlainYearMonth, U(crate::refm::dur::U::Month), Absent, None, None), true)?;
    want("dt round day 1", round(RoundType::PlainDateTime, U(crate::refm::dur::U::Day), Some(1), None), true)?;
    want("dt round day 2", round(RoundType::PlainDateTime, U(crate::refm::dur::U::Day), Some(2), None), false)?;
    want("instant round hour 24", round(RoundType::Instant, U(crate::refm::dur::U::Hour), Some(24), None), true)?;
    want("instant round ns 1e9", round(RoundType::Instant, U(crate::refm::dur::U::Nanosecond), Some(1_000_000_000), None), true)?;
    want("instant round us 1e9", round(RoundType::Instant, U(crate::refm::dur::U::Microsecond), Some(1_000_000_000), None), false)?;
    want("time round hour 24", round(RoundType::PlainTime, U(crate::refm::dur::U::Hour), Some(24), None), false)?;
    want("dur round none", duration_round(Absent, Absent, None, None, crate::refm::dur::U::Day, false), false)?;
    want("dur round auto only", duration_round(Auto, Absent, None, None, crate::refm::dur::U::Day, false), true)?;
    want("dur round year no rel", duration_round(U(crate::refm::dur::U::Year), Absent, None, None, crate::refm::dur::U::Day, false), false)?;
    want("dur total auto", duration_total(Auto, crate::refm::dur::U::Day, true), false)?;
    want("tostring hour", to_string(U(crate::refm::dur::U::Hour), Prec::Auto, None, false).0, false)?;
    want("tostring minute", to_string(U(crate::refm::dur::U::Minute), Prec::Auto, None, false).0, true)?;
    want("tostring minute duration", to_string(U(crate::refm::dur::U::Minute), Prec::Auto, None, true).0, false)?;
    want("tostring digits 10", to_string(Absent, Prec::Digit(10), None, false).0, false)?;
    Ok(n)
}
