//! C08 - Duration round/total/compare relative to a PlainDate equal add-then-remeasure.

use crate::chk;
use crate::conv::*;
use crate::gen;
use crate::refm::civil::*;
use crate::refm::dateadd::*;
use crate::refm::dur::*;
use crate::refm::exact::{ratio_to_f64, ulp_distance};
use crate::refm::relround::*;
use crate::refm::round::Mode;
use crate::run::*;
use crate::tzp::TableProvider;
use proptest::prelude::*;
use serde::{Deserialize, Serialize};
use serde_json::Value;
use temporal_rs::error::ErrorKind;
use temporal_rs::options::{RelativeTo, Unit};

#[derive(Serialize, Deserialize, Debug, Clone, Copy, PartialEq, Eq)]
pub enum LargestOpt {
    Absent,
    Auto,
    Unit(U),
}

#[derive(Serialize, Deserialize, Debug, Clone)]
pub struct RoundCase {
    pub r: i64,
    pub d: Dur,
    pub largest: LargestOpt,
    pub smallest: U,
    pub inc: u32,
    pub mode: Mode,
}
pub struct RoundSub;

fn kind_of(e: RErr) -> ErrorKind {
    match e {
        RErr::Range => ErrorKind::Range,
        RErr::Type => ErrorKind::Type,
    }
}

impl SubCheck for RoundSub {
    type Case = RoundCase;
    fn name(&self) -> &'static str {
        "round"
    }
    fn eval(&self, c: &RoundCase) -> Outcome {
        let existing = c.d.largest_unit();
        let largest = match c.largest {
            LargestOpt::Unit(u) => u,
            _ => existing.larger_of(c.smallest),
        };
        let ymd = Ymd::from_n(c.r);
        let want = duration_round(c.r, &c.d, largest, c.inc as i128, c.smallest, c.mode);
        let mut o = Outcome::pass();
        // would bubbling be needed? compare with the un-bubbled nudge: detect by re-running with largest = smallest
        let month_end = ymd.d >= 29;
        let both_md = c.d.f[1] != 0 && c.d.f[3] != 0;
        let neg = c.d.sign() < 0;
        let bubbled = match (&want, duration_round(c.r, &c.d, largest, 1, U::Nanosecond, Mode::Trunc)) {
            (Ok(w), Ok(exact)) => {
                // a unit larger than smallest changed
                (0..c.smallest.idx()).any(|i| w.f[i] != exact.f[i])
            }
            _ => false,
        };
        o = o.nontrivial(bubbled || month_end || both_md || neg);
        if bubbled {
            o = o.class("carries-into-larger-unit");
        }
        if month_end {
            o = o.class("reference-day>=29");
        }
        if both_md {
            o = o.class("months+days");
        }
        if neg {
            o = o.class("negative");
        }
        o = o.class(if c.smallest.is_calendar() { "smallest-calendar-unit" } else if c.smallest == U::Day { "smallest-day" } else { "smallest-time-unit" });
        // Temporal later added a rejection for (increment > 1, date smallest unit, largest != smallest): unjudged
        if c.inc > 1 && c.smallest.is_date() && largest != c.smallest {
            o.unjudged = true;
            o = o.class("unjudged:inc>1-date-unit-largest!=smallest");
        }
        // Pure re-balancing options on an already balanced duration: the specification snapshot the crate follows
        // returns a copy without touching relativeTo (Duration.prototype.round, "roundingGranularityIsNoop ..."
        // shortcut); the current text always adds and re-measures and therefore throws when relativeTo's midnight
        // or the target is outside the limits. Exactly that cell (shortcut conditions hold, oracle = RangeError)
        // is unjudged.
        let f = &c.d.f;
        let shortcut = c.smallest == U::Nanosecond
            && c.inc == 1
            && largest == existing
            && f[0] == 0
            && f[1] == 0
            && f[2] == 0
            && f[4].abs() < 24
            && f[5].abs() < 60
            && f[6].abs() < 60
            && f[7].abs() < 1000
            && f[8].abs() < 1000
            && f[9].abs() < 1000;
        if shortcut && want.is_err() {
            o.unjudged = true;
            o = o.class("unjudged:noop-rounding-with-operand-outside-limits");
        }
        // relativeTo = -271821-04-19: its midnight lies outside the date-time limits. The specification snapshot the
        // crate follows creates that date-time first (RangeError for every duration, zero included), the current
        // text compares the two date-times first (zero duration -> zero). The property text does not decide it.
        if !(Dt { day: c.r, ns: 0 }).in_range() && c.d.sign() == 0 {
            o.unjudged = true;
            o = o.class("unjudged:zero-duration-relative-to-first-day");
        }
        let date = plain_date(ymd).expect("valid date");
        let d = match duration_from_dur(&c.d) {
            Ok(d) => d,
            Err(e) => return o.fail("C08/round/construct", "valid", err_str(&e)),
        };
        let prov = TableProvider::utc_only();
        let lopt = match c.largest {
            LargestOpt::Absent => None,
            LargestOpt::Auto => Some(Unit::Auto),
            LargestOpt::Unit(u) => Some(unit(u)),
        };
        let opts = round_options(lopt, Some(unit(c.smallest)), Some(c.inc), Some(mode(c.mode)));
        let got = d.round_with_provider(opts, Some(RelativeTo::PlainDate(date)), &prov);
        if o.unjudged {
            return o;
        }
        match (want, got) {
            (Ok(w), Ok(g)) => {
                let wf = w.to_f64s();
                let gf = duration_fields(&g);
                if !fields_eq(&gf, &wf) {
                    return o.fail("C08/round/mismatch", format!("{wf:?}"), format!("{gf:?}"));
                }
                // oracle-free invariants
                let s = if neg { -1.0 } else { 1.0 };
                chk!(o, gf.iter().all(|v| *v == 0.0 || v.signum() == s), "C08/round/not-sign-uniform", s, gf);
                chk!(o, (c.smallest.idx() + 1..10).all(|i| gf[i] == 0.0), "C08/round/residue-below-smallest", "zeros", gf);
                if gf[c.smallest.idx()].abs() < 9007199254740992.0 {
                    chk!(o, (gf[c.smallest.idx()] as i128) % (c.inc as i128) == 0, "C08/round/not-a-multiple-of-increment", c.inc, gf);
                }
            }
            (Err(we), Err(e)) => chk!(o, e.kind() == kind_of(we), "C08/round/error-kind", rerr_name(we), err_str(&e)),
            (Ok(w), Err(e)) => o = o.fail("C08/round/unexpected-error", format!("{:?}", w.to_f64s()), err_str(&e)),
            (Err(we), Ok(g)) => o = o.fail("C08/round/accepted", format!("{}Error", rerr_name(we)), format!("{:?}", duration_fields(&g))),
        }
        o
    }
}

#[derive(Serialize, Deserialize, Debug, Clone)]
pub struct TotalCase {
    pub r: i64,
    pub d: Dur,
    pub unit: U,
}
pub struct TotalSub;
impl SubCheck for TotalSub {
    type Case = TotalCase;
    fn name(&self) -> &'static str {
        "total"
    }
    fn eval(&self, c: &TotalCase) -> Outcome {
        let ymd = Ymd::from_n(c.r);
        let want = duration_total(c.r, &c.d, c.unit);
        let mut o = Outcome::pass().nontrivial(c.d.sign() < 0 || ymd.d >= 29 || (c.d.f[1] != 0 && c.d.f[3] != 0) || c.unit.is_calendar());
        o = o.class(if c.unit.is_calendar() { "calendar-unit" } else { "fixed-length-unit" });
        if c.d.sign() < 0 {
            o = o.class("negative");
        }
        if !(Dt { day: c.r, ns: 0 }).in_range() && c.d.sign() == 0 {
            // see RoundSub: the two specification snapshots differ for a zero duration relative to the first day
            o.unjudged = true;
            o = o.class("unjudged:zero-duration-relative-to-first-day");
        }
        let date = plain_date(ymd).expect("valid date");
        let d = match duration_from_dur(&c.d) {
            Ok(d) => d,
            Err(e) => return o.fail("C08/total/construct", "valid", err_str(&e)),
        };
        let prov = TableProvider::utc_only();
        let got = d.total_with_provider(unit(c.unit), Some(RelativeTo::PlainDate(date)), &prov);
        if o.unjudged {
            return o;
        }
        match (want, got) {
            (Ok((n, den)), Ok(g)) => {
                let w = ratio_to_f64(n, den);
                let ulps = ulp_distance(g.as_inner(), w);
                if ulps == 1 {
                    o = o.class("1ulp-off");
                }
                if ulps > 1 {
                    // classify: small float noise vs a wrong answer
                    let rel = ((g.as_inner() - w) / if w == 0.0 { 1.0 } else { w }).abs();
                    let sig = if rel < 1e-13 { "C08/total/float-noise>1ulp" } else { "C08/total/mismatch" };
                    return o.fail(sig, format!("{w:e}"), format!("{:e} ({} ulps)", g.as_inner(), ulps));
                }
            }
            (Err(we), Err(e)) => chk!(o, e.kind() == kind_of(we), "C08/total/error-kind", rerr_name(we), err_str(&e)),
            (Ok((n, den)), Err(e)) => o = o.fail("C08/total/unexpected-error", format!("{:e}", ratio_to_f64(n, den)), err_str(&e)),
            (Err(we), Ok(g)) => o = o.fail("C08/total/accepted", format!("{}Error", rerr_name(we)), format!("{:e}", g.as_inner())),
        }
        o
    }
}

#[derive(Serialize, Deserialize, Debug, Clone)]
pub struct CompareCase {
    pub r: i64,
    pub a: Dur,
    pub b: Dur,
}
pub struct CompareSub;
impl SubCheck for CompareSub {
    type Case = CompareCase;
    fn name(&self) -> &'static str {
        "compare"
    }
    fn eval(&self, c: &CompareCase) -> Outcome {
        let ymd = Ymd::from_n(c.r);
        let want = duration_compare(c.r, &c.a, &c.b);
        let cal = c.a.has_calendar() || c.b.has_calendar();
        let mut o = Outcome::pass().nontrivial(cal);
        if cal {
            o = o.class("calendar-units");
        }
        if let Ok(std::cmp::Ordering::Equal) = want {
            o = o.class("equal");
        }
        let date = plain_date(ymd).expect("valid date");
        let (da, db) = match (duration_from_dur(&c.a), duration_from_dur(&c.b)) {
            (Ok(x), Ok(y)) => (x, y),
            _ => return o.fail("C08/compare/construct", "valid", "Err"),
        };
        let prov = TableProvider::utc_only();
        let got = da.compare_with_provider(&db, Some(RelativeTo::PlainDate(date)), &prov);
        match (want, got) {
            (Ok(w), Ok(g)) => chk!(o, g == w, "C08/compare/mismatch", w, g),
            (Err(we), Err(e)) => chk!(o, e.kind() == kind_of(we), "C08/compare/error-kind", rerr_name(we), err_str(&e)),
            (Ok(w), Err(e)) => {
                // identical durations short-circuit to Equal before any arithmetic: both verdicts are fine
                o = o.fail("C08/compare/unexpected-error", format!("{w:?}"), err_str(&e));
            }
            (Err(we), Ok(g)) => {
                if fields_eq(&c.a.to_f64s(), &c.b.to_f64s()) {
                    // equal durations compare equal whatever the reference date
                } else {
                    o = o.fail("C08/compare/accepted", format!("{}Error", rerr_name(we)), format!("{g:?}"));
                }
            }
        }
        o
    }
}

/// the same machinery through PlainDateTime/PlainDate until/since with rounding options
#[derive(Serialize, Deserialize, Debug, Clone)]
pub struct UntilCase {
    pub a_day: i64,
    pub a_ns: i128,
    pub b_day: i64,
    pub b_ns: i128,
    pub largest: U,
    pub smallest: U,
    pub inc: u32,
    pub mode: Mode,
    pub since: bool,
    /// use PlainDate (times ignored) instead of PlainDateTime
    pub plain_date: bool,
}
pub struct UntilSub;
impl SubCheck for UntilSub {
    type Case = UntilCase;
    fn name(&self) -> &'static str {
        "until-rounded"
    }
    fn eval(&self, c: &UntilCase) -> Outcome {
        let (a, b) = if c.plain_date { (Dt { day: c.a_day, ns: 0 }, Dt { day: c.b_day, ns: 0 }) } else { (Dt { day: c.a_day, ns: c.a_ns }, Dt { day: c.b_day, ns: c.b_ns }) };
        // since: difference with the negated mode, then negated
        let m = if c.since { c.mode.negated() } else { c.mode };
        // DifferenceTemporalPlainDate: smallestUnit day with increment 1 is a no-op (no rounding step at all)
        let (eff_smallest, eff_inc) = if c.plain_date && c.smallest == U::Day && c.inc == 1 { (U::Nanosecond, 1) } else { (c.smallest, c.inc as i128) };
        let want = diff_with_rounding(a, b, c.largest, eff_inc, eff_smallest, m).map(|i| {
            let d = to_dur(i, c.largest);
            if c.since {
                d.negated()
            } else {
                d
            }
        });
        let mut o = Outcome::pass().class(if c.plain_date { "PlainDate" } else { "PlainDateTime" }).class(if c.since { "since" } else { "until" });
        let ya = Ymd::from_n(c.a_day);
        o = o.nontrivial(ya.d >= 29 || b.abs_ns() < a.abs_ns() || c.smallest.is_calendar());
        if c.inc > 1 && c.smallest.is_date() && c.largest != c.smallest {
            o.unjudged = true;
            o = o.class("unjudged:inc>1-date-unit-largest!=smallest");
        }
        let st = diff_settings(Some(unit(c.largest)), Some(unit(c.smallest)), Some(c.inc), Some(mode(c.mode)));
        let got = if c.plain_date {
            let (pa, pb) = (plain_date(Ymd::from_n(c.a_day)).unwrap(), plain_date(Ymd::from_n(c.b_day)).unwrap());
            if c.since {
                pa.since(&pb, st)
            } else {
                pa.until(&pb, st)
            }
        } else {
            let (pa, pb) = (plain_datetime(a).unwrap(), plain_datetime(b).unwrap());
            if c.since {
                pa.since(&pb, st)
            } else {
                pa.until(&pb, st)
            }
        };
        if o.unjudged {
            return o;
        }
        match (want, got) {
            (Ok(w), Ok(g)) => {
                let wf = w.to_f64s();
                chk!(o, fields_eq(&duration_fields(&g), &wf), "C08/until-rounded/mismatch", wf, duration_fields(&g));
            }
            (Err(we), Err(e)) => chk!(o, e.kind() == kind_of(we), "C08/until-rounded/error-kind", rerr_name(we), err_str(&e)),
            (Ok(w), Err(e)) => {
                if !reported_valid(&w) && e.kind() == ErrorKind::Range {
                    o = o.class("leaves-duration-range");
                } else {
                    o = o.fail("C08/until-rounded/unexpected-error", format!("{:?}", w.to_f64s()), err_str(&e));
                }
            }
            (Err(we), Ok(g)) => o = o.fail("C08/until-rounded/accepted", format!("{}Error", rerr_name(we)), format!("{:?}", duration_fields(&g))),
        }
        o
    }
}

// ------------------------------------------------------------------------------------------
// generators

fn mixed_dur() -> BoxedStrategy<Dur> {
    let y = prop_oneof![5 => Just(0i128), 4 => 0i128..=3, 2 => 0i128..=40, 1 => 0i128..=10_000];
    let mo = prop_oneof![4 => Just(0i128), 4 => 0i128..=13, 2 => 0i128..=40, 1 => 0i128..=2000];
    let w = prop_oneof![6 => Just(0i128), 3 => 0i128..=6, 1 => 0i128..=200];
    let d = prop_oneof![3 => Just(0i128), 4 => 0i128..=31, 2 => 0i128..=400, 1 => 0i128..=100_000];
    let h = prop_oneof![5 => Just(0i128), 3 => 0i128..=30, 1 => 0i128..=2000];
    let mi = prop_oneof![6 => Just(0i128), 3 => 0i128..=70];
    let s = prop_oneof![6 => Just(0i128), 3 => 0i128..=70, 1 => 0i128..=100_000];
    let sub = prop_oneof![6 => Just(0i128), 2 => 0i128..=999, 1 => Just(500i128), 1 => 0i128..=2_000_000];
    (prop::bool::ANY, (y, mo, w, d), (h, mi, s, sub.clone(), sub.clone(), sub), 0u8..8)
        .prop_map(|(neg, dd, t, tie)| {
            let mut f = [dd.0, dd.1, dd.2, dd.3, t.0, t.1, t.2, t.3, t.4, t.5];
            // a share of exact half-day / half-hour remainders (ties for day/hour rounding)
            if tie == 0 {
                f[4] = 12;
                for x in f[5..].iter_mut() {
                    *x = 0;
                }
            } else if tie == 1 {
                f[5] = 30;
                for x in f[6..].iter_mut() {
                    *x = 0;
                }
            }
            if neg {
                for x in f.iter_mut() {
                    *x = -*x;
                }
            }
            Dur { f }
        })
        .prop_filter("valid", |d| d.valid())
        .boxed()
}

/// (largest option, smallest, increment) admissible for Duration.round
fn round_opts() -> BoxedStrategy<(LargestOpt, U, u32)> {
    (prop_oneof![3 => gen::unit_in(0, 3), 2 => gen::unit_in(4, 9)], 0usize..64, 0u8..4, 0usize..64)
        .prop_map(|(s, li, lk, ii)| {
            // largest: any unit not smaller than smallest
            let l = UNITS[li * (s.idx() + 1) / 64];
            let incs: Vec<u32> = match s.max_increment() {
                Some(m) => gen::divisors_below(m).into_iter().map(|x| x as u32).collect(),
                None => vec![1, 1, 1, 1, 2, 3, 5, 7, 10, 12, 100],
            };
            let inc = incs[ii * incs.len() / 64];
            let largest = match lk {
                // increments > 1 on date units are only judged with largest == smallest
                _ if inc > 1 && s.is_date() && lk != 0 => LargestOpt::Unit(s),
                0 => LargestOpt::Absent,
                1 => LargestOpt::Auto,
                _ => LargestOpt::Unit(l),
            };
            (largest, s, inc)
        })
        .boxed()
}

fn ref_day() -> BoxedStrategy<i64> {
    prop_oneof![
        5 => (to_days(1900, 1, 1)..=to_days(2100, 12, 31)),
        2 => ((1900i64..=2100), 1u8..=12, 0u8..=3).prop_map(|(y, m, back)| to_days(y, m, dim(y, m) - back)),
        1 => Just(to_days(2020, 2, 29)),
        1 => gen::day(),
    ]
    .boxed()
}

/// durations whose time fields sit exactly on / next to a unit boundary (24 h, 60 min, 60 s, 1000 ms ...): the
/// shapes for which "no rounding needed" must still re-balance
fn boundary_dur() -> BoxedStrategy<Dur> {
    let pick = |v: Vec<i128>| proptest::sample::select(v);
    (
        prop::bool::ANY,
        (prop_oneof![3 => Just(0i128), 1 => 0i128..=2], prop_oneof![3 => Just(0i128), 1 => 0i128..=13], prop_oneof![4 => Just(0i128), 1 => 0i128..=3], prop_oneof![1 => Just(0i128), 2 => 0i128..=40]),
        (pick(vec![0, 0, 1, 23, 24, 24, 25, 47, 48, 72]), pick(vec![0, 0, 0, 1, 59, 60, 61, 120, 1440]), pick(vec![0, 0, 0, 59, 60, 61, 3600, 86400])),
        (pick(vec![0, 0, 0, 999, 1000, 1001]), pick(vec![0, 0, 0, 999, 1000, 1001]), pick(vec![0, 0, 0, 1, 999, 1000, 1001])),
    )
        .prop_map(|(neg, dd, t, u)| {
            let mut f = [dd.0, dd.1, dd.2, dd.3, t.0, t.1, t.2, u.0, u.1, u.2];
            if neg {
                for x in f.iter_mut() {
                    *x = -*x;
                }
            }
            Dur { f }
        })
        .prop_filter("valid", |d| d.valid())
        .boxed()
}

pub fn round_case() -> BoxedStrategy<RoundCase> {
    let general = (ref_day(), mixed_dur(), round_opts(), gen::mode()).prop_map(|(r, d, (largest, smallest, inc), mode)| RoundCase { r, d, largest, smallest, inc, mode });
    // pure re-balancing: smallest unit nanosecond (or the duration's own smallest), increment 1, largest absent / auto
    // / the duration's own largest unit / any larger one
    let rebalance = (ref_day(), boundary_dur(), 0u8..6, 0usize..64, gen::mode(), prop::bool::weighted(0.8)).prop_map(|(r, d, lk, li, mode, ns)| {
        let own = d.f.iter().position(|v| *v != 0).map(|i| UNITS[i]).unwrap_or(U::Nanosecond);
        let smallest = if ns { U::Nanosecond } else { UNITS[9 - d.f.iter().rev().position(|v| *v != 0).unwrap_or(0)] };
        let largest = match lk {
            0 => LargestOpt::Absent,
            1 => LargestOpt::Auto,
            2 | 3 => LargestOpt::Unit(own.larger_of(smallest)),
            _ => LargestOpt::Unit(UNITS[li * (own.larger_of(smallest).idx() + 1) / 64]),
        };
        RoundCase { r, d, largest, smallest, inc: 1, mode }
    });
    prop_oneof![5 => general, 1 => rebalance].boxed()
}
pub fn total_case() -> BoxedStrategy<TotalCase> {
    (ref_day(), mixed_dur(), gen::unit_in(0, 9)).prop_map(|(r, d, unit)| TotalCase { r, d, unit }).boxed()
}
pub fn compare_case() -> BoxedStrategy<CompareCase> {
    prop_oneof![9 => compare_case_general(), 1 => compare_case_huge_days()].boxed()
}

/// both operands carry a calendar unit and a days field beyond 32 bits (valid: days may reach 1.04e11); the day
/// counts differ by a few days or not at all
fn compare_case_huge_days() -> BoxedStrategy<CompareCase> {
    let base = prop_oneof![
        (-3i128..=3).prop_map(|k| (1i128 << 31) + k),
        (-3i128..=3).prop_map(|k| (1i128 << 32) + k),
        Just(2_500_000_000i128),
        Just(3_000_000_000i128),
        (0i128..=3).prop_map(|k| 104_249_991_373 - k),
        (1i128 << 31)..=104_249_991_000i128,
    ];
    (ref_day(), base, -2i128..=2, -2i128..=2, 0i128..=2, 0i128..=13, 0i128..=3, prop::bool::ANY, prop::bool::ANY, 0i128..=30)
        .prop_map(|(r, base, e1, e2, y, mo, w, neg, same_shape, h)| {
            let mut fa = [y, mo.max(if y == 0 && w == 0 { 1 } else { 0 }), w, base + e1, h, 0, 0, 0, 0, 0];
            let mut fb = if same_shape { [y, fa[1], w, base + e2, 0, 0, 0, 0, 0, 0] } else { [0, 0, 0, base + e2 + 31, 1, 0, 0, 0, 0, 0] };
            if neg {
                for x in fa.iter_mut().chain(fb.iter_mut()) {
                    *x = -*x;
                }
            }
            CompareCase { r, a: Dur { f: fa }, b: Dur { f: fb } }
        })
        .prop_filter("valid", |c| c.a.valid() && c.b.valid())
        .boxed()
}

fn compare_case_general() -> BoxedStrategy<CompareCase> {
    (ref_day(), mixed_dur(), mixed_dur(), 0u8..4)
        .prop_map(|(r, a, b, k)| match k {
            // the same span in another shape: months <-> days relative to r
            0 => {
                let later = date_add(Ymd::from_n(r), a.f[0], a.f[1], a.f[2], 0, Overflow::Constrain);
                match later {
                    Ok(l) => {
                        let mut f = a.f;
                        f[0] = 0;
                        f[1] = 0;
                        f[2] = 0;
                        f[3] += (l.n() - r) as i128;
                        let b2 = Dur { f };
                        if b2.valid() {
                            CompareCase { r, a, b: b2 }
                        } else {
                            CompareCase { r, a, b }
                        }
                    }
                    Err(_) => CompareCase { r, a, b },
                }
            }
            _ => CompareCase { r, a, b },
        })
        .boxed()
}
pub fn until_case() -> BoxedStrategy<UntilCase> {
    (gen::day_pair(), gen::ns_of_day(), gen::ns_of_day(), round_opts(), gen::mode(), prop::bool::ANY, prop::bool::weighted(0.3))
        .prop_map(|((a, b), a_ns, b_ns, (l, s, inc), mode, since, pd)| {
            let mut largest = match l {
                LargestOpt::Unit(u) => u,
                _ => s.larger_of(U::Day),
            };
            let mut smallest = s;
            if pd {
                // PlainDate admits date units only
                if !smallest.is_date() {
                    smallest = U::Day;
                }
                if !largest.is_date() {
                    largest = U::Day;
                }
                if largest.idx() > smallest.idx() {
                    largest = smallest;
                }
            }
            let inc = if smallest == s { inc } else { 1 };
            UntilCase { a_day: a, a_ns, b_day: b, b_ns, largest, smallest, inc, mode, since, plain_date: pd }
        })
        .prop_filter("in range", |c| datetime_in_range(c.a_day, if c.plain_date { 43_200_000_000_000 } else { c.a_ns }) && datetime_in_range(c.b_day, if c.plain_date { 43_200_000_000_000 } else { c.b_ns }))
        .boxed()
}

pub fn run(ctx: &mut Ctx) {
    ctx.rule = "round: generated (reference date incl. month ends / Feb 29, valid duration mixing calendar and time units with both signs and exact half-day/half-hour ties, largest absent|auto|unit, smallest year..ns, admissible increment, 9 modes) -> Duration::round relative to the PlainDate against add-then-remeasure with exact rational progress (oracle self-tested against the test262 tables ported by the repo; one case in six is a pure re-balancing case: time fields exactly on / next to 24 h, 60 min, 60 s, 1000 ms.., smallest unit nanosecond, increment 1, largest absent / auto / the duration's own largest / larger), plus oracle-free invariants (sign-uniform, zero residue below smallest, multiple of increment); total: every unit, against the correctly rounded exact rational (<= 1 ulp); compare: against the order of the instants the durations lead to (incl. the same span in another shape, and - one case in ten - operands with a calendar unit and a days field between 2^31 and 1.04e11 that differ by a few days); until-rounded: the same machinery through PlainDateTime/PlainDate until/since with rounding options (since = negated mode, negated result). Cells with increment > 1, a date smallest unit and largest != smallest are unjudged (Temporal added a rejection after this snapshot). non-trivial = rounding carries into a larger unit, reference day >= 29, months and days both non-zero, negative, calendar smallest unit.".into();
    let t = ctx.tier;
    ctx.run_prop(&RoundSub, &round_case, t.pick(300_000, 10_000_000));
    ctx.run_prop(&TotalSub, &total_case, t.pick(200_000, 6_000_000));
    ctx.run_prop(&CompareSub, &compare_case, t.pick(200_000, 6_000_000));
    ctx.run_prop(&UntilSub, &until_case, t.pick(300_000, 10_000_000));
}

pub fn replay(ctx: &mut Ctx, sub: &str, case: &Value) -> bool {
    match sub {
        "round" => ctx.replay_case(&RoundSub, case),
        "total" => ctx.replay_case(&TotalSub, case),
        "compare" => ctx.replay_case(&CompareSub, case),
        "until-rounded" => ctx.replay_case(&UntilSub, case),
        _ => false,
    }
}
