//! C01 - ISO dates <-> day timeline is a Gregorian bijection (complete enumeration).

use crate::chk;
use crate::conv::*;
use crate::refm::civil::*;
use crate::refm::dateadd::Ymd;
use crate::run::*;
use serde::{Deserialize, Serialize};
use serde_json::{json, Value};
use std::cmp::Ordering;
use std::str::FromStr;
use std::sync::atomic::{AtomicI64, Ordering as AO};
use temporal_rs::options::Unit;
use temporal_rs::provider::NeverProvider;
use temporal_rs::verif_hooks as hooks;
use temporal_rs::{Duration, Instant, PlainDate, PlainDateTime, TimeZone};

#[derive(Serialize, Deserialize, Debug, Clone)]
pub struct DayCase {
    pub n: i64,
    /// 0 = cheap getters only, 1 = + arithmetic with neighbours, 2 = + UTC instant / string round trip
    pub depth: u8,
}

pub struct DaySub;

fn fail(sig: &str, exp: impl std::fmt::Debug, act: impl std::fmt::Debug) -> Option<Fail> {
    Some(Fail { sig: format!("C01/day/{sig}"), expected: format!("{exp:?}"), actual: format!("{act:?}") })
}

/// All per-day checks. `o` is the odometer reading for day n (the oracle).
fn check_day(o: &Odo, depth: u8, one_day: &Duration, utc: &TimeZone, prov: &crate::tzp::TableProvider) -> Option<Fail> {
    let n = o.n;
    let (y, m, d) = (o.y as i32, o.m, o.d);
    // hook kernels both directions (window is wider than the Temporal range)
    let kn = hooks::epoch_days_from_gregorian_date(y, m, d);
    if kn as i64 != n {
        return fail("kernel/ymd->days", n, kn);
    }
    let kymd = hooks::ymd_from_epoch_days(n as i32);
    if kymd != (y, m, d) {
        return fail("kernel/days->ymd", (y, m, d), kymd);
    }
    let r = PlainDate::try_new(y, m, d, iso());
    let in_range = date_in_range(n);
    let date = match (&r, in_range) {
        (Ok(p), true) => p,
        (Err(e), false) => {
            if e.kind() != temporal_rs::error::ErrorKind::Range {
                return fail("limit/error-kind", "Range", err_str(e));
            }
            return None;
        }
        (Ok(_), false) => return fail("limit/accepted-out-of-range", "RangeError", "Ok"),
        (Err(e), true) => return fail("limit/rejected-in-range", "Ok", err_str(e)),
    };
    if (date.iso_year(), date.iso_month(), date.iso_day()) != (y, m, d) {
        return fail("iso-fields", (y, m, d), (date.iso_year(), date.iso_month(), date.iso_day()));
    }
    if (date.year(), date.month(), date.day()) != (y, m, d) {
        return fail("calendar-fields", (y, m, d), (date.year(), date.month(), date.day()));
    }
    if date.day_of_week() != o.dow as u16 {
        return fail("day_of_week", o.dow, date.day_of_week());
    }
    if date.day_of_year() != o.doy {
        return fail("day_of_year", o.doy, date.day_of_year());
    }
    if date.days_in_month() != dim(o.y, o.m) as u16 {
        return fail("days_in_month", dim(o.y, o.m), date.days_in_month());
    }
    if date.days_in_year() != diy(o.y) {
        return fail("days_in_year", diy(o.y), date.days_in_year());
    }
    if date.in_leap_year() != is_leap(o.y) {
        return fail("in_leap_year", is_leap(o.y), date.in_leap_year());
    }
    if date.months_in_year() != 12 {
        return fail("months_in_year", 12, date.months_in_year());
    }
    // ISO week by the Thursday rule, computed from the odometer's own fields
    let thursday_doy = o.doy as i64 - (o.dow as i64 - 1) + 3;
    let (want_week, want_wy) = if thursday_doy < 1 {
        // Thursday lies in the previous year
        let py = o.y - 1;
        let t = thursday_doy + diy(py) as i64;
        (((t - 1) / 7 + 1) as u16, py)
    } else if thursday_doy > diy(o.y) as i64 {
        (1u16, o.y + 1)
    } else {
        (((thursday_doy - 1) / 7 + 1) as u16, o.y)
    };
    match date.week_of_year() {
        Ok(Some(w)) if w == want_week => {}
        other => return fail("week_of_year", want_week, other.map_err(|e| err_str(&e))),
    }
    match date.year_of_week() {
        Ok(Some(w)) if w as i64 == want_wy => {}
        other => return fail("year_of_week", want_wy, other.map_err(|e| err_str(&e))),
    }
    if depth >= 1 {
        match date.days_in_week() {
            Ok(7) => {}
            other => return fail("days_in_week", 7, other.map_err(|e| err_str(&e))),
        }
        // neighbours: next day by add, distance, order
        if date_in_range(n + 1) {
            let mut nx = *o;
            nx.next();
            let next = match PlainDate::try_new(nx.y as i32, nx.m, nx.d, iso()) {
                Ok(p) => p,
                Err(e) => return fail("next/try_new", "Ok", err_str(&e)),
            };
            if date.compare_iso(&next) != Ordering::Less || next.compare_iso(date) != Ordering::Greater {
                return fail("order/next", "Less", date.compare_iso(&next));
            }
            match date.add(one_day, None) {
                Ok(p) if p == next => {}
                other => return fail("add-one-day", (nx.y, nx.m, nx.d), other.map(|p| ymd_of(&p)).map_err(|e| err_str(&e))),
            }
            match next.subtract(one_day, None) {
                Ok(p) if &p == date => {}
                other => return fail("subtract-one-day", (y, m, d), other.map(|p| ymd_of(&p)).map_err(|e| err_str(&e))),
            }
            match date.until(&next, diff_settings(Some(Unit::Day), None, None, None)) {
                Ok(dur) if duration_fields(&dur) == [0., 0., 0., 1., 0., 0., 0., 0., 0., 0.] => {}
                other => return fail("until-next-day", "P1D", other.map(|p| duration_fields(&p)).map_err(|e| err_str(&e))),
            }
        }
        if date.compare_iso(date) != Ordering::Equal {
            return fail("order/self", "Equal", date.compare_iso(date));
        }
    }
    if depth >= 2 {
        // UTC instant of midnight: exactly n * 86400 s
        let want_ns = n as i128 * NS_PER_DAY;
        if instant_in_range(want_ns) {
            match date.to_zoned_date_time_with_provider(utc.clone(), None, &NeverProvider) {
                Ok(z) if z.epoch_nanoseconds().as_i128() == want_ns => {}
                other => {
                    return fail("utc-midnight/zoned", want_ns, other.map(|z| z.epoch_nanoseconds().as_i128()).map_err(|e| err_str(&e)))
                }
            }
            // string route: "<date>T00:00Z" -> Instant -> prints the same date
            let ds = date.to_ixdtf_string(temporal_rs::options::DisplayCalendar::Never);
            let s = format!("{ds}T00:00Z");
            match Instant::from_str(&s) {
                Ok(i) if i.as_i128() == want_ns => {
                    match i.to_ixdtf_string_with_provider(None, Default::default(), prov) {
                        Ok(back) if back.starts_with(&ds) && back[ds.len()..].starts_with("T00:00:00") => {}
                        other => return fail("utc-midnight/instant-print", format!("{ds}T00:00:00Z"), other.map_err(|e| err_str(&e))),
                    }
                    // and back to the date through the zoned value
                    let z = i.to_zoned_date_time_iso(utc.clone());
                    match z.to_plain_date_with_provider(&NeverProvider) {
                        Ok(p) if &p == date => {}
                        other => return fail("utc-midnight/back-to-date", (y, m, d), other.map(|p| ymd_of(&p)).map_err(|e| err_str(&e))),
                    }
                }
                other => return fail("utc-midnight/instant-parse", want_ns, other.map(|z| z.as_i128()).map_err(|e| err_str(&e))),
            }
        }
        // date-time at midnight and at the last ns, ordering inside the day
        match (
            PlainDateTime::try_new(y, m, d, 0, 0, 0, 0, 0, 0, iso()),
            PlainDateTime::try_new(y, m, d, 23, 59, 59, 999, 999, 999, iso()),
        ) {
            (Ok(a), Ok(b)) => {
                if a.compare_iso(&b) != Ordering::Less {
                    return fail("datetime-order-in-day", "Less", a.compare_iso(&b));
                }
            }
            (a, b) => {
                // only the first day of the range has no midnight
                let a_ok = datetime_in_range(n, 0);
                let b_ok = datetime_in_range(n, NS_PER_DAY - 1);
                if a.is_ok() != a_ok || b.is_ok() != b_ok {
                    return fail("datetime-limits", (a_ok, b_ok), (a.is_ok(), b.is_ok()));
                }
            }
        }
    }
    None
}

fn nontrivial_day(o: &Odo) -> bool {
    // at or adjacent to a month/year boundary, Feb 28/29, ISO week 1/52/53 region, both range ends
    o.d == 1 || o.d >= 28 || o.doy <= 4 || o.doy >= 362 || o.n <= MIN_DAY + 2 || o.n >= MAX_DAY - 2
}

impl SubCheck for DaySub {
    type Case = DayCase;
    fn name(&self) -> &'static str {
        "day"
    }
    fn eval(&self, c: &DayCase) -> Outcome {
        let o = Odo::at(c.n);
        let one = Duration::from_str("P1D").unwrap();
        let utc = TimeZone::try_from_identifier_str("+00:00").unwrap();
        let mut out = Outcome::pass().nontrivial(nontrivial_day(&o));
        let prov = crate::tzp::TableProvider::utc_only();
        out.fail = check_day(&o, c.depth, &one, &utc, &prov);
        out
    }
}

// ------------------------------------------------------------------------------------------
// pairs

#[derive(Serialize, Deserialize, Debug, Clone)]
pub struct PairCase {
    pub a: i64,
    pub b: i64,
    pub a_ns: i128,
    pub b_ns: i128,
}
pub struct PairSub;
impl SubCheck for PairSub {
    type Case = PairCase;
    fn name(&self) -> &'static str {
        "pair"
    }
    fn eval(&self, c: &PairCase) -> Outcome {
        let (ya, yb) = (Ymd::from_n(c.a), Ymd::from_n(c.b));
        let span = c.b - c.a;
        let crosses_leap = {
            // any Feb 29 between
            let (lo, hi) = (c.a.min(c.b), c.a.max(c.b));
            hi - lo >= 1461 || (lo..=hi).step_by(1).take(1500).any(|n| {
                let (_, m, d) = from_days(n);
                m == 2 && d == 29
            })
        };
        let mut o = Outcome::pass().nontrivial(crosses_leap || span.abs() > 365_000);
        if span.abs() > 365_000 {
            o = o.class("span>1000y");
        }
        if crosses_leap {
            o = o.class("crosses-leap-day");
        }
        let (Ok(a), Ok(b)) = (plain_date(ya), plain_date(yb)) else {
            return o.fail("C01/pair/construct", "Ok", "Err");
        };
        let want = span.cmp(&0).reverse(); // a vs b
        let want = if span == 0 { Ordering::Equal } else { want };
        chk!(o, a.compare_iso(&b) == want, "C01/pair/compare_iso", want, a.compare_iso(&b));
        let day = diff_settings(Some(Unit::Day), None, None, None);
        match a.until(&b, day) {
            Ok(d) => {
                let f = duration_fields(&d);
                let mut w = [0.0; 10];
                w[3] = span as f64;
                chk!(o, fields_eq(&f, &w), "C01/pair/until-days", w, f);
            }
            Err(e) => o = o.fail("C01/pair/until-days/err", span.to_string(), err_str(&e)),
        }
        match a.since(&b, day) {
            Ok(d) => {
                let f = duration_fields(&d);
                let mut w = [0.0; 10];
                w[3] = -span as f64;
                chk!(o, fields_eq(&f, &w), "C01/pair/since-days", w, f);
            }
            Err(e) => o = o.fail("C01/pair/since-days/err", (-span).to_string(), err_str(&e)),
        }
        let mut f = [0.0; 10];
        f[3] = span as f64;
        match duration_from_f64s(&f).and_then(|d| a.add(&d, None)) {
            Ok(p) => chk!(o, p == b, "C01/pair/add-days", yb, ymd_of(&p)),
            Err(e) => o = o.fail("C01/pair/add-days/err", format!("{yb:?}"), err_str(&e)),
        }
        // date-times and instants order like the timeline
        let ta = c.a as i128 * NS_PER_DAY + c.a_ns;
        let tb = c.b as i128 * NS_PER_DAY + c.b_ns;
        let want_t = ta.cmp(&tb);
        if datetime_in_range(c.a, c.a_ns) && datetime_in_range(c.b, c.b_ns) {
            let pa = plain_datetime(crate::refm::dateadd::Dt { day: c.a, ns: c.a_ns });
            let pb = plain_datetime(crate::refm::dateadd::Dt { day: c.b, ns: c.b_ns });
            match (pa, pb) {
                (Ok(pa), Ok(pb)) => chk!(o, pa.compare_iso(&pb) == want_t, "C01/pair/datetime-order", want_t, pa.compare_iso(&pb)),
                _ => o = o.fail("C01/pair/datetime-construct", "Ok", "Err"),
            }
        }
        if instant_in_range(ta) && instant_in_range(tb) {
            match (Instant::try_new(ta), Instant::try_new(tb)) {
                (Ok(ia), Ok(ib)) => {
                    chk!(o, ia.cmp(&ib) == want_t, "C01/pair/instant-order", want_t, ia.cmp(&ib));
                }
                _ => o = o.fail("C01/pair/instant-construct", "Ok", "Err"),
            }
        }
        o
    }
}

// ------------------------------------------------------------------------------------------
// per-year facts

#[derive(Serialize, Deserialize, Debug, Clone)]
pub struct YearCase {
    pub y: i64,
}
pub struct YearSub;
impl SubCheck for YearSub {
    type Case = YearCase;
    fn name(&self) -> &'static str {
        "year"
    }
    fn eval(&self, c: &YearCase) -> Outcome {
        let y = c.y;
        let mut o = Outcome::pass().nontrivial(y.rem_euclid(100) == 0 || y.rem_euclid(4) == 0 || y <= 0);
        // a representative day of the year that is in range: Jul 1 (both range-end years have it or not)
        let probe = [(7u8, 1u8), (12, 28), (1, 1), (12, 31)];
        for (m, d) in probe {
            let n = to_days(y, m, d);
            if !date_in_range(n) {
                continue;
            }
            let Ok(p) = PlainDate::try_new(y as i32, m, d, iso()) else {
                return o.fail("C01/year/construct", "Ok", "Err");
            };
            chk!(o, p.days_in_year() == diy(y), "C01/year/days_in_year", diy(y), p.days_in_year());
            chk!(o, p.in_leap_year() == is_leap(y), "C01/year/leap", is_leap(y), p.in_leap_year());
            if (m, d) == (1, 1) {
                chk!(o, p.day_of_week() == weekday(n) as u16, "C01/year/jan1-weekday", weekday(n), p.day_of_week());
            }
            if (m, d) == (12, 28) {
                let w = p.week_of_year().ok().flatten();
                chk!(o, w == Some(weeks_in_year(y) as u16), "C01/year/weeks-in-year", weeks_in_year(y), w);
            }
        }
        // hook kernel on Jan 1 and Dec 31 even outside the Temporal range (window check)
        let k = hooks::epoch_days_from_gregorian_date(y as i32, 1, 1) as i64;
        chk!(o, k == to_days(y, 1, 1), "C01/year/kernel-jan1", to_days(y, 1, 1), k);
        o
    }
}

// ------------------------------------------------------------------------------------------

pub fn run(ctx: &mut Ctx) {
    ctx.rule = "[also: near pairs - same / adjacent day, one time field moved by a few units with all lower fields independent, so that the order is decided below the millisecond; constructor regulation oracle of C17 over raw year / month / day incl. 0, length+1, 255] complete walk over every day number in -100000003..=100000002 (odometer oracle); depth 0 = constructor limits + all date getters + raw kernel both directions for EVERY day; depth 1 (+ add/subtract/until/compare with the next day) and depth 2 (+ UTC midnight instant via zoned value and via string, date-time limits) on every day that is at/adjacent to a month or year boundary or a range end plus a stride (quick) or on every day (thorough). non-trivial = day at or adjacent to a month/year boundary (d=1, d>=28, first/last 4 days of year) or within 2 days of a range end; each day is visited once so non-trivial days are distinct by construction. pairs: generated (a,b) with ns parts; non-trivial = spans a leap day or > 1000 years. years: all 547582 years.".into();
    ctx.assumptions = vec![
        "oracle: day-by-day odometer anchored at 1970-01-01 = day 0 (Thursday); closed form cross-checked at selftest".into(),
    ];
    let tier = ctx.tier;
    // ---- full walk
    let lo = MIN_DAY - 2;
    let hi = MAX_DAY + 2;
    let chunk: i64 = 250_000;
    let nchunks = (hi - lo + chunk) / chunk;
    let next = AtomicI64::new(0);
    let lanes = ctx.threads;
    let mut results = vec![];
    std::thread::scope(|sc| {
        let mut hs = vec![];
        for lane in 0..lanes {
            let next = &next;
            hs.push(sc.spawn(move || {
                set_lane(lane);
                let one = Duration::from_str("P1D").unwrap();
                let utc = TimeZone::try_from_identifier_str("+00:00").unwrap();
                let prov = crate::tzp::TableProvider::utc_only();
                let mut stats = Stats::default();
                let mut viol: Option<(Value, Fail)> = None;
                let mut nfail: u64 = 0;
                loop {
                    let c = next.fetch_add(1, AO::Relaxed);
                    if c >= nchunks {
                        break;
                    }
                    let start = lo + c * chunk;
                    let end = (start + chunk - 1).min(hi);
                    let mut o = Odo::at(start);
                    beat_start();
                    while o.n <= end {
                        let nt = nontrivial_day(&o);
                        let depth = match tier {
                            Tier::Thorough => 2,
                            Tier::Quick => {
                                if nt || o.n % 16 == 0 {
                                    if o.d == 1 || o.d >= 28 && o.n % 4 == 0 || o.n % 64 == 0 || o.n <= MIN_DAY + 2 || o.n >= MAX_DAY - 2 {
                                        2
                                    } else {
                                        1
                                    }
                                } else {
                                    0
                                }
                            }
                        };
                        let r = guard(|| check_day(&o, depth, &one, &utc, &prov));
                        stats.evaluations += 1;
                        if nt {
                            stats.nontrivial_total += 1;
                            stats.distinct_by_construction += 1;
                        }
                        let f = match r {
                            Ok(f) => f,
                            Err(p) => Some(Fail { sig: format!("C01/day/{}", p.split(": ").next().unwrap_or("panic")), expected: "no panic".into(), actual: p }),
                        };
                        if let Some(f) = f {
                            nfail += 1;
                            *stats.classes.entry(format!("FAIL:{}", f.sig)).or_default() += 1;
                            if viol.is_none() {
                                viol = Some((json!({"n": o.n, "depth": depth}), f));
                            }
                        }
                        o.next();
                    }
                    beat_end();
                    *stats.classes.entry(format!("depth-walk-chunks")).or_default() += 1;
                    if nfail > 100_000 {
                        break;
                    }
                }
                (stats, viol)
            }));
        }
        for h in hs {
            results.push(h.join().expect("lane"));
        }
    });
    for (st, v) in results {
        ctx.absorb("day", st, v);
    }
    ctx.mark_exhaustive("day");
    // a few written-out samples of the walk
    for n in [MIN_DAY, MIN_DAY - 1, -719468, 0, 11016, MAX_DAY, MAX_DAY + 1] {
        let o = Odo::at(n);
        ctx.stats.samples.push(json!({"sub":"day","n": n, "ymd": [o.y, o.m, o.d], "dow": o.dow, "doy": o.doy}));
    }

    // ---- years (exhaustive)
    let y0 = -271_822i64;
    let y1 = 275_761i64;
    ctx.run_enum(&YearSub, (y1 - y0 + 1) as u64, &|i| YearCase { y: y0 + i as i64 }, true);

    // ---- pairs
    use proptest::prelude::*;
    let strat = || {
        (crate::gen::day_pair(), crate::gen::ns_of_day(), crate::gen::ns_of_day())
            .prop_map(|((a, b), a_ns, b_ns)| PairCase { a, b, a_ns, b_ns })
    };
    ctx.run_prop(&PairSub, &strat, tier.pick(200_000, 20_000_000));
    // near pairs: same or adjacent day, times of day that differ by a few units of one sub-second / time field, with
    // the lower fields ordered the other way round (a comparison that looks at the fields in the wrong order, or
    // skips one, only shows on such pairs)
    let near = || {
        let field = || prop_oneof![3 => Just(0i128), 3 => Just(999i128), 2 => Just(1i128), 2 => Just(998i128), 2 => 0i128..1000];
        let unit = proptest::sample::select(vec![1i128, 1_000, 1_000_000, 1_000_000_000, 60_000_000_000, 3_600_000_000_000]);
        (crate::gen::day(), (0i128..24, 0i128..60, 0i128..60), (field(), field(), field()), unit, -3i128..=3, (field(), field(), field()), -1i64..=1, prop::bool::weighted(0.8))
            .prop_map(|(a, (h, mi, sec), (ms, us, ns), unit, k, (ms2, us2, ns2), dd, same_day)| {
                let a_ns = ((h * 60 + mi) * 60 + sec) * 1_000_000_000 + ms * 1_000_000 + us * 1_000 + ns;
                // b: a moved by k units, then every field below that unit replaced by an independent value
                let moved = a_ns + k * unit;
                let low = (ms2 * 1_000_000 + us2 * 1_000 + ns2) % unit;
                let b_ns = (moved - moved.rem_euclid(unit) + low).clamp(0, NS_PER_DAY - 1);
                let b = if same_day { a } else { (a + dd).clamp(crate::refm::civil::MIN_DAY, crate::refm::civil::MAX_DAY) };
                PairCase { a, b, a_ns, b_ns }
            })
    };
    ctx.run_prop(&PairSub, &near, tier.pick(200_000, 5_000_000));
    // every constructor yields a day inside 1..=length of its month (or refuses): the constructor regulation oracle
    // of C17, run here over raw year/month/day values incl. 0, length+1, 255 under both overflow modes
    ctx.run_prop(&crate::props::c17::CtorSub, &crate::props::c17::ctor_case, tier.pick(150_000, 2_000_000));
    // adding any duration (years / months with month-end clamping in the right year, weeks, days, time units worth
    // whole days) lands on the day AddISODate names: C04's add oracle
    ctx.run_prop(&crate::props::c04::AddSub, &crate::props::c04::add_case, tier.pick(300_000, 5_000_000));
}

pub fn replay(ctx: &mut Ctx, sub: &str, case: &Value) -> bool {
    match sub {
        "day" => ctx.replay_case(&DaySub, case),
        "pair" => ctx.replay_case(&PairSub, case),
        "year" => ctx.replay_case(&YearSub, case),
        "ctor" => ctx.replay_case(&crate::props::c17::CtorSub, case),
        "add" => ctx.replay_case(&crate::props::c04::AddSub, case),
        _ => false,
    }
}
