//! C14 - ZonedDateTime arithmetic is wall-clock for dates, exact for times.

use crate::chk;
use crate::conv::*;
use crate::gen;
use crate::props::c13::{syn_zone, shaped_zones, ZoneKind};
use crate::refm::civil::*;
use crate::refm::dateadd::*;
use crate::refm::dur::*;
use crate::refm::exact::{ratio_to_f64, ulp_distance};
use crate::refm::fmt;
use crate::refm::relround::to_dur;
use crate::refm::round::{round_int, Mode};
use crate::refm::tz::{Disamb, Zone, S};
use crate::refm::zoned::*;
use crate::run::*;
use proptest::prelude::*;
use serde::{Deserialize, Serialize};
use serde_json::Value;
use temporal_rs::error::ErrorKind;
use temporal_rs::options::{Disambiguation, OffsetDisambiguation, RelativeTo, Unit};
use temporal_rs::ZonedDateTime;

const DAY: i128 = NS_PER_DAY;

#[derive(Serialize, Deserialize, Debug, Clone, Copy, PartialEq, Eq)]
pub enum Op {
    Add,
    Subtract,
    Until,
    Since,
    StartOfDay,
    HoursInDay,
    WithPlainTime,
    DateOnlyString,
    DurRound,
    DurTotal,
    DurCompare,
}

#[derive(Serialize, Deserialize, Debug, Clone, Copy, PartialEq, Eq)]
pub enum LargestOpt {
    Absent,
    Auto,
    Unit(U),
}

#[derive(Serialize, Deserialize, Debug, Clone)]
pub struct Case {
    pub zone: ZoneKind,
    pub op: Op,
    pub t1: i128,
    pub t2: i128,
    pub dur: Dur,
    pub dur2: Dur,
    pub largest: LargestOpt,
    pub smallest: Option<U>,
    pub inc: u32,
    pub mode: Mode,
    pub reject: bool,
    /// time of day for WithPlainTime
    pub tod: i128,
}
pub struct Sub;

fn kind_of(e: RErr) -> ErrorKind {
    match e {
        RErr::Range => ErrorKind::Range,
        RErr::Type => ErrorKind::Type,
    }
}

/// GetStartOfDay as specified: earliest instant reading midnight, else the instant at which the
/// gap that skips midnight ends
fn spec_start_of_day(z: &Zone, day: i64) -> Option<i128> {
    let midnight = day as i128 * DAY;
    let c = z.instants(midnight);
    if let Some(f) = c.first() {
        return Some(*f);
    }
    // transition whose skipped wall interval contains midnight
    for i in 0..z.trans.len() {
        let before = z.offset_of_interval(i as isize - 1) as i128 * S;
        let after = z.trans[i].1 as i128 * S;
        let t = z.trans[i].0 as i128 * S;
        if midnight >= t + before && midnight < t + after {
            return Some(t);
        }
    }
    None
}

fn near_transition(z: &Zone, t: i128, within: i128) -> bool {
    z.trans.iter().any(|(x, _)| ((*x as i128) * S - t).abs() <= within)
}
fn straddles(z: &Zone, a: i128, b: i128) -> bool {
    let (lo, hi) = (a.min(b), a.max(b));
    z.trans.iter().any(|(x, _)| {
        let t = (*x as i128) * S;
        t > lo && t <= hi
    })
}

impl SubCheck for Sub {
    type Case = Case;
    fn name(&self) -> &'static str {
        "zoned"
    }
    fn eval(&self, c: &Case) -> Outcome {
        let z = c.zone.zone();
        let tz = c.zone.timezone();
        let prov = c.zone.provider();
        let mut o = Outcome::pass().class(match c.zone {
            ZoneKind::Fixed(_) => "zone:fixed-offset",
            ZoneKind::Table(_) => "zone:table",
            ZoneKind::Real { .. } => "zone:real-iana-bundled-provider",
        });
        let zdt = match ZonedDateTime::try_new(c.t1, iso(), tz.clone()) {
            Ok(v) => v,
            Err(e) => return o.fail("C14/construct", "Ok", err_str(&e)),
        };
        let w1 = wall_dt(&z, c.t1);
        if !w1.in_range() {
            return o.class("wall-out-of-range");
        }
        let day_len = day_bounds(&z, c.t1).map(|x| x.1);
        let odd_day = day_len.map(|l| l != DAY).unwrap_or(true);
        match c.op {
            Op::Add | Op::Subtract => {
                let eff = if c.op == Op::Add { c.dur } else { c.dur.negated() };
                let ov = if c.reject { Overflow::Reject } else { Overflow::Constrain };
                let want = zoned_add(&z, c.t1, &eff, ov);
                let strad = want.map(|t| straddles(&z, c.t1, t)).unwrap_or(false);
                o = o.class("add").nontrivial(strad || odd_day);
                if strad {
                    o = o.class("straddles-transition");
                }
                if eff.f[..4].iter().any(|v| *v != 0) && eff.time_ns() != 0 {
                    o = o.class("date+time-units");
                }
                let d = match duration_from_dur(&c.dur) {
                    Ok(d) => d,
                    Err(e) => return o.fail("C14/add/duration-construct", "valid", err_str(&e)),
                };
                let got = if c.op == Op::Add { zdt.add_with_provider(&d, Some(overflow(ov)), &prov) } else { zdt.subtract_with_provider(&d, Some(overflow(ov)), &prov) };
                match (want, got) {
                    (Ok(w), Ok(g)) => chk!(o, g.epoch_nanoseconds().as_i128() == w, "C14/add/mismatch", w, g.epoch_nanoseconds().as_i128()),
                    (Err(we), Err(e)) => chk!(o, e.kind() == kind_of(we), "C14/add/error-kind", rerr_name(we), err_str(&e)),
                    (Ok(w), Err(e)) => o = o.fail("C14/add/unexpected-error", w.to_string(), err_str(&e)),
                    (Err(_), Ok(g)) => o = o.fail("C14/add/accepted", "RangeError", g.epoch_nanoseconds().as_i128().to_string()),
                }
            }
            Op::Until | Op::Since => {
                let since = c.op == Op::Since;
                let other = match ZonedDateTime::try_new(c.t2, iso(), tz.clone()) {
                    Ok(v) => v,
                    Err(e) => return o.fail("C14/construct", "Ok", err_str(&e)),
                };
                if !wall_dt(&z, c.t2).in_range() {
                    return o.class("wall-out-of-range");
                }
                let smallest = c.smallest.unwrap_or(U::Nanosecond);
                let largest = match c.largest {
                    LargestOpt::Unit(u) => u,
                    _ => U::Hour.larger_of(smallest),
                };
                let m = if since { c.mode.negated() } else { c.mode };
                let strad = straddles(&z, c.t1, c.t2);
                let w2 = wall_dt(&z, c.t2);
                let reversed_tod = (c.t2 - c.t1).signum() == -((w2.ns - w1.ns).signum()) && c.t1 != c.t2;
                o = o.class(if largest.is_date() { "diff:date-largest" } else { "diff:time-largest" }).nontrivial(strad || odd_day || (c.t2 < c.t1 && reversed_tod));
                if strad {
                    o = o.class("straddles-transition");
                }
                if reversed_tod {
                    o = o.class("time-of-day-order-reversed");
                }
                if c.inc > 1 && smallest.is_date() && largest != smallest {
                    o.unjudged = true;
                    o = o.class("unjudged:inc>1-date-unit-largest!=smallest");
                }
                let want: Result<Dur, RErr> = if largest.is_time() {
                    let x = c.t2 - c.t1;
                    let r = round_int(x, c.inc as i128 * smallest.ns(), m);
                    Ok(balance_time(r, largest))
                } else {
                    zoned_diff_rounded(&z, c.t1, c.t2, largest, c.inc as i128, smallest, m).map(|i| to_dur(i, U::Hour))
                };
                let want = want.map(|d| if since { d.negated() } else { d });
                if let Err(RErr::Type) = want {
                    o.unjudged = true;
                    o = o.class("unjudged:day-correction-does-not-converge");
                }
                let lopt = match c.largest {
                    LargestOpt::Absent => None,
                    LargestOpt::Auto => Some(Unit::Auto),
                    LargestOpt::Unit(u) => Some(unit(u)),
                };
                let st = diff_settings(lopt, c.smallest.map(unit), Some(c.inc), Some(mode(c.mode)));
                // with a time largest unit the result is the exact elapsed time whatever zone the argument is in: every
                // third such case hands over the same instant in another time zone
                let other = if largest.is_time() && c.t2.rem_euclid(3) == 0 {
                    let foreign = temporal_rs::TimeZone::try_from_identifier_str("+05:45").expect("offset zone");
                    if foreign != tz {
                        o = o.class("diff:time-largest:argument-in-another-zone");
                        ZonedDateTime::try_new(c.t2, iso(), foreign).expect("same instant, another zone")
                    } else {
                        other
                    }
                } else {
                    other
                };
                let got = if since { zdt.since_with_provider(&other, st, &prov) } else { zdt.until_with_provider(&other, st, &prov) };
                if o.unjudged {
                    return o;
                }
                match (&want, &got) {
                    (Ok(w), Ok(g)) => {
                        let wf = w.to_f64s();
                        let gf = duration_fields(g);
                        if !fields_eq(&gf, &wf) {
                            return o.fail("C14/diff/mismatch", format!("{wf:?}"), format!("{gf:?}"));
                        }
                        // oracle-free laws
                        let s = if since { -(c.t2 - c.t1).signum() } else { (c.t2 - c.t1).signum() } as f64;
                        chk!(o, gf.iter().all(|v| *v == 0.0 || v.signum() == s), "C14/diff/not-sign-uniform", s, gf);
                        // The law is stated for receivers that are the compatible resolution of their own wall
                        // time: for a receiver in the *second* occurrence of a repeated hour the specified
                        // algorithm measures from the first occurrence (by design of DifferenceZonedDateTime).
                        let receiver_canonical = z.resolve(z.wall_of(c.t1), Disamb::Compatible) == Ok(c.t1);
                        if !receiver_canonical {
                            o = o.class("receiver-in-second-occurrence");
                        }
                        let exact_fields = w.f.iter().all(|v| v.abs() < (1i128 << 53));
                        if smallest == U::Nanosecond && c.inc == 1 && !since && receiver_canonical && exact_fields {
                            // receiver.add(result) == other, exactly
                            match zdt.add_with_provider(g, None, &prov) {
                                Ok(r) => chk!(o, r.epoch_nanoseconds().as_i128() == c.t2, "C14/law/add-until", c.t2, r.epoch_nanoseconds().as_i128()),
                                Err(e) => o = o.fail("C14/law/add-until/error", c.t2.to_string(), err_str(&e)),
                            }
                            if largest.is_date() {
                                // time part shorter than the longest possible local day around (bounded by 24 h + largest shift)
                                let tns: f64 = gf[4] * 3.6e12 + gf[5] * 6e10 + gf[6] * 1e9 + gf[7] * 1e6 + gf[8] * 1e3 + gf[9];
                                let maxshift = z.trans.iter().enumerate().map(|(i, (_, o2))| (o2 - z.offset_of_interval(i as isize - 1)).abs()).max().unwrap_or(0) as f64 * 1e9;
                                chk!(o, tns.abs() < 8.64e13 + maxshift, "C14/diff/time-part-longer-than-a-local-day", "< local day", tns);
                            }
                        }
                    }
                    (Err(we), Err(e)) => chk!(o, e.kind() == kind_of(*we), "C14/diff/error-kind", rerr_name(*we), err_str(e)),
                    (Ok(w), Err(e)) => {
                        if !reported_valid(w) && e.kind() == ErrorKind::Range {
                            o = o.class("leaves-duration-range");
                        } else {
                            o = o.fail("C14/diff/unexpected-error", format!("{:?}", w.to_f64s()), err_str(e));
                        }
                    }
                    (Err(we), Ok(g)) => o = o.fail("C14/diff/accepted", format!("{}Error", rerr_name(*we)), format!("{:?}", duration_fields(g))),
                }
            }
            Op::StartOfDay => {
                let want = spec_start_of_day(&z, w1.day);
                o = o.class("start-of-day").nontrivial(odd_day);
                if odd_day {
                    o = o.class("day-not-24h");
                }
                // cross-check of the oracle itself: first instant whose wall date is that day
                if let (Some(a), Some(b)) = (want, z.start_of_day(w1.day)) {
                    if a != b {
                        o = o.class("midnight-repeated-or-skipped");
                    }
                }
                match (want, zdt.start_of_day_with_provider(&prov)) {
                    (Some(w), Ok(g)) => chk!(o, g.epoch_nanoseconds().as_i128() == w, "C14/start_of_day/mismatch", w, g.epoch_nanoseconds().as_i128()),
                    (Some(w), Err(e)) => o = o.fail("C14/start_of_day/error", w.to_string(), err_str(&e)),
                    (None, _) => o.unjudged = true,
                }
            }
            Op::HoursInDay => {
                o = o.class("hours-in-day").nontrivial(odd_day);
                let a = spec_start_of_day(&z, w1.day);
                let b = spec_start_of_day(&z, w1.day + 1);
                match (a, b) {
                    (Some(a), Some(b)) => {
                        let len = b - a;
                        if len <= 0 {
                            // (synthetic tables only: a backward shift of a day or more)
                            o.unjudged = true;
                            o = o.class("unjudged:local-day-of-non-positive-length");
                            let _ = zdt.hours_in_day_with_provider(&prov);
                            return o;
                        }
                        if len % 3_600_000_000_000 != 0 {
                            // the real elapsed length is not a whole number of hours (Lord Howe: 23.5 / 24.5 h); the
                            // method returns an integer type, so the right answer cannot be returned at all: listed
                            // finding when the result is the truncated length, a mismatch otherwise
                            o = o.class("fractional-hour-day").nontrivial(true);
                            let exact = format!("{} h (exactly {} ns)", len as f64 / 3.6e12, len);
                            return match zdt.hours_in_day_with_provider(&prov) {
                                Ok(g) if g as i128 == len / 3_600_000_000_000 => o.fail("C14/hours_in_day/fractional-length-truncated-by-integer-return-type", exact, g.to_string()),
                                Ok(g) => o.fail("C14/hours_in_day/mismatch", exact, g.to_string()),
                                Err(e) => o.fail("C14/hours_in_day/error", exact, err_str(&e)),
                            };
                        }
                        let want = len / 3_600_000_000_000;
                        if want != 24 {
                            o = o.class("day-not-24h");
                        }
                        match zdt.hours_in_day_with_provider(&prov) {
                            Ok(g) => chk!(o, g as i128 == want, "C14/hours_in_day/mismatch", want, g),
                            Err(e) => o = o.fail("C14/hours_in_day/error", want.to_string(), err_str(&e)),
                        }
                    }
                    _ => o.unjudged = true,
                }
            }
            Op::WithPlainTime => {
                let wall = Dt { day: w1.day, ns: c.tod };
                o = o.class("with-plain-time").nontrivial(z.instants(wall.abs_ns()).len() != 1);
                if !wall.in_range() {
                    return o;
                }
                let want = z.resolve(wall.abs_ns(), Disamb::Compatible).ok().filter(|t| instant_in_range(*t));
                match (want, zdt.with_plain_time_and_provider(plain_time(c.tod).unwrap(), &prov)) {
                    (Some(w), Ok(g)) => chk!(o, g.epoch_nanoseconds().as_i128() == w, "C14/with_plain_time/mismatch", w, g.epoch_nanoseconds().as_i128()),
                    (None, Err(e)) => chk!(o, e.kind() == ErrorKind::Range, "C14/with_plain_time/error-kind", "Range", err_str(&e)),
                    (Some(w), Err(e)) => o = o.fail("C14/with_plain_time/error", w.to_string(), err_str(&e)),
                    (None, Ok(g)) => o = o.fail("C14/with_plain_time/accepted", "RangeError", g.epoch_nanoseconds().as_i128().to_string()),
                }
            }
            Op::DateOnlyString => {
                // "YYYY-MM-DD[Zone]" denotes the start of that local day
                let want = spec_start_of_day(&z, w1.day).filter(|t| instant_in_range(*t));
                o = o.class("date-only-string").nontrivial(odd_day);
                let s = format!("{}[{}]", fmt::date_of_day(w1.day), c.zone.ident());
                match (want, ZonedDateTime::from_str_with_provider(&s, Disambiguation::Compatible, OffsetDisambiguation::Reject, &prov)) {
                    (Some(w), Ok(g)) => chk!(o, g.epoch_nanoseconds().as_i128() == w, "C14/date-only-string/mismatch", w, g.epoch_nanoseconds().as_i128()),
                    (Some(w), Err(e)) => o = o.fail("C14/date-only-string/error", w.to_string(), err_str(&e)),
                    (None, _) => o.unjudged = true,
                }
            }
            Op::DurRound | Op::DurTotal | Op::DurCompare => {
                let d = match duration_from_dur(&c.dur) {
                    Ok(d) => d,
                    Err(e) => return o.fail("C14/duration-construct", "valid", err_str(&e)),
                };
                let rel = Some(RelativeTo::ZonedDateTime(zdt.clone()));
                let target = zoned_add(&z, c.t1, &c.dur, Overflow::Constrain);
                let strad = target.map(|t| straddles(&z, c.t1, t)).unwrap_or(false);
                o = o.nontrivial(strad || odd_day || c.dur.sign() < 0);
                if strad {
                    o = o.class("straddles-transition");
                }
                match c.op {
                    Op::DurRound => {
                        let smallest = c.smallest.unwrap_or(U::Nanosecond);
                        let existing = c.dur.largest_unit();
                        let largest = match c.largest {
                            LargestOpt::Unit(u) => u,
                            _ => existing.larger_of(smallest),
                        };
                        o = o.class("duration.round");
                        if c.inc > 1 && smallest.is_date() && largest != smallest {
                            o.unjudged = true;
                            o = o.class("unjudged:inc>1-date-unit-largest!=smallest");
                        }
                        let want: Result<Dur, RErr> = target.and_then(|t2| {
                            if largest.is_time() {
                                let r = round_int(t2 - c.t1, c.inc as i128 * smallest.ns(), c.mode);
                                Ok(balance_time(r, largest))
                            } else {
                                zoned_diff_rounded(&z, c.t1, t2, largest, c.inc as i128, smallest, c.mode).map(|i| to_dur(i, U::Hour))
                            }
                        });
                        if let Err(RErr::Type) = want {
                            o.unjudged = true;
                            o = o.class("unjudged:day-correction-does-not-converge");
                        }
                        let lopt = match c.largest {
                            LargestOpt::Absent => None,
                            LargestOpt::Auto => Some(Unit::Auto),
                            LargestOpt::Unit(u) => Some(unit(u)),
                        };
                        if lopt.is_none() && c.smallest.is_none() {
                            return o;
                        }
                        let opts = round_options(lopt, c.smallest.map(unit), Some(c.inc), Some(mode(c.mode)));
                        let got = d.round_with_provider(opts, rel, &prov);
                        if o.unjudged {
                            return o;
                        }
                        match (&want, &got) {
                            (Ok(w), Ok(g)) => chk!(o, fields_eq(&duration_fields(g), &w.to_f64s()), "C14/duration.round/mismatch", w.to_f64s(), duration_fields(g)),
                            (Err(we), Err(e)) => chk!(o, e.kind() == kind_of(*we), "C14/duration.round/error-kind", rerr_name(*we), err_str(e)),
                            (Ok(w), Err(e)) => {
                                if !reported_valid(w) && e.kind() == ErrorKind::Range {
                                    o = o.class("leaves-duration-range");
                                } else {
                                    o = o.fail("C14/duration.round/unexpected-error", format!("{:?}", w.to_f64s()), err_str(e));
                                }
                            }
                            (Err(we), Ok(g)) => o = o.fail("C14/duration.round/accepted", format!("{}Error", rerr_name(*we)), format!("{:?}", duration_fields(g))),
                        }
                    }
                    Op::DurTotal => {
                        let u = c.smallest.unwrap_or(U::Hour);
                        o = o.class("duration.total");
                        let want = target.and_then(|t2| zoned_total(&z, c.t1, t2, u));
                        if let Err(RErr::Type) = want {
                            o.unjudged = true;
                            return o;
                        }
                        match (want, d.total_with_provider(unit(u), rel, &prov)) {
                            (Ok((n, den)), Ok(g)) => {
                                let w = ratio_to_f64(n, den);
                                let ulps = ulp_distance(g.as_inner(), w);
                                chk!(o, ulps <= 1, "C14/duration.total/mismatch", w, g.as_inner());
                            }
                            (Err(we), Err(e)) => chk!(o, e.kind() == kind_of(we), "C14/duration.total/error-kind", rerr_name(we), err_str(&e)),
                            (Ok((n, den)), Err(e)) => o = o.fail("C14/duration.total/unexpected-error", format!("{:e}", ratio_to_f64(n, den)), err_str(&e)),
                            (Err(we), Ok(g)) => o = o.fail("C14/duration.total/accepted", format!("{}Error", rerr_name(we)), format!("{:e}", g.as_inner())),
                        }
                    }
                    _ => {
                        o = o.class("duration.compare");
                        let d2 = match duration_from_dur(&c.dur2) {
                            Ok(d) => d,
                            Err(e) => return o.fail("C14/duration-construct", "valid", err_str(&e)),
                        };
                        let any_date = c.dur.largest_unit().is_date() || c.dur2.largest_unit().is_date();
                        let want: Result<std::cmp::Ordering, RErr> = if fields_eq(&c.dur.to_f64s(), &c.dur2.to_f64s()) {
                            Ok(std::cmp::Ordering::Equal)
                        } else if any_date {
                            match (target, zoned_add(&z, c.t1, &c.dur2, Overflow::Constrain)) {
                                (Ok(a), Ok(b)) => Ok(a.cmp(&b)),
                                (Err(e), _) | (_, Err(e)) => Err(e),
                            }
                        } else {
                            Ok(c.dur.time_ns().cmp(&c.dur2.time_ns()))
                        };
                        match (want, d.compare_with_provider(&d2, rel, &prov)) {
                            (Ok(w), Ok(g)) => chk!(o, g == w, "C14/duration.compare/mismatch", w, g),
                            (Err(we), Err(e)) => chk!(o, e.kind() == kind_of(we), "C14/duration.compare/error-kind", rerr_name(we), err_str(&e)),
                            (Ok(w), Err(e)) => o = o.fail("C14/duration.compare/unexpected-error", format!("{w:?}"), err_str(&e)),
                            (Err(we), Ok(g)) => o = o.fail("C14/duration.compare/accepted", format!("{}Error", rerr_name(we)), format!("{g:?}")),
                        }
                    }
                }
            }
        }
        let _ = near_transition(&z, c.t1, 1);
        o
    }
}

// ------------------------------------------------------------------------------------------
// generators

fn zone_kind() -> BoxedStrategy<ZoneKind> {
    let shaped = shaped_zones();
    prop_oneof![
        1 => (-1439i32..=1439).prop_map(ZoneKind::Fixed),
        6 => syn_zone().prop_map(ZoneKind::Table),
        4 => proptest::sample::select(shaped).prop_map(ZoneKind::Table),
        // real IANA zones end to end through the crate's bundled provider; the oracle uses the zone's full listed
        // TZif table (harness reader); `case()` keeps every instant well before the end of that table
        3 => any::<u16>().prop_map(|zi| {
            let tabs = crate::props::c13::real_tables();
            if tabs.is_empty() {
                ZoneKind::Fixed(0)
            } else {
                let z = &tabs[zi as usize % tabs.len()];
                ZoneKind::Real { name: z.name.clone(), window: z.clone() }
            }
        }),
    ]
    .boxed()
}

fn small_dur() -> BoxedStrategy<Dur> {
    let y = prop_oneof![6 => Just(0i128), 3 => 0i128..=2, 1 => 0i128..=50];
    let mo = prop_oneof![5 => Just(0i128), 4 => 0i128..=13];
    let w = prop_oneof![6 => Just(0i128), 3 => 0i128..=5];
    let d = prop_oneof![3 => Just(0i128), 5 => 0i128..=3, 2 => 0i128..=40, 1 => 0i128..=400];
    let h = prop_oneof![3 => Just(0i128), 5 => 0i128..=30, 1 => 0i128..=100];
    let mi = prop_oneof![5 => Just(0i128), 3 => 0i128..=70, 1 => Just(30i128)];
    let s = prop_oneof![6 => Just(0i128), 2 => 0i128..=70];
    let ns = prop_oneof![6 => Just(0i128), 2 => 0i128..=1_000_000_000i128, 1 => Just(1i128)];
    (prop::bool::ANY, (y, mo, w, d), (h, mi, s, ns))
        .prop_map(|(neg, dd, t)| {
            let mut f = [dd.0, dd.1, dd.2, dd.3, t.0, t.1, t.2, 0, 0, t.3];
            if neg {
                for x in f.iter_mut() {
                    *x = -*x;
                }
            }
            Dur { f }
        })
        .boxed()
}

fn opts() -> BoxedStrategy<(LargestOpt, Option<U>, u32)> {
    (prop_oneof![2 => Just(None), 3 => gen::unit_in(0, 3).prop_map(Some), 3 => gen::unit_in(4, 9).prop_map(Some)], 0usize..64, 0u8..4, 0usize..64)
        .prop_map(|(smallest, li, lk, ii)| {
            let s = smallest.unwrap_or(U::Nanosecond);
            let l = UNITS[li * (s.idx() + 1) / 64];
            let incs: Vec<u32> = match s.max_increment() {
                Some(m) => gen::divisors_below(m).into_iter().map(|x| x as u32).collect(),
                None => vec![1, 1, 1, 1, 1, 1, 2, 3, 5, 10],
            };
            let inc = if smallest.is_none() { 1 } else { incs[ii * incs.len() / 64] };
            let largest = match lk {
                _ if inc > 1 && s.is_date() && lk != 0 => LargestOpt::Unit(s),
                0 => LargestOpt::Absent,
                1 => LargestOpt::Auto,
                _ => LargestOpt::Unit(l),
            };
            (largest, smallest, inc)
        })
        .boxed()
}

pub fn case() -> BoxedStrategy<Case> {
    (zone_kind(), (0usize..64, 0u8..8, -172_800i128..=172_800, 0i128..1_000_000_000), (0u8..8, -400_000i128..=400_000, 0i128..1_000_000_000), 0u8..16, small_dur(), small_dur(), opts(), gen::mode(), (prop::bool::ANY, gen::ns_of_day()))
        .prop_map(|(zone, (ti, place, dsec, dns), (k2, d2sec, d2ns), opk, dur, dur2, (largest, smallest, inc), mode, (reject, tod))| {
            let z = zone.zone();
            let n = z.trans.len();
            let anchor = if n == 0 { 1_500_000_000i128 * S } else { z.trans[ti * n / 64].0 as i128 * S };
            let delta = match place {
                0 => -1,
                1 => 0,
                2 => 1,
                3 => dns,
                4 => dsec * S / 48 + dns,
                _ => dsec * S + dns,
            };
            let t1 = (anchor + delta).clamp(-MAX_INSTANT + 3 * DAY, MAX_INSTANT - 3 * DAY);
            // second instant: near the first (both orders), a few days away, or far
            let t2 = match k2 {
                0 => t1 + d2ns,
                1 => t1 - d2ns,
                2 | 3 => t1 + d2sec * S / 4 + d2ns,
                4 | 5 => t1 + d2sec * S + d2ns,
                6 => t1 + d2sec * S * 300 + d2ns,
                _ => t1 + d2sec * S * 40_000,
            }
            .clamp(-MAX_INSTANT + 3 * DAY, MAX_INSTANT - 3 * DAY);
            // real zone: the oracle only knows the listed table; stay 8 years before its end (durations are cut to
            // < 6 years below) and after 1800
            let is_real = matches!(zone, ZoneKind::Real { .. });
            let (t1, t2, dur, dur2) = if is_real && n >= 3 {
                let hi = z.trans[n - 1].0 as i128 * S - 8 * 366 * DAY;
                let lo = (z.trans[0].0 as i128 * S - 400 * DAY).max(-5_364_662_400i128 * S);
                let hi = hi.max(lo + DAY);
                let cut = |mut d: Dur| {
                    d.f[0] = d.f[0].clamp(-2, 2);
                    d
                };
                let fold = |t: i128| if t < lo || t > hi { lo + (t - lo).rem_euclid(hi - lo) } else { t };
                // anchors near the end of the table fold back to an earlier transition
                let t1f = if t1 > hi { let i = ti * (n - 1) / 64 / 2; z.trans[i].0 as i128 * S + delta } else { t1 };
                (fold(t1f), fold(t2 - t1 + fold(t1f)), cut(dur), cut(dur2))
            } else {
                (t1, t2, dur, dur2)
            };
            let op = [Op::Add, Op::Add, Op::Subtract, Op::Until, Op::Until, Op::Until, Op::Since, Op::Since, Op::StartOfDay, Op::HoursInDay, Op::WithPlainTime, Op::DateOnlyString, Op::DurRound, Op::DurRound, Op::DurTotal, Op::DurCompare][opk as usize];
            Case { zone, op, t1, t2, dur, dur2, largest, smallest, inc, mode, reject, tod }
        })
        .prop_filter("valid durations", |c| c.dur.valid() && c.dur2.valid())
        .boxed()
}

/// until / since / Duration::round relative to a zoned date-time with a time smallest unit, an increment > 1 and a
/// date largest unit: the last partial day is 23 / 25 h (or stranger) long whenever the pair straddles a transition,
/// and a rounding that reaches that length has to be rounded again on the day after (also run by C07)
pub fn rounding_across_days_case() -> BoxedStrategy<Case> {
    (case(), 0usize..16, 0usize..3, proptest::sample::select(vec![U::Day, U::Day, U::Week, U::Month, U::Year]), 0i128..=2, -7_200i128..=7_200)
        .prop_map(|(mut c, ii, oi, largest, days, wiggle)| {
            c.op = [Op::Until, Op::Since, Op::DurRound][oi];
            // smallest unit hour / minute with an increment, or day (increment 1..3) under a week-or-larger largest unit
            let (unit, incs): (U, &[u32]) = match ii % 5 {
                3 => (U::Minute, &[2, 5, 10, 15, 20, 30]),
                4 => (U::Day, &[1, 1, 2, 3]),
                _ => (U::Hour, &[2, 3, 4, 6, 8, 12]),
            };
            let largest = if unit == U::Day && largest == U::Day { U::Week } else { largest };
            c.smallest = Some(unit);
            c.inc = incs[ii % incs.len()];
            c.largest = LargestOpt::Unit(largest);
            // other end: 0..2 local days later plus nearly a whole day (so that the time part is close to the day length)
            c.t2 = (c.t1 + (days * 24 + 23) * 3_600 * S + wiggle * S).clamp(-MAX_INSTANT + 3 * DAY, MAX_INSTANT - 3 * DAY);
            c
        })
        .boxed()
}

pub fn run(ctx: &mut Ctx) {
    ctx.rule = "[plus 100k (thorough 3M) until / since / Duration::round cases with an hour or minute increment > 1, a date largest unit and the other end 23 h +- 2 h after a whole number of days, i.e. a rounded time part that reaches the length of a day that is not 24 h long] zones as in C13 (fixed offsets, synthetic rule tables with shifts from 1 minute to 26 h, tables shaped like New York / Lord Howe / Apia / Dublin / Kolkata / Kiritimati) served through the harness provider, plus every real IANA zone end to end through the crate's bundled provider (oracle table = the zone's listed TZif transitions read by the harness's own reader; instants at least 8 years before the end of the table); instants within +-2 days of a transition (edges +-1 ns) paired with a second instant 0 ns .. decades away in both orders; ops: add/subtract (date units on the wall clock re-resolved compatible, time units exact), until/since with time largest units (exact elapsed, rounded) and date largest units (reference DifferenceZonedDateTime + RoundRelativeDuration on the rule table, plus oracle-free laws: sign-uniform, receiver.add(result) == other, time part shorter than a local day), start_of_day, hours_in_day (the real elapsed length of the local day; on days that are not a whole number of hours long the integer return type cannot carry it: listed finding), with_plain_time, date-only strings, Duration round/total/compare relative to a ZonedDateTime. non-trivial = the pair straddles a transition, the local day is not 24 h, or negative direction with reversed time-of-day order. Plus the zoned part of C02's limits grid (try_new, PlainDate / PlainDateTime to zoned, zoned strings on the first and last representable days +- 4, fixed offsets through the harness provider and four rule-less named zones through the bundled provider at the upper end).".into();
    ctx.assumptions = vec![
        "provider contract as in C13 (tzp.rs)".into(),
        "rule sets for which the specification's own day-correction loop does not converge are unjudged (counted)".into(),
    ];
    ctx.run_prop(&Sub, &case, ctx.tier.pick(500_000, 15_000_000));
    ctx.run_prop(&Sub, &rounding_across_days_case, ctx.tier.pick(100_000, 3_000_000));
    // the generators above stay three days inside the instant range; start of day / wall-clock resolution / strings on
    // the first and last representable local days are C02's limits grid (its zoned part), run here as well
    let lim = crate::props::c02::zoned_limit_cases();
    ctx.run_enum(&crate::props::c02::LimitSub, lim.len() as u64, &|i| lim[i as usize].clone(), true);
}

pub fn replay(ctx: &mut Ctx, sub: &str, case: &Value) -> bool {
    match sub {
        "zoned" => ctx.replay_case(&Sub, case),
        "limits" => ctx.replay_case(&crate::props::c02::LimitSub, case),
        _ => false,
    }
}
