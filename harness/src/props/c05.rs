//! C05 - PlainDateTime arithmetic, difference and rounding compose date and exact time.

use crate::chk;
use crate::conv::*;
use crate::gen;
use crate::refm::civil::*;
use crate::refm::dateadd::*;
use crate::refm::dur::{reported_valid, Dur, U};
use crate::run::*;
use proptest::prelude::*;
use serde::{Deserialize, Serialize};
use serde_json::Value;
use temporal_rs::error::ErrorKind;

const DAY: i128 = NS_PER_DAY;

#[derive(Serialize, Deserialize, Debug, Clone)]
pub struct AddCase {
    pub day: i64,
    pub ns: i128,
    pub dur: Dur,
    pub reject: bool,
    pub subtract: bool,
}
pub struct AddSub;
impl SubCheck for AddSub {
    type Case = AddCase;
    fn name(&self) -> &'static str {
        "add"
    }
    fn eval(&self, c: &AddCase) -> Outcome {
        let a = Dt { day: c.day, ns: c.ns };
        let ov = if c.reject { Overflow::Reject } else { Overflow::Constrain };
        let eff = if c.subtract { c.dur.negated() } else { c.dur };
        let want = dt_add(a, &eff, ov);
        let t = c.ns + eff.time_ns();
        let carry = t.div_euclid(DAY);
        let ymd = Ymd::from_n(c.day);
        let mut o = Outcome::pass();
        let near_limit = match want {
            Ok(r) => r.day < MIN_DAY + 2 || r.day > MAX_DAY - 2,
            Err(_) => true,
        };
        o = o.nontrivial(carry != 0 || ymd.d >= 29 || near_limit);
        if carry != 0 {
            o = o.class("carry-across-midnight");
        }
        if eff.time_ns().abs() >= (1i128 << 63) {
            o = o.class("time>=2^63ns");
        }
        if near_limit {
            o = o.class("near-limit-or-out");
        }
        if ymd.d >= 29 && (eff.f[0] != 0 || eff.f[1] != 0) {
            o = o.class("month-end+ym");
        }
        let p = plain_datetime(a).expect("valid datetime");
        let d = match duration_from_dur(&c.dur) {
            Ok(d) => d,
            Err(e) => return o.fail("C05/add/duration-construct", "valid duration", err_str(&e)),
        };
        let got = if c.subtract { p.subtract(&d, Some(overflow(ov))) } else { p.add(&d, Some(overflow(ov))) };
        match (want, got) {
            (Ok(w), Ok(g)) => chk!(o, dt_of(&g) == w, "C05/add/mismatch", w, dt_of(&g)),
            (Err(_), Err(e)) => chk!(o, e.kind() == ErrorKind::Range, "C05/add/error-kind", "Range", err_str(&e)),
            (Ok(w), Err(e)) => o = o.fail("C05/add/unexpected-error", format!("{w:?}"), err_str(&e)),
            (Err(_), Ok(g)) => o = o.fail("C05/add/accepted", "RangeError", format!("{:?}", dt_of(&g))),
        }
        o
    }
}

#[derive(Serialize, Deserialize, Debug, Clone)]
pub struct DiffCase {
    pub a_day: i64,
    pub a_ns: i128,
    pub b_day: i64,
    pub b_ns: i128,
    pub largest: U,
}
pub struct DiffSub;
impl SubCheck for DiffSub {
    type Case = DiffCase;
    fn name(&self) -> &'static str {
        "until"
    }
    fn eval(&self, c: &DiffCase) -> Outcome {
        let a = Dt { day: c.a_day, ns: c.a_ns };
        let b = Dt { day: c.b_day, ns: c.b_ns };
        let want = dt_until(a, b, c.largest);
        let mut o = Outcome::pass();
        let ds = (b.day - a.day).signum();
        let ts = (b.ns - a.ns).signum() as i64;
        let opposite = ds != 0 && ts == -ds;
        let ya = Ymd::from_n(a.day);
        o = o.nontrivial(opposite || ya.d >= 29 || (a.day == b.day && a.ns != b.ns));
        if opposite {
            o = o.class("time-order-opposite-to-date-order");
        }
        if a.day == b.day {
            o = o.class("same-date");
        }
        if ya.d >= 29 {
            o = o.class("start-day>=29");
        }
        if b.abs_ns() < a.abs_ns() {
            o = o.class("negative");
        }
        o = o.class(if c.largest.is_date() { "date-largest" } else { "time-largest" });
        let (pa, pb) = (plain_datetime(a).expect("valid"), plain_datetime(b).expect("valid"));
        let st = diff_settings(Some(unit(c.largest)), None, None, None);
        let wf = want.to_f64s();
        let until = match pa.until(&pb, st) {
            Ok(u) => u,
            Err(e) => {
                // a balanced result whose float fields are not a valid duration is a RangeError
                if !reported_valid(&want) && e.kind() == ErrorKind::Range {
                    return o.class("leaves-duration-range");
                }
                return o.fail("C05/until/error", format!("{wf:?}"), err_str(&e));
            }
        };
        let got = duration_fields(&until);
        chk!(o, fields_eq(&got, &wf), "C05/until/mismatch", wf, got);
        // laws: sign uniform; time part shorter than a day when largest is a date unit
        let s = (b.abs_ns() - a.abs_ns()).signum() as f64;
        chk!(o, got.iter().all(|v| *v == 0.0 || v.signum() == s), "C05/until/not-sign-uniform", s, got);
        if c.largest.is_date() {
            let tns: f64 = got[4] * 3.6e12 + got[5] * 6e10 + got[6] * 1e9 + got[7] * 1e6 + got[8] * 1e3 + got[9];
            chk!(o, tns.abs() < 8.64e13, "C05/until/time-part>=24h", "<24h", tns);
        }
        // a.add(until) == b (exact only when no float field lost precision)
        let exact = want.to_f64s().iter().zip(want.f.iter()).all(|(f, i)| *f as i128 == *i);
        if exact {
            match pa.add(&until, None) {
                Ok(r) => chk!(o, dt_of(&r) == b, "C05/law/add-until", b, dt_of(&r)),
                Err(e) => o = o.fail("C05/law/add-until/error", format!("{b:?}"), err_str(&e)),
            }
        }
        match pa.since(&pb, st) {
            Ok(si) => {
                let neg = duration_fields(&until.negated());
                let gs = duration_fields(&si);
                chk!(o, fields_eq(&gs, &neg), "C05/law/since-negated", neg, gs);
            }
            Err(e) => o = o.fail("C05/law/since/error", "Ok", err_str(&e)),
        }
        o
    }
}

/// durations for date-time add: date fields as in C04, time fields up to 2^53 s
fn dt_dur() -> BoxedStrategy<Dur> {
    let df = |max: i128| -> BoxedStrategy<i128> { prop_oneof![6 => Just(0i128), 4 => 0i128..=3, 2 => 0i128..=40, 2 => 0i128..=max, 1 => (-2i128..=2).prop_map(|k| (1i128 << 31) + k)].boxed() };
    (prop::bool::ANY, df(560_000), df(6_000_000), df(29_000_000), df(210_000_000), gen::valid_time_dur())
        .prop_map(|(neg, y, mo, w, d, t)| {
            let mut f = t.f;
            let tn = t.sign() < 0;
            if tn != neg {
                for x in f.iter_mut() {
                    *x = -*x;
                }
            }
            let s = if neg { -1 } else { 1 };
            f[0] = s * y;
            f[1] = s * mo;
            f[2] = s * w;
            f[3] = s * d;
            Dur { f }
        })
        .prop_filter("valid", |d| d.valid())
        .boxed()
}

pub fn add_case() -> BoxedStrategy<AddCase> {
    (gen::datetime(), dt_dur(), prop::bool::ANY, prop::bool::weighted(0.3)).prop_map(|((day, ns), dur, reject, subtract)| AddCase { day, ns, dur, reject, subtract }).boxed()
}
pub fn diff_case() -> BoxedStrategy<DiffCase> {
    (gen::day_pair(), gen::ns_of_day(), gen::ns_of_day(), gen::unit_in(0, 9), 0u8..4)
        .prop_map(|((a, b), x, y, largest, k)| {
            // k: 0 as drawn, 1 force time order opposite to date order, 2 same date, 3 times within a ns
            let (mut a_ns, mut b_ns, mut bd) = (x, y, b);
            match k {
                1 => {
                    let (lo, hi) = (x.min(y), x.max(y));
                    if b >= a {
                        a_ns = hi;
                        b_ns = lo;
                    } else {
                        a_ns = lo;
                        b_ns = hi;
                    }
                }
                2 => bd = a,
                3 => b_ns = (a_ns + 1).min(DAY - 1),
                _ => {}
            }
            DiffCase { a_day: a, a_ns, b_day: bd, b_ns, largest }
        })
        .prop_filter("in range", |c| datetime_in_range(c.a_day, c.a_ns) && datetime_in_range(c.b_day, c.b_ns))
        .boxed()
}

// ------------------------------------------------------------------------------------------
// model-free laws on the less travelled entry points

#[derive(Serialize, Deserialize, Debug, Clone)]
pub struct LawCase {
    pub a_day: i64,
    pub a_ns: i128,
    pub b_day: i64,
    pub b_ns: i128,
    /// unit for the difference (day..nanosecond) resp. the rounding (day..nanosecond)
    pub unit: U,
    pub inc: u32,
    /// index into LAW_CALENDARS
    pub cal: u8,
}
pub const LAW_CALENDARS: [&str; 8] = ["gregory", "japanese", "hebrew", "persian", "roc", "coptic", "indian", "buddhist"];
pub struct LawSub;
impl SubCheck for LawSub {
    type Case = LawCase;
    fn name(&self) -> &'static str {
        "laws"
    }
    fn eval(&self, c: &LawCase) -> Outcome {
        use std::str::FromStr;
        let mut o = Outcome::pass().nontrivial(true);
        let (Ok(a), Ok(b)) = (plain_datetime(Dt { day: c.a_day, ns: c.a_ns }), plain_datetime(Dt { day: c.b_day, ns: c.b_ns })) else {
            return o.fail("C05/laws/construct", "Ok", "Err");
        };
        // (1) a difference in days or time units does not involve the calendar: two date-times carrying the same
        //     non-ISO calendar differ by exactly what their ISO twins differ by
        let cal = temporal_rs::Calendar::from_str(LAW_CALENDARS[c.cal as usize % LAW_CALENDARS.len()]).expect("calendar");
        let (Ok(ac), Ok(bc)) = (a.with_calendar(cal.clone()), b.with_calendar(cal)) else {
            return o.fail("C05/laws/with_calendar", "Ok", "Err");
        };
        let st = diff_settings(Some(unit(c.unit)), None, None, None);
        for since in [false, true] {
            let (iso_r, cal_r) = if since { (a.since(&b, st), ac.since(&bc, st)) } else { (a.until(&b, st), ac.until(&bc, st)) };
            let nm = if since { "since" } else { "until" };
            match (iso_r, cal_r) {
                (Ok(x), Ok(y)) => chk!(o, duration_fields(&x) == duration_fields(&y), format!("C05/laws/{nm}/calendar-dependent"), format!("{:?}", duration_fields(&x)), format!("{:?}", duration_fields(&y))),
                (Err(x), Err(y)) => chk!(o, x.kind() == y.kind(), format!("C05/laws/{nm}/calendar-dependent-error-kind"), kind_name(x.kind()), kind_name(y.kind())),
                (x, y) => {
                    o = o.fail(
                        format!("C05/laws/{nm}/calendar-dependent-verdict"),
                        format!("{:?}", x.map(|d| duration_fields(&d)).map_err(|e| err_str(&e))),
                        format!("{:?}", y.map(|d| duration_fields(&d)).map_err(|e| err_str(&e))),
                    )
                }
            }
        }
        o = o.class("law:day/time difference independent of the calendar");
        // (2) the rounding mode that applies when none is given is halfExpand
        let mut opts = temporal_rs::options::RoundingOptions::default();
        opts.smallest_unit = Some(unit(c.unit));
        opts.increment = temporal_rs::options::RoundingIncrement::try_new(c.inc).ok();
        let mut explicit = opts;
        explicit.rounding_mode = Some(temporal_rs::options::RoundingMode::HalfExpand);
        match (a.round(opts), a.round(explicit)) {
            (Ok(x), Ok(y)) => chk!(o, dt_of(&x) == dt_of(&y), "C05/laws/round/default-mode-is-not-halfExpand", format!("{:?}", dt_of(&y)), format!("{:?}", dt_of(&x))),
            (Err(x), Err(y)) => chk!(o, x.kind() == y.kind(), "C05/laws/round/default-mode-error-kind", kind_name(y.kind()), kind_name(x.kind())),
            (x, y) => o = o.fail("C05/laws/round/default-mode-verdict", format!("{:?}", y.map(|d| dt_of(&d)).map_err(|e| err_str(&e))), format!("{:?}", x.map(|d| dt_of(&d)).map_err(|e| err_str(&e)))),
        }
        o = o.class("law:default rounding mode");
        // (3) rounding does not touch the calendar: the non-ISO twin rounds to the same ISO fields and keeps its calendar
        match (a.round(explicit), ac.round(explicit)) {
            (Ok(x), Ok(y)) => {
                chk!(o, dt_of(&x) == dt_of(&y), "C05/laws/round/calendar-dependent-value", format!("{:?}", dt_of(&x)), format!("{:?}", dt_of(&y)));
                chk!(o, y.calendar().identifier() == ac.calendar().identifier(), "C05/laws/round/calendar-lost", ac.calendar().identifier(), y.calendar().identifier());
            }
            (Err(x), Err(y)) => chk!(o, x.kind() == y.kind(), "C05/laws/round/calendar-dependent-error-kind", kind_name(x.kind()), kind_name(y.kind())),
            (x, y) => o = o.fail("C05/laws/round/calendar-dependent-verdict", format!("{:?}", x.map(|d| dt_of(&d)).map_err(|e| err_str(&e))), format!("{:?}", y.map(|d| dt_of(&d)).map_err(|e| err_str(&e)))),
        }
        // the same for add: result keeps the calendar
        let one_day = duration_from_f64s(&[0.0, 0.0, 0.0, 1.0, 0.0, 0.0, 0.0, 0.0, 0.0, 1.0]).expect("duration");
        if let (Ok(x), Ok(y)) = (a.add(&one_day, None), ac.add(&one_day, None)) {
            chk!(o, dt_of(&x) == dt_of(&y) && y.calendar().identifier() == ac.calendar().identifier(), "C05/laws/add/calendar-dependent", format!("{:?} {}", dt_of(&x), ac.calendar().identifier()), format!("{:?} {}", dt_of(&y), y.calendar().identifier()));
        }
        o.class("law:rounding and adding keep the calendar")
    }
}

pub fn law_case() -> BoxedStrategy<LawCase> {
    // ISO years 1..=9000 keep every calendar of the list cheap and inside its era tables
    let day = to_days(1, 1, 1)..=to_days(9000, 12, 31);
    (day, gen::ns_of_day(), -800i64..=800, gen::ns_of_day(), gen::unit_in(3, 9), 0usize..64, 0u8..8, prop::bool::weighted(0.5))
        .prop_map(|(a_day, a_ns, dd, b_ns, unit, ii, cal, tie)| {
            let incs: Vec<u32> = match unit.max_increment() {
                Some(m) => gen::divisors_below(m).into_iter().map(|x| x as u32).collect(),
                None => vec![1],
            };
            let inc = incs[ii * incs.len() / 64];
            // half of the receivers sit exactly on a tie of (unit, increment) counted from midnight
            let q = inc as i128 * unit.ns();
            let a_ns = if tie && q % 2 == 0 && unit != U::Day { (a_ns - a_ns.rem_euclid(q) + q / 2).min(DAY - 1) } else if tie && unit == U::Day { DAY / 2 } else { a_ns };
            LawCase { a_day, a_ns, b_day: a_day + dd, b_ns, unit, inc, cal }
        })
        .boxed()
}

pub fn run(ctx: &mut Ctx) {
    ctx.rule = "add/subtract: generated (date-time at ns resolution, valid duration with date fields up to 2^31+-k and time fields up to 2^53 s, overflow) against exact-carry AddDateTime in unbounded integers; until/since: generated pairs (classes: time-of-day order opposite to date order, same date, 1 ns apart, month ends) x all ten largest units against DifferenceISODateTime + laws (sign-uniform, time part < 24 h for date largest units, a.add(a.until(b)) == b, since == -until); round: the PlainDateTime.round cases of C07 (multiples counted within the day, carry into the next day, RangeError when the carry leaves the range); laws: a day / time-unit difference of two date-times carrying the same non-ISO calendar (8 calendars) equals that of their ISO twins, and round() without a rounding mode equals round() with halfExpand (half of the receivers exactly on a tie). non-trivial = time order opposite to date order, carry across midnight, start day >= 29, same date, or within 2 days of a limit.".into();
    let t = ctx.tier;
    ctx.run_prop(&AddSub, &add_case, t.pick(800_000, 30_000_000));
    // results on and next to the first / last representable date-time (incl. exactly the excluded lower bound
    // -271821-04-19T00:00 and the nanosecond after it): C02's boundary generator for this sub-check
    ctx.run_prop(&AddSub, &crate::props::c02::datetime_add_boundary, t.pick(200_000, 5_000_000));
    ctx.run_prop(&DiffSub, &diff_case, t.pick(800_000, 30_000_000));
    ctx.run_prop(&crate::props::c07::PubSub, &crate::props::c07::dt_round_case, t.pick(400_000, 10_000_000));
    ctx.run_prop(&LawSub, &law_case, t.pick(100_000, 3_000_000));
}

pub fn replay(ctx: &mut Ctx, sub: &str, case: &Value) -> bool {
    match sub {
        "add" => ctx.replay_case(&AddSub, case),
        "until" => ctx.replay_case(&DiffSub, case),
        "public" => ctx.replay_case(&crate::props::c07::PubSub, case),
        "laws" => ctx.replay_case(&LawSub, case),
        _ => false,
    }
}
