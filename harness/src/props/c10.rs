//! C10 - each operation accepts exactly the option combinations Temporal allows; omitted options
//! resolve to the specified defaults. Complete enumeration of the cell matrix against the
//! table-driven oracle in `c10/options.rs` (DESIGN.md section 6 "C10", Appendix A).

pub mod options;

use crate::chk;
use crate::conv::*;
use crate::refm::civil::*;
use crate::refm::dateadd::{Dt, Ymd};
use crate::refm::dur::{Dur, U, UNITS};
use crate::refm::round::{Mode, MODES};
use crate::refm::tz::Zone;
use crate::run::*;
use crate::tzp::TableProvider;
use options::*;
use serde::{Deserialize, Serialize};
use serde_json::{json, Value};
use std::collections::BTreeMap;
use std::sync::OnceLock;
use temporal_rs::options::{ArithmeticOverflow, RelativeTo, ToStringRoundingOptions, Unit};
use temporal_rs::parsers::Precision;
use temporal_rs::{Instant, PlainYearMonth, TimeZone, ZonedDateTime};

const DAY: i64 = 86_400_000_000_000;

/// increments: the covering set of DESIGN.md (1, divisors and non-divisors of 24/60/1000, the maxima
/// and maxima+1, 86400 = seconds per day, 1e9 = largest legal increment) plus the two remaining
/// inclusive maxima of Instant.round (1440 minutes, 86400000 ms); `None` = absent
const INCS: [Option<u32>; 29] = [
    None,
    Some(1),
    Some(2),
    Some(3),
    Some(4),
    Some(5),
    Some(6),
    Some(7),
    Some(8),
    Some(10),
    Some(12),
    Some(15),
    Some(20),
    Some(24),
    Some(25),
    Some(30),
    Some(50),
    Some(59),
    Some(60),
    Some(100),
    Some(250),
    Some(500),
    Some(999),
    Some(1000),
    Some(1001),
    Some(1440),
    Some(86_400),
    Some(86_400_000),
    Some(1_000_000_000),
];

fn all_uopts() -> Vec<UOpt> {
    let mut v = vec![UOpt::Absent, UOpt::Auto];
    v.extend(UNITS.iter().map(|u| UOpt::U(*u)));
    v
}
fn all_modes() -> Vec<Option<Mode>> {
    let mut v = vec![None];
    v.extend(MODES.iter().map(|m| Some(*m)));
    v
}

// ------------------------------------------------------------------------------------------
// operations

#[derive(Clone, Copy, Debug, PartialEq, Eq, Serialize, Deserialize, Hash)]
pub enum Op {
    DateUntil,
    DateSince,
    DateTimeUntil,
    DateTimeSince,
    TimeUntil,
    TimeSince,
    YearMonthUntil,
    YearMonthSince,
    InstantUntil,
    InstantSince,
    ZonedUtcUntil,
    ZonedUtcSince,
    ZonedRuleUntil,
    ZonedRuleSince,
    /// Duration::round_with_provider, duration without calendar units, no relativeTo
    DurationRound,
    /// ... duration with calendar units, PlainDate relativeTo
    DurationRoundRel,
    /// ... duration with calendar units, no relativeTo (every cell must be rejected)
    DurationRoundCalNoRel,
    DurationTotal,
    DurationTotalRel,
    DurationTotalCalNoRel,
    TimeRound,
    DateTimeRound,
    InstantRound,
}

pub const OPS: [Op; 23] = [
    Op::DateUntil,
    Op::DateSince,
    Op::DateTimeUntil,
    Op::DateTimeSince,
    Op::TimeUntil,
    Op::TimeSince,
    Op::YearMonthUntil,
    Op::YearMonthSince,
    Op::InstantUntil,
    Op::InstantSince,
    Op::ZonedUtcUntil,
    Op::ZonedUtcSince,
    Op::ZonedRuleUntil,
    Op::ZonedRuleSince,
    Op::DurationRound,
    Op::DurationRoundRel,
    Op::DurationRoundCalNoRel,
    Op::DurationTotal,
    Op::DurationTotalRel,
    Op::DurationTotalCalNoRel,
    Op::TimeRound,
    Op::DateTimeRound,
    Op::InstantRound,
];

impl Op {
    pub fn name(self) -> &'static str {
        match self {
            Op::DateUntil => "PlainDate.until",
            Op::DateSince => "PlainDate.since",
            Op::DateTimeUntil => "PlainDateTime.until",
            Op::DateTimeSince => "PlainDateTime.since",
            Op::TimeUntil => "PlainTime.until",
            Op::TimeSince => "PlainTime.since",
            Op::YearMonthUntil => "PlainYearMonth.until",
            Op::YearMonthSince => "PlainYearMonth.since",
            Op::InstantUntil => "Instant.until",
            Op::InstantSince => "Instant.since",
            Op::ZonedUtcUntil => "ZonedDateTime[UTC].until",
            Op::ZonedUtcSince => "ZonedDateTime[UTC].since",
            Op::ZonedRuleUntil => "ZonedDateTime[rule-zone].until",
            Op::ZonedRuleSince => "ZonedDateTime[rule-zone].since",
            Op::DurationRound => "Duration.round",
            Op::DurationRoundRel => "Duration.round[relativeTo]",
            Op::DurationRoundCalNoRel => "Duration.round[calendar-units,no-relativeTo]",
            Op::DurationTotal => "Duration.total",
            Op::DurationTotalRel => "Duration.total[relativeTo]",
            Op::DurationTotalCalNoRel => "Duration.total[calendar-units,no-relativeTo]",
            Op::TimeRound => "PlainTime.round",
            Op::DateTimeRound => "PlainDateTime.round",
            Op::InstantRound => "Instant.round",
        }
    }
    /// (type, is_since, the matching `until` operation)
    pub fn diff(self) -> Option<(DiffType, bool, Op)> {
        Some(match self {
            Op::DateUntil => (DiffType::PlainDate, false, Op::DateUntil),
            Op::DateSince => (DiffType::PlainDate, true, Op::DateUntil),
            Op::DateTimeUntil => (DiffType::PlainDateTime, false, Op::DateTimeUntil),
            Op::DateTimeSince => (DiffType::PlainDateTime, true, Op::DateTimeUntil),
            Op::TimeUntil => (DiffType::PlainTime, false, Op::TimeUntil),
            Op::TimeSince => (DiffType::PlainTime, true, Op::TimeUntil),
            Op::YearMonthUntil => (DiffType::PlainYearMonth, false, Op::YearMonthUntil),
            Op::YearMonthSince => (DiffType::PlainYearMonth, true, Op::YearMonthUntil),
            Op::InstantUntil => (DiffType::Instant, false, Op::InstantUntil),
            Op::InstantSince => (DiffType::Instant, true, Op::InstantUntil),
            Op::ZonedUtcUntil => (DiffType::ZonedDateTime, false, Op::ZonedUtcUntil),
            Op::ZonedUtcSince => (DiffType::ZonedDateTime, true, Op::ZonedUtcUntil),
            Op::ZonedRuleUntil => (DiffType::ZonedDateTime, false, Op::ZonedRuleUntil),
            Op::ZonedRuleSince => (DiffType::ZonedDateTime, true, Op::ZonedRuleUntil),
            _ => return None,
        })
    }
    fn round_type(self) -> Option<RoundType> {
        match self {
            Op::TimeRound => Some(RoundType::PlainTime),
            Op::DateTimeRound => Some(RoundType::PlainDateTime),
            Op::InstantRound => Some(RoundType::Instant),
            _ => None,
        }
    }
    fn is_duration_round(self) -> bool {
        matches!(self, Op::DurationRound | Op::DurationRoundRel | Op::DurationRoundCalNoRel)
    }
    fn is_duration_total(self) -> bool {
        matches!(self, Op::DurationTotal | Op::DurationTotalRel | Op::DurationTotalCalNoRel)
    }
    /// operation class used in narrow finding signatures: which option-resolution routine of the
    /// specification the operation goes through
    fn class(self) -> &'static str {
        match self.diff() {
            Some((DiffType::PlainDate, ..)) | Some((DiffType::PlainYearMonth, ..)) => "diff[date-group]",
            Some((DiffType::PlainTime, ..)) | Some((DiffType::Instant, ..)) => "diff[time-group]",
            Some(_) => "diff[datetime-group]",
            None => {
                if self.is_duration_round() {
                    "Duration.round"
                } else if self.is_duration_total() {
                    "Duration.total"
                } else {
                    self.name()
                }
            }
        }
    }
}

// ------------------------------------------------------------------------------------------
// operands

/// One operand set. `t0`, `t1`: two points as nanoseconds since 1970-01-01T00:00 (read as a wall
/// reading for the plain types and as epoch nanoseconds for Instant/ZonedDateTime; PlainDate uses the
/// day, PlainTime the time of day, PlainYearMonth the year and month). `dur`: the duration operand of
/// the Duration operations (the no-relativeTo variants use it with years/months/weeks set to 0); its
/// relativeTo is the date of `t0`.
#[derive(Clone, Copy, Debug, PartialEq, Eq, Serialize, Deserialize)]
pub struct Opnd {
    pub t0: i64,
    pub t1: i64,
    pub dur: [i64; 10],
}

fn wall(y: i64, m: u8, d: u8, h: i64, mi: i64, s: i64, ns: i64) -> i64 {
    to_days(y, m, d) * DAY + ((h * 60 + mi) * 60 + s) * 1_000_000_000 + ns
}

/// The fixed mid-range operand sets. First two: 2019-03-14T01:02:03.004005006 and
/// 2024-12-31T17:42:38.571683947 (5 y 9 mo 17 d 16 h 40 min 35.567678941 s apart: the remainder
/// below every unit is non-zero and above one half, so trunc / halfExpand / ceil / floor all give
/// different answers at every smallestUnit), forwards and backwards.
pub fn fixed_operands() -> Vec<Opnd> {
    let a = wall(2019, 3, 14, 1, 2, 3, 4_005_006);
    let b = wall(2024, 12, 31, 17, 42, 38, 571_683_947);
    let dur = [5, 9, 2, 3, 16, 40, 35, 567, 678, 941];
    let neg = dur.map(|x: i64| -x);
    // + the same day at two times (PlainDate / PlainYearMonth operands are equal: zero result before any
    //   rounding) and two days of the same month (only the PlainYearMonth operands are equal)
    let same_day = wall(2019, 3, 14, 17, 42, 38, 571_683_947);
    let same_month = wall(2019, 3, 30, 17, 42, 38, 571_683_947);
    vec![
        Opnd { t0: a, t1: b, dur },
        Opnd { t0: b, t1: a, dur: neg },
        Opnd { t0: a, t1: same_day, dur: [0, 0, 0, 0, 16, 40, 35, 567, 678, 941] },
        Opnd { t0: same_month, t1: a, dur: [0, 0, -2, -2, -16, -40, -35, -567, -678, -941] },
    ]
}

fn day_of(t: i64) -> i64 {
    t.div_euclid(DAY)
}
fn ns_of(t: i64) -> i64 {
    t.rem_euclid(DAY)
}

fn rule_zone() -> Zone {
    // a -05:00 zone with one-hour daylight saving 1990..=2050: +1 h on March 10 07:00Z, back on
    // November 3 06:00Z (fixed dates, so the table is obviously what it says)
    let mut trans = vec![];
    for y in 1990..=2050i64 {
        trans.push((to_days(y, 3, 10) * 86_400 + 7 * 3600, -4 * 3600));
        trans.push((to_days(y, 11, 3) * 86_400 + 6 * 3600, -5 * 3600));
    }
    Zone { name: "Test/Rule".into(), initial: -5 * 3600, trans }
}

fn provider() -> &'static TableProvider {
    static P: OnceLock<TableProvider> = OnceLock::new();
    P.get_or_init(|| TableProvider::new(vec![rule_zone()]))
}
fn tz_utc() -> TimeZone {
    TimeZone::IanaIdentifier("UTC".into())
}
fn tz_rule() -> TimeZone {
    TimeZone::IanaIdentifier("Test/Rule".into())
}

// ------------------------------------------------------------------------------------------
// execution

#[derive(Clone, Debug, PartialEq)]
pub enum Val {
    D([f64; 10]),
    N(i128),
    F(f64),
    S(String),
}
impl Val {
    fn same(&self, o: &Val) -> bool {
        match (self, o) {
            (Val::D(a), Val::D(b)) => fields_eq(a, b),
            (a, b) => a == b,
        }
    }
    fn negated(&self) -> Val {
        match self {
            Val::D(a) => Val::D(a.map(|x| -x)),
            v => v.clone(),
        }
    }
}

#[derive(Clone, Debug, PartialEq)]
pub enum Res {
    Ok(Val),
    Err(&'static str, String),
    /// normalised location (`src/...:line`), message
    Panic(String, String),
}
impl Res {
    fn label(&self) -> String {
        match self {
            Res::Ok(_) => "Ok".into(),
            Res::Err(k, _) => (*k).to_string(),
            Res::Panic(loc, _) => format!("panic@{loc}"),
        }
    }
    fn show(&self) -> String {
        match self {
            Res::Ok(v) => format!("Ok({v:?})"),
            Res::Err(k, m) => format!("Err({k}: {m})"),
            Res::Panic(loc, m) => format!("panic@{loc}: {m}"),
        }
    }
}

fn norm_loc(p: &str) -> (String, String) {
    // "panic@<loc>: msg"; keep the path from its last "src/" on so that the location does not depend
    // on where the crate's sources live
    let rest = p.strip_prefix("panic@").unwrap_or(p);
    let (loc, msg) = match rest.find(": ") {
        Some(i) => (&rest[..i], &rest[i + 2..]),
        None => (rest, ""),
    };
    let loc = match loc.rfind("src/") {
        Some(i) => &loc[i..],
        None => loc,
    };
    (loc.to_string(), msg.to_string())
}

fn uo(u: UOpt) -> Option<Unit> {
    match u {
        UOpt::Absent => None,
        UOpt::Auto => Some(Unit::Auto),
        UOpt::U(x) => Some(unit(x)),
    }
}

fn dur_fields(op: Op, o: &Opnd) -> [i64; 10] {
    let mut f = o.dur;
    if matches!(op, Op::DurationRound | Op::DurationTotal) {
        f[0] = 0;
        f[1] = 0;
        f[2] = 0;
    }
    f
}
fn existing_largest(op: Op, o: &Opnd) -> U {
    let f = dur_fields(op, o);
    Dur { f: f.map(|x| x as i128) }.largest_unit()
}

fn run_op(op: Op, l: UOpt, s: UOpt, inc: Option<u32>, m: Option<Mode>, o: &Opnd) -> temporal_rs::TemporalResult<Val> {
    let dval = |d: temporal_rs::Duration| Val::D(duration_fields(&d));
    let ds = || diff_settings(uo(l), uo(s), inc, m.map(mode));
    let ro = || round_options(uo(l), uo(s), inc, m.map(mode));
    let (d0, d1, n0, n1) = (day_of(o.t0), day_of(o.t1), ns_of(o.t0), ns_of(o.t1));
    match op {
        Op::DateUntil | Op::DateSince => {
            let a = plain_date(Ymd::from_n(d0)).expect("operand");
            let b = plain_date(Ymd::from_n(d1)).expect("operand");
            if op == Op::DateSince { a.since(&b, ds()) } else { a.until(&b, ds()) }.map(dval)
        }
        Op::DateTimeUntil | Op::DateTimeSince => {
            let a = plain_datetime(Dt { day: d0, ns: n0 as i128 }).expect("operand");
            let b = plain_datetime(Dt { day: d1, ns: n1 as i128 }).expect("operand");
            if op == Op::DateTimeSince { a.since(&b, ds()) } else { a.until(&b, ds()) }.map(dval)
        }
        Op::TimeUntil | Op::TimeSince => {
            let a = plain_time(n0 as i128).expect("operand");
            let b = plain_time(n1 as i128).expect("operand");
            if op == Op::TimeSince { a.since(&b, ds()) } else { a.until(&b, ds()) }.map(dval)
        }
        Op::YearMonthUntil | Op::YearMonthSince => {
            let (ya, yb) = (Ymd::from_n(d0), Ymd::from_n(d1));
            let a = PlainYearMonth::new_with_overflow(ya.y as i32, ya.m, None, iso(), ArithmeticOverflow::Reject).expect("operand");
            let b = PlainYearMonth::new_with_overflow(yb.y as i32, yb.m, None, iso(), ArithmeticOverflow::Reject).expect("operand");
            if op == Op::YearMonthSince { a.since(&b, ds()) } else { a.until(&b, ds()) }.map(dval)
        }
        Op::InstantUntil | Op::InstantSince => {
            let a = Instant::try_new(o.t0 as i128).expect("operand");
            let b = Instant::try_new(o.t1 as i128).expect("operand");
            if op == Op::InstantSince { a.since(&b, ds()) } else { a.until(&b, ds()) }.map(dval)
        }
        Op::ZonedUtcUntil | Op::ZonedUtcSince | Op::ZonedRuleUntil | Op::ZonedRuleSince => {
            let tz = if matches!(op, Op::ZonedUtcUntil | Op::ZonedUtcSince) { tz_utc() } else { tz_rule() };
            let a = ZonedDateTime::try_new(o.t0 as i128, iso(), tz.clone()).expect("operand");
            let b = ZonedDateTime::try_new(o.t1 as i128, iso(), tz).expect("operand");
            if matches!(op, Op::ZonedUtcSince | Op::ZonedRuleSince) {
                a.since_with_provider(&b, ds(), provider())
            } else {
                a.until_with_provider(&b, ds(), provider())
            }
            .map(dval)
        }
        Op::DurationRound | Op::DurationRoundRel | Op::DurationRoundCalNoRel => {
            let f = dur_fields(op, o).map(|x| x as f64);
            let d = duration_from_f64s(&f).expect("operand");
            let rel = if op == Op::DurationRoundRel { Some(RelativeTo::PlainDate(plain_date(Ymd::from_n(d0)).expect("operand"))) } else { None };
            d.round_with_provider(ro(), rel, provider()).map(dval)
        }
        Op::DurationTotal | Op::DurationTotalRel | Op::DurationTotalCalNoRel => {
            let f = dur_fields(op, o).map(|x| x as f64);
            let d = duration_from_f64s(&f).expect("operand");
            let rel = if op == Op::DurationTotalRel { Some(RelativeTo::PlainDate(plain_date(Ymd::from_n(d0)).expect("operand"))) } else { None };
            let u = uo(s).expect("total needs a unit");
            d.total_with_provider(u, rel, provider()).map(|x| Val::F(x.as_inner()))
        }
        Op::TimeRound => {
            let a = plain_time(n0 as i128).expect("operand");
            let u = uo(s).expect("PlainTime::round needs a unit");
            a.round(u, inc.map(|i| i as f64), m.map(mode)).map(|t| Val::N(time_ns(&t)))
        }
        Op::DateTimeRound => {
            let a = plain_datetime(Dt { day: d0, ns: n0 as i128 }).expect("operand");
            a.round(ro()).map(|p| {
                let dt = dt_of(&p);
                Val::N(dt.day as i128 * DAY as i128 + dt.ns)
            })
        }
        Op::InstantRound => {
            let a = Instant::try_new(o.t0 as i128).expect("operand");
            a.round(ro()).map(|i| Val::N(i.as_i128()))
        }
    }
}

fn to_res(r: Result<temporal_rs::TemporalResult<Val>, String>) -> Res {
    match r {
        Ok(Ok(v)) => Res::Ok(v),
        Ok(Err(e)) => Res::Err(kind_name(e.kind()), e.message().to_string()),
        Err(p) => {
            let (loc, msg) = norm_loc(&p);
            Res::Panic(loc, msg)
        }
    }
}

fn exec(op: Op, l: UOpt, s: UOpt, inc: Option<u32>, m: Option<Mode>, o: &Opnd) -> Res {
    to_res(guard(|| run_op(op, l, s, inc, m, o)))
}

// ------------------------------------------------------------------------------------------
// oracle wiring

/// (shortest, longest) length of a unit in days
fn unit_days(u: U) -> (i128, i128) {
    match u {
        U::Year => (365, 366),
        U::Month => (28, 31),
        U::Week => (7, 7),
        _ => (1, 1),
    }
}

/// Accepted cells whose rounding has to build a date `increment` units away (NudgeToCalendarUnit adds
/// the start and end durations to the reference date with a range check): with the largest increments
/// that date is outside the supported range and the specified outcome is a RangeError from the
/// computation, not from validation.
fn adjust_for_range(op: Op, v: Verdict, o: &Opnd) -> Verdict {
    let Verdict::Accept(r) = v else { return v };
    let calendar_nudge = match op.diff() {
        Some((DiffType::ZonedDateTime, ..)) => r.smallest.is_date(),
        Some(_) => r.smallest.is_calendar(),
        None => op == Op::DurationRoundRel && r.smallest.is_calendar(),
    };
    if !calendar_nudge || r.inc == 1 {
        return v;
    }
    // equal operands: the difference operations return a zero duration before any rounding
    let (a, b) = (Ymd::from_n(day_of(o.t0)), Ymd::from_n(day_of(o.t1)));
    match op.diff() {
        Some((DiffType::PlainDate, ..)) if a == b => return v,
        Some((DiffType::PlainYearMonth, ..)) if (a.y, a.m) == (b.y, b.m) => return v,
        _ => {}
    }
    let (dmin, dmax) = unit_days(r.smallest);
    // the end of the rounding window lies (r1 + increment) units from the reference date, r1 <= the
    // distance of the operands (<= 300 years for durations): `span` bounds reference + r1 in days
    let span = (day_of(o.t0).abs().max(day_of(o.t1).abs()) + (day_of(o.t0) - day_of(o.t1)).abs()) as i128 + 366 * 400;
    if r.inc as i128 * dmin - span > MAX_DAY as i128 {
        return Verdict::AcceptThenRange(r);
    }
    if r.inc as i128 * dmax + span < MAX_DAY as i128 {
        return v;
    }
    Verdict::Unjudged("increment reaches the edge of the supported date range: validation verdict not observable")
}

pub fn verdict(op: Op, l: UOpt, s: UOpt, inc: Option<u32>, m: Option<Mode>, o: &Opnd) -> Verdict {
    let v = if let Some((t, _, _)) = op.diff() {
        diff(t, l, s, inc, m)
    } else if let Some(t) = op.round_type() {
        round(t, s, inc, m)
    } else if op.is_duration_round() {
        duration_round(l, s, inc, m, existing_largest(op, o), op == Op::DurationRoundRel)
    } else {
        duration_total(s, existing_largest(op, o), op == Op::DurationTotalRel)
    };
    adjust_for_range(op, v, o)
}

#[derive(Clone, Debug, Serialize, Deserialize)]
pub struct Cell {
    pub op: Op,
    pub l: UOpt,
    pub s: UOpt,
    pub inc: Option<u32>,
    pub mode: Option<Mode>,
    pub o: Opnd,
}

pub struct MatrixSub;

fn any_present(c: &Cell) -> bool {
    c.l != UOpt::Absent || c.s != UOpt::Absent || c.inc.is_some() || c.mode.is_some()
}

fn eval_cell(c: &Cell) -> Outcome {
    let op = c.op;
    let v = verdict(op, c.l, c.s, c.inc, c.mode, &c.o);
    let got = exec(op, c.l, c.s, c.inc, c.mode, &c.o);
    let mut o = Outcome::pass().class(op.name());
    let sig = |what: &str| format!("C10/{}/{}", op.name(), what);
    let opts = || format!("largest={:?} smallest={:?} inc={:?} mode={:?}", c.l, c.s, c.inc, c.mode);
    match v {
        Verdict::Unjudged(_) => {
            o = o.class("unjudged");
            o.unjudged = true;
            // a panic still counts
            if let Res::Panic(loc, msg) = &got {
                o = o.fail(sig(&format!("unjudged-cell/panic@{loc}")), "no panic", format!("{msg} [{}]", opts()));
            }
        }
        Verdict::Reject(rule) => {
            o = o.class("reject").nontrivial(any_present(c));
            let ok = matches!(&got, Res::Err(k, _) if *k == "Range");
            if !ok {
                // narrow models of the defects found here (see the kf fragment): a smallestUnit / unit
                // of `auto` passes the unit validation and reaches the `Auto` arm of
                // Unit::to_maximum_rounding_increment (`unreachable!()`), or, in Duration::total, a
                // `temporal_unwrap` of Unit::as_nanoseconds (debug assertion / Assert error)
                let s = if c.s == UOpt::Auto && matches!(&got, Res::Panic(loc, msg) if loc.starts_with("src/options.rs:") && msg == "internal error: entered unreachable code") {
                    format!("C10/{}/smallest-auto/panic:unreachable@src/options.rs(to_maximum_rounding_increment)", op.class())
                } else if c.s == UOpt::Auto
                    && op.is_duration_total()
                    && matches!(&got, Res::Panic(loc, msg) if loc.starts_with("src/lib.rs:") && msg == "assertion failed: self.is_some()")
                {
                    "C10/Duration.total/unit-auto/panic:temporal_unwrap-debug-assert@src/lib.rs".to_string()
                } else {
                    sig(&format!("reject-expected[{}]/got-{}", rule_tag(rule), got.label()))
                };
                o = o.fail(s, format!("Err(Range) [{rule}] for {}", opts()), got.show());
            }
        }
        Verdict::AcceptThenRange(_) => {
            o = o.class("accept-but-computation-out-of-range").nontrivial(false);
            let ok = matches!(&got, Res::Err(k, _) if *k == "Range");
            if !ok {
                o = o.fail(
                    sig(&format!("legal-options-unreachable-date/range-error-expected/got-{}", got.label())),
                    format!("Err(Range) from the computation for {}", opts()),
                    got.show(),
                );
            }
        }
        Verdict::Accept(r) => {
            let resolves_default = matches!(c.l, UOpt::Absent | UOpt::Auto) && r.largest.is_some() || c.s == UOpt::Absent || c.mode.is_none() && !op.is_duration_total();
            o = o.class("accept").nontrivial(resolves_default);
            let val = match &got {
                Res::Ok(v) => v.clone(),
                other => {
                    // narrow model: GetDifferenceSettings of the time-group operations validates
                    // largestUnit without allowing `auto`
                    let s = if c.l == UOpt::Auto
                        && op.class() == "diff[time-group]"
                        && matches!(other, Res::Err(k, m) if *k == "Range" && m == "Unit was not part of the time unit group.")
                    {
                        "C10/diff[time-group]/largest-auto/legal-cell-rejected:Range(not part of the time unit group)".to_string()
                    } else {
                        sig(&format!("accept-expected/got-{}", other.label()))
                    };
                    return o.fail(s, format!("Ok for {}", opts()), other.show());
                }
            };
            if op.is_duration_total() {
                return o;
            }
            // ---- defaults: the same call with every resolved option written out
            let l_exp = match r.largest {
                Some(u) => UOpt::U(u),
                None => c.l,
            };
            let (s_exp, inc_exp, m_exp) = (UOpt::U(r.smallest), Some(r.inc), Some(r.mode));
            if (l_exp, s_exp, inc_exp, m_exp) != (c.l, c.s, c.inc, c.mode) {
                let exp = exec(op, l_exp, s_exp, inc_exp, m_exp, &c.o);
                let same = matches!(&exp, Res::Ok(v2) if v2.same(&val));
                if !same && !o.failed() {
                    let what = if c.mode.is_none() && {
                        // is the mode default alone responsible?
                        let e2 = exec(op, c.l, c.s, c.inc, m_exp, &c.o);
                        !matches!(&e2, Res::Ok(v2) if v2.same(&val))
                    } {
                        "defaults/mode-default"
                    } else if !matches!(&exp, Res::Ok(_)) {
                        "defaults/explicit-form-rejected"
                    } else {
                        "defaults/explicit-form-differs"
                    };
                    o = o.fail(
                        sig(what),
                        format!("same result as largest={:?} smallest={:?} inc={:?} mode={:?}: {}", l_exp, s_exp, inc_exp, m_exp, exp.show()),
                        format!("{} for {}", got.show(), opts()),
                    );
                }
            }
            // ---- operations without a largestUnit option must not read it
            if r.largest.is_none() && c.l != UOpt::Absent && !o.failed() {
                let e2 = exec(op, UOpt::Absent, c.s, c.inc, c.mode, &c.o);
                if !matches!(&e2, Res::Ok(v2) if v2.same(&val)) {
                    o = o.fail(sig("largest-unit-not-ignored"), e2.show(), format!("{} for {}", got.show(), opts()));
                }
            }
            // ---- since = -(until with the negated mode)
            if let Some((_, true, until_op)) = op.diff() {
                if !o.failed() {
                    let e2 = exec(until_op, l_exp, s_exp, inc_exp, Some(r.mode.negated()), &c.o);
                    let same = matches!(&e2, Res::Ok(v2) if v2.negated().same(&val));
                    if !same {
                        o = o.fail(
                            sig("since-negation"),
                            format!("negated result of until with mode {:?}: {}", r.mode.negated(), e2.show()),
                            format!("{} for {}", got.show(), opts()),
                        );
                    }
                }
            }
        }
    }
    o
}

fn rule_tag(rule: &str) -> &'static str {
    if rule.contains("group") {
        "unit-group"
    } else if rule.contains("smaller than") {
        "largest<smallest"
    } else if rule.contains("increment") {
        "increment"
    } else if rule.contains("disallowed") {
        "disallowed-unit"
    } else if rule.contains("relativeTo") {
        "no-relativeTo"
    } else {
        "other"
    }
}

impl SubCheck for MatrixSub {
    type Case = Cell;
    fn name(&self) -> &'static str {
        "matrix"
    }
    fn eval(&self, c: &Cell) -> Outcome {
        eval_cell(c)
    }
}

// ------------------------------------------------------------------------------------------
// toString matrix

#[derive(Clone, Copy, Debug, PartialEq, Eq, Serialize, Deserialize, Hash)]
pub enum SOp {
    Time,
    DateTime,
    InstantZ,
    InstantRuleZone,
    ZonedUtc,
    ZonedRule,
    Duration,
}
pub const SOPS: [SOp; 7] = [SOp::Time, SOp::DateTime, SOp::InstantZ, SOp::InstantRuleZone, SOp::ZonedUtc, SOp::ZonedRule, SOp::Duration];
impl SOp {
    fn name(self) -> &'static str {
        match self {
            SOp::Time => "PlainTime.toString",
            SOp::DateTime => "PlainDateTime.toString",
            SOp::InstantZ => "Instant.toString",
            SOp::InstantRuleZone => "Instant.toString[timeZone]",
            SOp::ZonedUtc => "ZonedDateTime[UTC].toString",
            SOp::ZonedRule => "ZonedDateTime[rule-zone].toString",
            SOp::Duration => "Duration.toString",
        }
    }
}

#[derive(Clone, Debug, Serialize, Deserialize)]
pub struct StrCell {
    pub op: SOp,
    pub s: UOpt,
    pub p: Prec,
    pub mode: Option<Mode>,
    pub o: Opnd,
}

fn precs() -> Vec<Prec> {
    let mut v = vec![Prec::Auto, Prec::Minute];
    for d in 0..=10u8 {
        v.push(Prec::Digit(d));
    }
    v.push(Prec::Digit(255));
    v
}

fn run_str(op: SOp, s: UOpt, p: Prec, m: Option<Mode>, o: &Opnd) -> temporal_rs::TemporalResult<Val> {
    let opts = ToStringRoundingOptions {
        precision: match p {
            Prec::Auto => Precision::Auto,
            Prec::Minute => Precision::Minute,
            Prec::Digit(d) => Precision::Digit(d),
        },
        smallest_unit: uo(s),
        rounding_mode: m.map(mode),
    };
    let (d0, n0) = (day_of(o.t0), ns_of(o.t0));
    use temporal_rs::options::{DisplayCalendar, DisplayOffset, DisplayTimeZone};
    match op {
        SOp::Time => plain_time(n0 as i128).expect("operand").to_ixdtf_string(opts),
        SOp::DateTime => plain_datetime(Dt { day: d0, ns: n0 as i128 }).expect("operand").to_ixdtf_string(opts, DisplayCalendar::Auto),
        SOp::InstantZ => Instant::try_new(o.t0 as i128).expect("operand").to_ixdtf_string_with_provider(None, opts, provider()),
        SOp::InstantRuleZone => Instant::try_new(o.t0 as i128).expect("operand").to_ixdtf_string_with_provider(Some(&tz_rule()), opts, provider()),
        SOp::ZonedUtc | SOp::ZonedRule => {
            let tz = if op == SOp::ZonedUtc { tz_utc() } else { tz_rule() };
            ZonedDateTime::try_new(o.t0 as i128, iso(), tz).expect("operand").to_ixdtf_string_with_provider(
                DisplayOffset::Auto,
                DisplayTimeZone::Auto,
                DisplayCalendar::Auto,
                opts,
                provider(),
            )
        }
        SOp::Duration => duration_from_f64s(&o.dur.map(|x| x as f64)).expect("operand").as_temporal_string(opts),
    }
    .map(Val::S)
}

fn exec_str(op: SOp, s: UOpt, p: Prec, m: Option<Mode>, o: &Opnd) -> Res {
    to_res(guard(|| run_str(op, s, p, m, o)))
}

pub struct ToStringSub;
impl SubCheck for ToStringSub {
    type Case = StrCell;
    fn name(&self) -> &'static str {
        "tostring"
    }
    fn eval(&self, c: &StrCell) -> Outcome {
        let (v, _prec) = to_string(c.s, c.p, c.mode, c.op == SOp::Duration);
        let got = exec_str(c.op, c.s, c.p, c.mode, &c.o);
        let mut o = Outcome::pass().class(c.op.name());
        let sig = |what: &str| format!("C10/{}/{}", c.op.name(), what);
        let opts = || format!("smallest={:?} precision={:?} mode={:?}", c.s, c.p, c.mode);
        match v {
            Verdict::Unjudged(_) => {
                o = o.class("unjudged");
                o.unjudged = true;
                if let Res::Panic(loc, msg) = &got {
                    o = o.fail(sig(&format!("unjudged-cell/panic@{loc}")), "no panic", format!("{msg} [{}]", opts()));
                }
            }
            Verdict::Reject(rule) => {
                o = o.class("reject").nontrivial(c.s != UOpt::Absent || c.p != Prec::Auto || c.mode.is_some());
                if !matches!(&got, Res::Err(k, _) if *k == "Range") {
                    o = o.fail(sig(&format!("reject-expected/got-{}", got.label())), format!("Err(Range) [{rule}] for {}", opts()), got.show());
                }
            }
            Verdict::AcceptThenRange(_) => unreachable!(),
            Verdict::Accept(r) => {
                let smallest_wins = c.s != UOpt::Absent && c.p != Prec::Auto;
                o = o.class("accept").nontrivial(c.mode.is_none() || smallest_wins);
                let val = match &got {
                    Res::Ok(v) => v.clone(),
                    other => return o.fail(sig(&format!("accept-expected/got-{}", other.label())), format!("Ok for {}", opts()), other.show()),
                };
                if c.mode.is_none() {
                    let e2 = exec_str(c.op, c.s, c.p, Some(r.mode), &c.o);
                    if !matches!(&e2, Res::Ok(v2) if v2.same(&val)) {
                        o = o.fail(sig("defaults/mode-default"), format!("same as mode {:?}: {}", r.mode, e2.show()), format!("{} for {}", got.show(), opts()));
                    }
                }
                if smallest_wins && !o.failed() {
                    let e2 = exec_str(c.op, c.s, Prec::Auto, c.mode, &c.o);
                    if !matches!(&e2, Res::Ok(v2) if v2.same(&val)) {
                        o = o.fail(sig("smallest-unit-does-not-win-over-digits"), e2.show(), format!("{} for {}", got.show(), opts()));
                    }
                }
            }
        }
        o
    }
}

// ------------------------------------------------------------------------------------------
// enumeration

struct Dim {
    op: Op,
    ls: Vec<UOpt>,
    ss: Vec<UOpt>,
    incs: Vec<Option<u32>>,
    modes: Vec<Option<Mode>>,
}
impl Dim {
    fn len(&self) -> u64 {
        (self.ls.len() * self.ss.len() * self.incs.len() * self.modes.len()) as u64
    }
    fn cell(&self, mut i: u64, o: Opnd) -> Cell {
        let m = self.modes[(i % self.modes.len() as u64) as usize];
        i /= self.modes.len() as u64;
        let inc = self.incs[(i % self.incs.len() as u64) as usize];
        i /= self.incs.len() as u64;
        let s = self.ss[(i % self.ss.len() as u64) as usize];
        i /= self.ss.len() as u64;
        let l = self.ls[i as usize];
        Cell { op: self.op, l, s, inc, mode: m, o }
    }
}

fn dims() -> Vec<Dim> {
    let units_and_auto: Vec<UOpt> = all_uopts().into_iter().filter(|u| *u != UOpt::Absent).collect();
    OPS.iter()
        .map(|&op| {
            if op.is_duration_total() {
                // total(unit): the unit is a required argument of the Rust API; no increment, no mode
                Dim { op, ls: vec![UOpt::Absent], ss: units_and_auto.clone(), incs: vec![None], modes: vec![None] }
            } else if op == Op::TimeRound {
                // PlainTime::round(unit, increment, mode): no largestUnit, the unit is a required argument
                Dim { op, ls: vec![UOpt::Absent], ss: units_and_auto.clone(), incs: INCS.to_vec(), modes: all_modes() }
            } else {
                Dim { op, ls: all_uopts(), ss: all_uopts(), incs: INCS.to_vec(), modes: all_modes() }
            }
        })
        .collect()
}

/// generated operand sets for the thorough tier: mid-range points (1850..2100) up to 150 years apart (everything stays within the i64 nanosecond line, 1678..2262) in
/// either direction, durations with small-to-moderate fields of one sign
fn generated_operands(seed: u64, n: usize) -> Vec<Opnd> {
    use proptest::prelude::*;
    let strat = (
        (to_days(1850, 1, 1)..=to_days(2100, 1, 1)),
        crate::gen::ns_of_day(),
        prop::bool::ANY,
        (0i64..=150, 0i64..=11, 0i64..=30),
        crate::gen::ns_of_day(),
        prop::bool::ANY,
        ((0i64..=50, 0i64..=30, 0i64..=60, 0i64..=400, 0i64..=100), (0i64..=200, 0i64..=200, 0i64..=2000, 0i64..=2000, 0i64..=2000)),
        0u16..1024,
    )
        .prop_map(|(d0, n0, back, (dy, dm, dd), n1, dneg, (da, db), mask)| {
            let t0 = d0 * DAY + n0 as i64;
            let a = Ymd::from_n(d0);
            let sign = if back { -1 } else { 1 };
            let (y1, m1) = balance_ym(a.y + sign * dy, a.m as i64 + sign * dm);
            let d1 = to_days(y1, m1, a.d.min(dim(y1, m1))) + sign * dd;
            let mut t1 = d1 * DAY + n1 as i64;
            if t1 == t0 {
                t1 += 1_234_567_891;
            }
            let mut dur = [da.0, da.1, da.2, da.3, da.4, db.0, db.1, db.2, db.3, db.4];
            for i in 0..10 {
                if mask & (1 << i) != 0 {
                    dur[i] = 0;
                }
            }
            if dur.iter().all(|x| *x == 0) {
                dur[3] = 1;
                dur[9] = 1;
            }
            if dneg {
                dur = dur.map(|x| -x);
            }
            Opnd { t0, t1, dur }
        });
    sample_strategy(&strat, seed, n)
}

pub fn run(ctx: &mut Ctx) {
    ctx.rule = "complete enumeration of {14 until/since operations (PlainDate, PlainDateTime, PlainTime, PlainYearMonth, Instant, ZonedDateTime in UTC and in a rule-table zone), Duration.round (no relativeTo / PlainDate relativeTo / calendar units without relativeTo), PlainDateTime.round, Instant.round} x largestUnit {absent, auto, 10 units} x smallestUnit {absent, auto, 10 units} x 29 increments (absent, 1, divisors and non-divisors of 24/60/1000, maxima, maxima+1, 1440, 86400, 86400000, 1e9) x mode {absent, 9 modes}; PlainTime.round (unit x increment x mode), Duration.total (unit, 3 variants); mixed zones: ZonedDateTime until/since with the other operand in a different zone x largestUnit x smallestUnit x 7 increments x mode (allowed iff the resolved largest unit is a time unit, then equal to the same-zone call); toString matrix: 7 operations x smallestUnit {absent, auto, 10 units} x precision {auto, minute, 0..=10, 255} x mode {absent, 9}. Every cell is evaluated on each operand set (four fixed sets: 2019-03-14T01:02:03.004005006 / 2024-12-31T17:42:38.571683947 forwards and backwards, the same day at two times, two days of one month; + 6 generated sets in the quick tier / 60 in the thorough tier; the generated sets depend on VERIF_SEED and are listed in the evidence under operand_sets). Verdict of each cell from the table oracle c10/options.rs: reject => Err(Range) required (Ok, another kind, Assert or a panic fails the cell); accept => Ok required, and the result must equal the result of the same call with all resolved defaults written out (auto/absent largest = larger of the operation default and smallest; absent smallest = fallback; absent increment = 1; absent mode = trunc for until/since/toString, halfExpand for round), since(mode m) must equal the negated until(negated m). non-trivial = (at least one option present and verdict reject) or (accepted and largestUnit absent/auto, smallestUnit absent or mode absent, i.e. a default has to be resolved).".into();
    ctx.assumptions = vec![
        "oracle written from GetDifferenceSettings / Duration.prototype.round / total / *.prototype.round / ToSecondsStringPrecisionRecord / ValidateTemporalRoundingIncrement (DESIGN.md Appendix A); self-tested on hand-derived cells at start".into(),
        "'rejects before computing anything' is observed only as 'rejects with operands for which the computation would succeed'".into(),
        "PlainDateTime.round / Instant.round have no largestUnit option in Temporal: whatever RoundingOptions.largest_unit holds must be ignored".into(),
    ];
    match options::self_test() {
        Ok(n) => ctx.note(format!("options oracle self-test: {n} hand-derived cells ok")),
        Err(e) => {
            println!("INCONCLUSIVE property=C10 {e}");
            std::process::exit(2);
        }
    }
    ctx.note("unjudged: Duration.round cells with increment > 1, a date smallestUnit and largestUnit != smallestUnit (Temporal added a RangeError for them after this crate's snapshot of the specification; the property text does not settle which edition applies)");
    ctx.note("unjudged: toString cells whose precision is not a Temporal fractionalSecondDigits value (Precision::Minute without smallestUnit; Precision::Minute or Digit(>9) together with a smallestUnit: Temporal validates fractionalSecondDigits even when smallestUnit wins, but that option is outside the property's four options)");
    ctx.note("cells 'accept-but-computation-out-of-range': legal options whose increment (8.64e7 / 1e9 calendar units) forces NudgeToCalendarUnit to build a date outside the supported range; a RangeError is specified either way, so only Err(Range) is demanded and the cell is not counted as non-trivial");

    let mut sets = fixed_operands();
    let n_generated = ctx.tier.pick(6, 60) as usize;
    sets.extend(generated_operands(ctx.sub_seed("operands", 0), n_generated));
    ctx.extra.insert("operand_sets".into(), json!(sets));

    if std::env::var("C10_EXPLORE").is_ok() {
        explore(&sets);
        return;
    }

    // ---- main matrix
    let dims = dims();
    let mut starts = vec![0u64];
    for d in &dims {
        starts.push(starts.last().unwrap() + d.len());
    }
    let per_set = *starts.last().unwrap();
    let total = per_set * sets.len() as u64;
    let make = |i: u64| -> Cell {
        // operation-major so that a lane works on one operation at a time
        let set = (i % sets.len() as u64) as usize;
        let j = i / sets.len() as u64;
        let k = match starts.binary_search(&j) {
            Ok(k) => k,
            Err(k) => k - 1,
        };
        dims[k].cell(j - starts[k], sets[set])
    };
    ctx.run_enum(&MatrixSub, total, &make, true);

    // ---- toString matrix
    let (ss, ps, ms) = (all_uopts(), precs(), all_modes());
    let per = (SOPS.len() * ss.len() * ps.len() * ms.len()) as u64;
    let make_s = |i: u64| -> StrCell {
        let set = (i / per) as usize;
        let mut j = i % per;
        let m = ms[(j % ms.len() as u64) as usize];
        j /= ms.len() as u64;
        let p = ps[(j % ps.len() as u64) as usize];
        j /= ps.len() as u64;
        let s = ss[(j % ss.len() as u64) as usize];
        j /= ss.len() as u64;
        StrCell { op: SOPS[j as usize], s, p, mode: m, o: sets[set] }
    };
    ctx.run_enum(&ToStringSub, per * sets.len() as u64, &make_s, true);
    ctx.extra.insert("cells_per_operand_set".into(), json!({"matrix": per_set, "tostring": per}));

    // ---- ZonedDateTime until/since between two *different* time zones: allowed exactly when the resolved largest
    // unit is a time unit, and then equal to the same call with both operands in the receiver's zone
    let (ls, ss2, ms2) = (all_uopts(), all_uopts(), all_modes());
    let incs2: Vec<Option<u32>> = vec![None, Some(1), Some(2), Some(7), Some(12), Some(30), Some(60)];
    let per_m = (ls.len() * ss2.len() * incs2.len() * ms2.len() * 2) as u64;
    let make_m = |i: u64| -> MixedCell {
        let set = (i / per_m) as usize;
        let mut j = i % per_m;
        let since = j % 2 == 1;
        j /= 2;
        let m = ms2[(j % ms2.len() as u64) as usize];
        j /= ms2.len() as u64;
        let inc = incs2[(j % incs2.len() as u64) as usize];
        j /= incs2.len() as u64;
        let s_ = ss2[(j % ss2.len() as u64) as usize];
        j /= ss2.len() as u64;
        MixedCell { l: ls[j as usize], s: s_, inc, mode: m, since, o: sets[set] }
    };
    ctx.run_enum(&MixedZoneSub, per_m * sets.len() as u64, &make_m, true);
}

/// one cell of the mixed-zone matrix
#[derive(Serialize, Deserialize, Debug, Clone)]
pub struct MixedCell {
    pub l: UOpt,
    pub s: UOpt,
    pub inc: Option<u32>,
    pub mode: Option<Mode>,
    pub since: bool,
    pub o: Opnd,
}
pub struct MixedZoneSub;
impl SubCheck for MixedZoneSub {
    type Case = MixedCell;
    fn name(&self) -> &'static str {
        "mixed-zones"
    }
    fn eval(&self, c: &MixedCell) -> Outcome {
        let mut o = Outcome::pass();
        let mk = || {
            let mut st = temporal_rs::options::DifferenceSettings::default();
            st.largest_unit = uo(c.l);
            st.smallest_unit = uo(c.s);
            st.increment = c.inc.and_then(|i| temporal_rs::options::RoundingIncrement::try_new(i).ok());
            st.rounding_mode = c.mode.map(mode);
            st
        };
        let a = ZonedDateTime::try_new(c.o.t0 as i128, iso(), tz_utc()).expect("operand");
        let b_same = ZonedDateTime::try_new(c.o.t1 as i128, iso(), tz_utc()).expect("operand");
        let b_other = ZonedDateTime::try_new(c.o.t1 as i128, iso(), tz_rule()).expect("operand");
        let call = |b: &ZonedDateTime| if c.since { a.since_with_provider(b, mk(), provider()) } else { a.until_with_provider(b, mk(), provider()) };
        // every third cell compares the receiver with the *same instant* in the other zone (a shortcut for equal
        // instants must not come before the zone check)
        let equal_instants = (c.o.t0 as i128 + c.inc.unwrap_or(0) as i128 + c.since as i128).rem_euclid(3) == 0;
        let (b_same, b_other) = if equal_instants {
            (ZonedDateTime::try_new(c.o.t0 as i128, iso(), tz_utc()).expect("operand"), ZonedDateTime::try_new(c.o.t0 as i128, iso(), tz_rule()).expect("operand"))
        } else {
            (b_same, b_other)
        };
        if equal_instants {
            o = o.class("mixed-zones:equal-instants");
        }
        let same = call(&b_same);
        let mixed = call(&b_other);
        // resolved largest unit: explicit, else the larger of hour and the smallest unit
        let smallest = match c.s {
            UOpt::U(u) => Some(u),
            _ => None,
        };
        let resolved = match c.l {
            UOpt::U(u) => u,
            _ => smallest.map(|s| if s.idx() < U::Hour.idx() { s } else { U::Hour }).unwrap_or(U::Hour),
        };
        o = o.nontrivial(!matches!(c.l, UOpt::U(_))).class(if resolved.is_time() { "mixed-zones:time-largest" } else { "mixed-zones:date-largest" });
        match (&same, &mixed) {
            // options the operation refuses anyway: refused for the mixed pair as well, same kind
            (Err(e), Err(m)) => chk!(o, e.kind() == m.kind() || !resolved.is_time(), "C10/mixed-zones/error-kind", kind_name(e.kind()), kind_name(m.kind())),
            (Err(e), Ok(m)) => o = o.fail("C10/mixed-zones/accepted-what-the-same-zone-call-refuses", err_str(e), format!("{:?}", duration_fields(m))),
            (Ok(x), Ok(m)) => {
                chk!(o, resolved.is_time(), "C10/mixed-zones/date-largest-unit-accepted", "RangeError (different time zones)", format!("{:?}", duration_fields(m)));
                chk!(o, duration_fields(x) == duration_fields(m), "C10/mixed-zones/value", format!("{:?}", duration_fields(x)), format!("{:?}", duration_fields(m)));
            }
            (Ok(x), Err(m)) => {
                if resolved.is_time() {
                    o = o.fail("C10/mixed-zones/time-largest-unit-refused", format!("{:?}", duration_fields(x)), err_str(m));
                } else {
                    chk!(o, m.kind() == temporal_rs::error::ErrorKind::Range, "C10/mixed-zones/error-kind", "Range", err_str(m));
                }
            }
        }
        o
    }
}

/// development aid (`C10_EXPLORE=1`): evaluate every cell and print a histogram of failure signatures
fn explore(sets: &[Opnd]) {
    let mut hist: BTreeMap<String, (u64, String)> = BTreeMap::new();
    let mut n = 0u64;
    for d in dims() {
        for i in 0..d.len() {
            for o in sets {
                let c = d.cell(i, *o);
                let out = eval_guarded("C10", &MatrixSub, &c);
                n += 1;
                if let Some(f) = out.fail {
                    let e = hist.entry(f.sig.clone()).or_insert((0, format!("{} || expected {} || actual {}", serde_json::to_string(&c).unwrap(), f.expected, f.actual)));
                    e.0 += 1;
                }
            }
        }
    }
    let (ss, ps, ms) = (all_uopts(), precs(), all_modes());
    for op in SOPS {
        for s in &ss {
            for p in &ps {
                for m in &ms {
                    for o in sets {
                        let c = StrCell { op, s: *s, p: *p, mode: *m, o: *o };
                        let out = eval_guarded("C10", &ToStringSub, &c);
                        n += 1;
                        if let Some(f) = out.fail {
                            let e = hist.entry(f.sig.clone()).or_insert((0, format!("{} || expected {} || actual {}", serde_json::to_string(&c).unwrap(), f.expected, f.actual)));
                            e.0 += 1;
                        }
                    }
                }
            }
        }
    }
    println!("explored {n} cells");
    for (k, (c, ex)) in hist {
        println!("{c:>8}  {k}\n          {ex}");
    }
}

pub fn replay(ctx: &mut Ctx, sub: &str, case: &Value) -> bool {
    match sub {
        "matrix" => ctx.replay_case(&MatrixSub, case),
        "tostring" => ctx.replay_case(&ToStringSub, case),
        "mixed-zones" => ctx.replay_case(&MixedZoneSub, case),
        _ => false,
    }
}
