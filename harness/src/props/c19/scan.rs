//! Completeness accounting: scan the source text of both layers at run time for `pub fn` names (and
//! conversion impls / converted enums) and compare with the static lists of exercised names.

use serde_json::{json, Value};
use std::collections::BTreeSet;

fn repo() -> String {
    std::env::var("VERIF_REPO").unwrap_or_else(|_| "/repo".to_string())
}

/// the implementing type of an `impl` header line ("impl X {", "impl<'a> T for X<'_> {")
fn impl_target(line: &str) -> Option<(Option<String>, String)> {
    let l = line.trim();
    if !l.starts_with("impl") {
        return None;
    }
    let rest = l.trim_start_matches("impl").trim_start();
    // drop generics of the impl itself
    let rest = if rest.starts_with('<') { rest.split_once('>').map(|x| x.1).unwrap_or(rest).trim_start() } else { rest };
    let rest = rest.trim_end_matches('{').trim();
    let (tr, ty) = match rest.split_once(" for ") {
        Some((t, y)) => (Some(t.trim().to_string()), y.trim()),
        None => (None, rest),
    };
    let ty = ty.split('<').next().unwrap_or(ty).trim();
    let ty = ty.rsplit("::").next().unwrap_or(ty).to_string();
    Some((tr, ty))
}

fn fn_name(line: &str, prefix: &str) -> Option<String> {
    let l = line.trim();
    let rest = l.strip_prefix(prefix)?;
    let name: String = rest.chars().take_while(|c| c.is_alphanumeric() || *c == '_').collect();
    if name.is_empty() {
        None
    } else {
        Some(name)
    }
}

/// `Type::function` for every `pub fn` inside an `impl` block; `fmt` of Display impls as `Type::fmt`
fn scan_file(text: &str) -> Vec<String> {
    let mut out = vec![];
    let mut cur: Option<(Option<String>, String)> = None;
    for line in text.lines() {
        let t = line.trim();
        if t.starts_with("mod tests {") {
            break;
        }
        if let Some(it) = impl_target(line) {
            cur = Some(it);
            continue;
        }
        if let Some((tr, ty)) = &cur {
            if let Some(n) = fn_name(line, "pub fn ").or_else(|| fn_name(line, "pub const fn ")) {
                out.push(format!("{ty}::{n}"));
            } else if tr.as_deref().map(|t| t.ends_with("Display")).unwrap_or(false) {
                if let Some(n) = fn_name(line, "fn ") {
                    out.push(format!("{ty}::{n}"));
                }
            }
        }
    }
    out
}

fn list_rs(dir: &str) -> Vec<(String, String)> {
    let mut v = vec![];
    if let Ok(rd) = std::fs::read_dir(dir) {
        for e in rd.flatten() {
            let p = e.path();
            if p.extension().map(|x| x == "rs").unwrap_or(false) && p.is_file() {
                if let Ok(t) = std::fs::read_to_string(&p) {
                    v.push((p.file_name().unwrap().to_string_lossy().into_owned(), t));
                }
            }
        }
    }
    v.sort();
    v
}

pub fn report() -> Value {
    let repo = repo();
    // ---- compiled-data layer
    let cdir = format!("{repo}/src/builtins/compiled");
    let files = list_rs(&cdir);
    let modrs = files.iter().find(|f| f.0 == "mod.rs").map(|f| f.1.clone()).unwrap_or_default();
    let declared: BTreeSet<String> = modrs
        .lines()
        .filter_map(|l| {
            let l = l.trim();
            l.strip_prefix("mod ").or_else(|| l.strip_prefix("pub mod ")).and_then(|r| r.strip_suffix(';')).map(|s| s.trim().to_string())
        })
        .collect();
    let mut found_c: BTreeSet<String> = BTreeSet::new();
    let mut not_compiled: Vec<Value> = vec![];
    for (name, text) in &files {
        let stem = name.trim_end_matches(".rs");
        let fns = scan_file(text);
        if name != "mod.rs" && !declared.contains(stem) {
            not_compiled.push(json!({"file": format!("src/builtins/compiled/{name}"), "functions": fns,
                "reason": "file is not declared in compiled/mod.rs, so it is not part of the crate (cannot be called)"}));
            continue;
        }
        found_c.extend(fns);
    }
    let mut ex_c: BTreeSet<String> = super::compiled::NAMES.iter().filter(|n| **n != "Now::*").map(|s| s.to_string()).collect();
    ex_c.extend(super::compiled::NOW_NAMES.iter().map(|s| s.to_string()));
    let un_c: Vec<&String> = found_c.difference(&ex_c).collect();
    let stale_c: Vec<&String> = ex_c.difference(&found_c).collect();

    // ---- FFI layer
    let fdir = format!("{repo}/temporal_capi/src");
    let ffiles = list_rs(&fdir);
    let mut found_f: BTreeSet<String> = BTreeSet::new();
    let mut found_conv: BTreeSet<String> = BTreeSet::new();
    for (_name, text) in &ffiles {
        for f in scan_file(text) {
            found_f.insert(f);
        }
        let lines: Vec<&str> = text.lines().collect();
        for (i, l) in lines.iter().enumerate() {
            let t = l.trim();
            if t.starts_with("#[diplomat::enum_convert(") {
                if let Some(n) = lines.get(i + 1).and_then(|x| fn_name(x, "pub enum ")) {
                    found_conv.insert(format!("enum:{n}"));
                }
            }
            if t.starts_with("impl") && t.contains(" for ") && (t.contains("From<ffi::") || t.contains("From<temporal_rs::")) {
                // impl (Try)From<ffi::X<'_>> for Y  /  impl From<temporal_rs::TemporalError> for ffi::TemporalError
                if let Some(arg) = t.split_once("From<").map(|x| x.1) {
                    let src = arg.split(['<', '>']).next().unwrap_or("");
                    let src = src.rsplit("::").next().unwrap_or(src);
                    found_conv.insert(format!("conv:{src}"));
                }
            }
        }
    }
    let ex_f: BTreeSet<String> = super::capi::NAMES.iter().map(|s| s.to_string()).collect();
    let un_f: Vec<&String> = found_f.difference(&ex_f).collect();
    let stale_f: Vec<&String> = ex_f.difference(&found_f).collect();
    let mut ex_conv: BTreeSet<String> = super::conv19::ENUMS.iter().map(|e| format!("enum:{e}")).collect();
    ex_conv.extend(super::conv19::OPTION_RECORDS.iter().map(|s| s.to_string()));
    ex_conv.extend(super::conv19::RECORDS.iter().map(|s| s.to_string()));
    ex_conv.insert("conv:TemporalError".into());
    let un_conv: Vec<&String> = found_conv.difference(&ex_conv).collect();
    let stale_conv: Vec<&String> = ex_conv.difference(&found_conv).collect();

    let n_un = un_c.len() + un_f.len() + un_conv.len() + not_compiled.iter().map(|v| v["functions"].as_array().map(|a| a.len()).unwrap_or(0)).sum::<usize>();
    json!({
        "source_root": repo,
        "compiled": {"found": found_c.len(), "exercised": ex_c.len(), "unexercised": un_c, "listed_but_not_found_in_source": stale_c, "not_compiled": not_compiled},
        "capi": {"found": found_f.len(), "exercised": ex_f.len(), "unexercised": un_f, "listed_but_not_found_in_source": stale_f},
        "capi_conversions": {"found": found_conv.len(), "exercised": ex_conv.len(), "unexercised": un_conv, "listed_but_not_found_in_source": stale_conv},
        "unexercised_count": n_un,
    })
}
