//! Part B: every function of every `temporal_capi::*::ffi` module, called from Rust, against the
//! `temporal_rs` method it names. FFI values are observed through the FFI's own getters (most inner fields
//! are `pub(crate)`), strings through `DiplomatWrite` buffers.

use super::gen19::Bundle;
use super::*;
use crate::run::guard;
use diplomat_runtime::{DiplomatOption, DiplomatWrite};
use std::str::FromStr;
use temporal_capi::calendar::ffi as fcal;
use temporal_capi::duration::ffi as fdur;
use temporal_capi::error::ffi as ferr;
use temporal_capi::instant::ffi as finst;
use temporal_capi::iso::ffi as fiso;
use temporal_capi::options::ffi as fopt;
use temporal_capi::plain_date::ffi as fdate;
use temporal_capi::plain_date_time::ffi as fdt;
use temporal_capi::plain_month_day::ffi as fmd;
use temporal_capi::plain_time::ffi as ftime;
use temporal_capi::plain_year_month::ffi as fym;
use temporal_rs::iso::IsoDate;
use temporal_rs::partial::{PartialDate, PartialDateTime, PartialTime};
use temporal_rs::primitive::FiniteF64;
use temporal_rs::{Calendar, DateDuration, Duration, Instant, MonthCode, PlainDate, PlainDateTime, PlainMonthDay, PlainTime, PlainYearMonth, TimeDuration, TinyAsciiStr};

pub type FErr = ferr::TemporalError;

/// every FFI function exercised by this sub-check ("Type::function", FFI type names)
pub const NAMES: [&str; 187] = [
    // calendar.rs
    "AnyCalendarKind::get_for_bcp47_string",
    "Calendar::create",
    "Calendar::from_utf8",
    "Calendar::is_iso",
    "Calendar::identifier",
    "Calendar::date_from_partial",
    "Calendar::month_day_from_partial",
    "Calendar::year_month_from_partial",
    "Calendar::date_add",
    "Calendar::date_until",
    "Calendar::era",
    "Calendar::era_year",
    "Calendar::year",
    "Calendar::month",
    "Calendar::month_code",
    "Calendar::day",
    "Calendar::day_of_week",
    "Calendar::day_of_year",
    "Calendar::week_of_year",
    "Calendar::year_of_week",
    "Calendar::days_in_week",
    "Calendar::days_in_month",
    "Calendar::days_in_year",
    "Calendar::months_in_year",
    "Calendar::in_leap_year",
    // duration.rs
    "PartialDuration::is_empty",
    "TimeDuration::new",
    "TimeDuration::abs",
    "TimeDuration::negated",
    "TimeDuration::is_within_range",
    "TimeDuration::sign",
    "DateDuration::new",
    "DateDuration::abs",
    "DateDuration::negated",
    "DateDuration::sign",
    "Duration::create",
    "Duration::from_day_and_time",
    "Duration::from_partial_duration",
    "Duration::is_time_within_range",
    "Duration::time",
    "Duration::date",
    "Duration::years",
    "Duration::months",
    "Duration::weeks",
    "Duration::days",
    "Duration::hours",
    "Duration::minutes",
    "Duration::seconds",
    "Duration::milliseconds",
    "Duration::microseconds",
    "Duration::nanoseconds",
    "Duration::sign",
    "Duration::is_zero",
    "Duration::abs",
    "Duration::negated",
    "Duration::add",
    "Duration::subtract",
    // instant.rs
    "Instant::try_new",
    "Instant::from_epoch_milliseconds",
    "Instant::add",
    "Instant::add_time_duration",
    "Instant::subtract",
    "Instant::subtract_time_duration",
    "Instant::since",
    "Instant::until",
    "Instant::round",
    "Instant::epoch_milliseconds",
    "Instant::epoch_nanoseconds",
    // plain_date.rs
    "PlainDate::create",
    "PlainDate::try_create",
    "PlainDate::create_with_overflow",
    "PlainDate::from_partial",
    "PlainDate::with",
    "PlainDate::with_calendar",
    "PlainDate::iso_year",
    "PlainDate::iso_month",
    "PlainDate::iso_day",
    "PlainDate::calendar",
    "PlainDate::is_valid",
    "PlainDate::add",
    "PlainDate::subtract",
    "PlainDate::until",
    "PlainDate::since",
    "PlainDate::year",
    "PlainDate::month",
    "PlainDate::month_code",
    "PlainDate::day",
    "PlainDate::day_of_week",
    "PlainDate::day_of_year",
    "PlainDate::week_of_year",
    "PlainDate::year_of_week",
    "PlainDate::days_in_week",
    "PlainDate::days_in_month",
    "PlainDate::days_in_year",
    "PlainDate::months_in_year",
    "PlainDate::in_leap_year",
    "PlainDate::era",
    "PlainDate::era_year",
    "PlainDate::to_plain_date_time",
    "PlainDate::to_plain_month_day",
    "PlainDate::to_plain_year_month",
    "PlainDate::to_ixdtf_string",
    // plain_date_time.rs
    "PlainDateTime::create",
    "PlainDateTime::try_create",
    "PlainDateTime::from_partial",
    "PlainDateTime::with",
    "PlainDateTime::with_time",
    "PlainDateTime::with_calendar",
    "PlainDateTime::iso_year",
    "PlainDateTime::iso_month",
    "PlainDateTime::iso_day",
    "PlainDateTime::hour",
    "PlainDateTime::minute",
    "PlainDateTime::second",
    "PlainDateTime::millisecond",
    "PlainDateTime::microsecond",
    "PlainDateTime::nanosecond",
    "PlainDateTime::calendar",
    "PlainDateTime::year",
    "PlainDateTime::month",
    "PlainDateTime::month_code",
    "PlainDateTime::day",
    "PlainDateTime::day_of_week",
    "PlainDateTime::day_of_year",
    "PlainDateTime::week_of_year",
    "PlainDateTime::year_of_week",
    "PlainDateTime::days_in_week",
    "PlainDateTime::days_in_month",
    "PlainDateTime::days_in_year",
    "PlainDateTime::months_in_year",
    "PlainDateTime::in_leap_year",
    "PlainDateTime::era",
    "PlainDateTime::era_year",
    "PlainDateTime::add",
    "PlainDateTime::subtract",
    "PlainDateTime::until",
    "PlainDateTime::since",
    "PlainDateTime::round",
    "PlainDateTime::to_plain_date",
    "PlainDateTime::to_plain_time",
    "PlainDateTime::to_ixdtf_string",
    // plain_time.rs
    "PlainTime::create",
    "PlainTime::try_create",
    "PlainTime::from_partial",
    "PlainTime::with",
    "PlainTime::hour",
    "PlainTime::minute",
    "PlainTime::second",
    "PlainTime::millisecond",
    "PlainTime::microsecond",
    "PlainTime::nanosecond",
    "PlainTime::add",
    "PlainTime::subtract",
    "PlainTime::add_time_duration",
    "PlainTime::subtract_time_duration",
    "PlainTime::until",
    "PlainTime::since",
    "PlainTime::round",
    "PlainTime::to_ixdtf_string",
    // plain_month_day.rs
    "PlainMonthDay::create_with_overflow",
    "PlainMonthDay::with",
    "PlainMonthDay::iso_year",
    "PlainMonthDay::iso_month",
    "PlainMonthDay::iso_day",
    "PlainMonthDay::calendar",
    "PlainMonthDay::month_code",
    "PlainMonthDay::to_plain_date",
    // plain_year_month.rs
    "PlainYearMonth::create_with_overflow",
    "PlainYearMonth::with",
    "PlainYearMonth::iso_year",
    "PlainYearMonth::padded_iso_year_string",
    "PlainYearMonth::iso_month",
    "PlainYearMonth::year",
    "PlainYearMonth::month",
    "PlainYearMonth::month_code",
    "PlainYearMonth::in_leap_year",
    "PlainYearMonth::days_in_month",
    "PlainYearMonth::days_in_year",
    "PlainYearMonth::months_in_year",
    "PlainYearMonth::era",
    "PlainYearMonth::era_year",
    "PlainYearMonth::calendar",
    "PlainYearMonth::add",
    "PlainYearMonth::subtract",
    "PlainYearMonth::until",
    "PlainYearMonth::since",
    "PlainYearMonth::to_plain_date",
];

// ---------------------------------------------------------------------------------------------
// FFI-side helpers

pub fn fk(e: &FErr) -> String {
    match e.kind {
        ferr::ErrorKind::Generic => "Generic",
        ferr::ErrorKind::Type => "Type",
        ferr::ErrorKind::Range => "Range",
        ferr::ErrorKind::Syntax => "Syntax",
        ferr::ErrorKind::Assert => "Assert",
    }
    .to_string()
}

// the C entry points a foreign caller uses to read a Rust-backed write buffer (not re-exported as Rust
// items by diplomat-runtime, but `#[no_mangle] extern "C"` symbols of that crate)
extern "C" {
    fn diplomat_buffer_write_get_bytes(this: &DiplomatWrite) -> *mut u8;
    fn diplomat_buffer_write_len(this: &DiplomatWrite) -> usize;
}

/// run `f` with a fresh Rust-backed `DiplomatWrite` (tiny initial capacity, so `grow` is exercised) and
/// return what was written
pub fn written<T>(f: impl FnOnce(&mut DiplomatWrite) -> T) -> (T, String) {
    let w = diplomat_runtime::diplomat_buffer_write_create(2);
    // SAFETY: `w` comes from diplomat_buffer_write_create and is destroyed exactly once below
    let r = f(unsafe { &mut *w });
    let s = unsafe {
        let wr = &*w;
        let len = diplomat_buffer_write_len(wr);
        let ptr = diplomat_buffer_write_get_bytes(wr);
        let s = if ptr.is_null() { "<alloc-failed>".to_string() } else { String::from_utf8_lossy(std::slice::from_raw_parts(ptr, len)).into_owned() };
        diplomat_runtime::diplomat_buffer_write_destroy(w);
        s
    };
    (r, s)
}

pub fn f_unit(i: u8) -> fopt::Unit {
    match i % 11 {
        0 => fopt::Unit::Auto,
        1 => fopt::Unit::Nanosecond,
        2 => fopt::Unit::Microsecond,
        3 => fopt::Unit::Millisecond,
        4 => fopt::Unit::Second,
        5 => fopt::Unit::Minute,
        6 => fopt::Unit::Hour,
        7 => fopt::Unit::Day,
        8 => fopt::Unit::Week,
        9 => fopt::Unit::Month,
        _ => fopt::Unit::Year,
    }
}
pub fn f_mode(i: u8) -> fopt::RoundingMode {
    match i % 9 {
        0 => fopt::RoundingMode::Ceil,
        1 => fopt::RoundingMode::Floor,
        2 => fopt::RoundingMode::Expand,
        3 => fopt::RoundingMode::Trunc,
        4 => fopt::RoundingMode::HalfCeil,
        5 => fopt::RoundingMode::HalfFloor,
        6 => fopt::RoundingMode::HalfExpand,
        7 => fopt::RoundingMode::HalfTrunc,
        _ => fopt::RoundingMode::HalfEven,
    }
}
pub fn f_overflow(i: u8) -> fopt::ArithmeticOverflow {
    if i % 2 == 0 {
        fopt::ArithmeticOverflow::Constrain
    } else {
        fopt::ArithmeticOverflow::Reject
    }
}
pub fn f_display_cal(i: u8) -> fopt::DisplayCalendar {
    match i % 4 {
        0 => fopt::DisplayCalendar::Auto,
        1 => fopt::DisplayCalendar::Always,
        2 => fopt::DisplayCalendar::Never,
        _ => fopt::DisplayCalendar::Critical,
    }
}
fn dopt<T>(o: Option<T>) -> DiplomatOption<T> {
    o.into()
}
pub fn f_diff(b: &Bundle) -> fopt::DifferenceSettings {
    fopt::DifferenceSettings { largest_unit: dopt(b.lu.map(f_unit)), smallest_unit: dopt(b.su.map(f_unit)), rounding_mode: dopt(b.rm.map(f_mode)), increment: dopt(b.inc) }
}
pub fn f_round(b: &Bundle) -> fopt::RoundingOptions {
    fopt::RoundingOptions { largest_unit: dopt(b.lu.map(f_unit)), smallest_unit: dopt(b.su.map(f_unit)), rounding_mode: dopt(b.rm.map(f_mode)), increment: dopt(b.inc) }
}
pub fn f_tostring(b: &Bundle) -> fopt::ToStringRoundingOptions {
    fopt::ToStringRoundingOptions {
        precision: fopt::Precision { is_minute: b.pmin, precision: dopt(b.pdig) },
        smallest_unit: dopt(b.su.map(f_unit)),
        rounding_mode: dopt(b.rm.map(f_mode)),
    }
}
/// core-side settings; an inadmissible increment is an error, as in the FFI conversion
pub fn c_diff(b: &Bundle) -> TemporalResult<DifferenceSettings> {
    let mut s = DifferenceSettings::default();
    s.largest_unit = unit_of(b.lu);
    s.smallest_unit = unit_of(b.su);
    s.rounding_mode = mode_of(b.rm);
    s.increment = b.inc.map(RoundingIncrement::try_new).transpose()?;
    Ok(s)
}
pub fn c_round(b: &Bundle) -> TemporalResult<RoundingOptions> {
    let mut s = RoundingOptions::default();
    s.largest_unit = unit_of(b.lu);
    s.smallest_unit = unit_of(b.su);
    s.rounding_mode = mode_of(b.rm);
    s.increment = b.inc.map(RoundingIncrement::try_new).transpose()?;
    Ok(s)
}
pub fn c_tostring(b: &Bundle) -> temporal_rs::options::ToStringRoundingOptions {
    temporal_rs::options::ToStringRoundingOptions { precision: precision_of(b), smallest_unit: unit_of(b.su), rounding_mode: mode_of(b.rm) }
}

// renderings of FFI objects through their own getters (same formats as the core renderings in c19.rs)
impl<T: Show + ?Sized> Show for Box<T> {
    fn show(&self) -> String {
        (**self).show()
    }
}
impl Show for fdate::PlainDate {
    fn show(&self) -> String {
        format!("{}-{}-{}[{}]", self.iso_year(), self.iso_month(), self.iso_day(), self.calendar().identifier())
    }
}
impl Show for ftime::PlainTime {
    fn show(&self) -> String {
        format!("{}:{}:{}.{}.{}.{}", self.hour(), self.minute(), self.second(), self.millisecond(), self.microsecond(), self.nanosecond())
    }
}
impl Show for fdt::PlainDateTime {
    fn show(&self) -> String {
        format!(
            "{}-{}-{}T{}:{}:{}.{}.{}.{}[{}]",
            self.iso_year(),
            self.iso_month(),
            self.iso_day(),
            self.hour(),
            self.minute(),
            self.second(),
            self.millisecond(),
            self.microsecond(),
            self.nanosecond(),
            self.calendar().identifier()
        )
    }
}
impl Show for fym::PlainYearMonth {
    fn show(&self) -> String {
        let mc = written(|w| self.month_code(w)).1;
        format!("{}-{}[{}] y={} m={} mc={}", self.iso_year(), self.iso_month(), self.calendar().identifier(), self.year(), self.month(), mc)
    }
}
impl Show for fmd::PlainMonthDay {
    fn show(&self) -> String {
        let mc = written(|w| self.month_code(w)).1;
        format!("{}-{}-{}[{}] mc={}", self.iso_year(), self.iso_month(), self.iso_day(), self.calendar().identifier(), mc)
    }
}
impl Show for fdur::Duration {
    fn show(&self) -> String {
        format!(
            "{:?}",
            [
                self.years(),
                self.months(),
                self.weeks(),
                self.days(),
                self.hours(),
                self.minutes(),
                self.seconds(),
                self.milliseconds(),
                self.microseconds(),
                self.nanoseconds()
            ]
        )
    }
}
impl Show for finst::Instant {
    fn show(&self) -> String {
        format!("{}", self.0.as_i128())
    }
}
impl Show for fcal::Calendar {
    fn show(&self) -> String {
        self.identifier().to_string()
    }
}
impl Show for Calendar {
    fn show(&self) -> String {
        self.identifier().to_string()
    }
}
impl Show for &'static str {
    fn show(&self) -> String {
        self.to_string()
    }
}
/// `TimeDuration` / `DateDuration` have no field getters in the FFI. Both FFI types carry
/// `#[diplomat::transparent_convert]`, i.e. `#[repr(transparent)]` over the core type, so viewing the
/// reference as the core type is sound; it is the only way to observe all fields.
fn td_inner(t: &fdur::TimeDuration) -> &TimeDuration {
    // SAFETY: repr(transparent) wrapper around temporal_rs::TimeDuration
    unsafe { &*(t as *const fdur::TimeDuration as *const TimeDuration) }
}
fn dd_inner(t: &fdur::DateDuration) -> &DateDuration {
    // SAFETY: repr(transparent) wrapper around temporal_rs::DateDuration
    unsafe { &*(t as *const fdur::DateDuration as *const DateDuration) }
}
impl Show for TimeDuration {
    fn show(&self) -> String {
        format!(
            "T{:?}",
            [self.hours.as_inner(), self.minutes.as_inner(), self.seconds.as_inner(), self.milliseconds.as_inner(), self.microseconds.as_inner(), self.nanoseconds.as_inner()]
        )
    }
}
impl Show for DateDuration {
    fn show(&self) -> String {
        format!("D{:?}", [self.years.as_inner(), self.months.as_inner(), self.weeks.as_inner(), self.days.as_inner()])
    }
}
impl Show for fdur::TimeDuration {
    fn show(&self) -> String {
        td_inner(self).show()
    }
}
impl Show for fdur::DateDuration {
    fn show(&self) -> String {
        dd_inner(self).show()
    }
}
impl Show for temporal_rs::Sign {
    fn show(&self) -> String {
        format!("{:?}", self)
    }
}
impl Show for fdur::Sign {
    fn show(&self) -> String {
        match self {
            fdur::Sign::Positive => "Positive",
            fdur::Sign::Zero => "Zero",
            fdur::Sign::Negative => "Negative",
        }
        .to_string()
    }
}

pub fn fr<T: Show>(r: Result<T, FErr>) -> R {
    match r {
        Ok(v) => Ok(v.show()),
        Err(e) => Err(fk(&e)),
    }
}
pub fn ok<T: Show>(v: T) -> R {
    Ok(v.show())
}

// ---------------------------------------------------------------------------------------------
// receivers and arguments, built on both sides

pub enum Out {
    /// (ffi, core)
    Both(R, R),
    NoInput(&'static str),
    /// executed but not compared (reason)
    Unjudged(&'static str),
    /// the two layers already disagree while building the receiver
    Receiver(String, R, R),
    /// the core method itself panicked (C03's subject): the FFI function is not called, case not judged
    CorePanic(String),
}

/// evaluate the core side first, then the FFI side, each with panic capture
macro_rules! both {
    ($f:expr, $c:expr $(,)?) => {{
        match guard(|| $c) {
            Err(p) => Out::CorePanic(p),
            Ok(c) => match guard(|| $f) {
                Ok(f) => Out::Both(f, c),
                Err(p) => Out::Both(Err(format!("PANIC {p}")), c),
            },
        }
    }};
}

fn cal_pair(id: &str) -> Option<(fcal::Calendar, Calendar)> {
    let c = Calendar::from_str(id).ok()?;
    Some((fcal::Calendar(c.clone()), c))
}

fn fin(v: [f64; 10]) -> TemporalResult<[FiniteF64; 10]> {
    let mut out = [FiniteF64::default(); 10];
    for i in 0..10 {
        out[i] = FiniteF64::try_from(v[i])?;
    }
    Ok(out)
}

/// the ten duration fields as doubles; `special` may inject NaN / inf / a fraction into field k
fn dur_f64(d: &[i64; 10], special: u8, k: u8, n: usize) -> [f64; 10] {
    let mut v = d.map(|x| x as f64);
    let i = (k as usize) % n;
    match special {
        1 => v[i] = f64::NAN,
        2 => v[i] = f64::INFINITY,
        3 => v[i] = f64::NEG_INFINITY,
        4 => v[i] += 0.5,
        _ => {}
    }
    v
}

fn core_duration(v: [f64; 10]) -> TemporalResult<Duration> {
    let f = fin(v)?;
    Duration::new(f[0], f[1], f[2], f[3], f[4], f[5], f[6], f[7], f[8], f[9])
}
fn ffi_duration(v: [f64; 10]) -> Result<Box<fdur::Duration>, FErr> {
    fdur::Duration::create(v[0], v[1], v[2], v[3], v[4], v[5], v[6], v[7], v[8], v[9])
}

macro_rules! pair_or_return {
    ($what:expr, $ffi:expr, $core:expr) => {{
        match ($ffi, $core) {
            (Ok(f), Ok(c)) => (f, c),
            (Err(_), Err(_)) => return Out::NoInput(concat!($what, "-not-constructible")),
            (f, c) => return Out::Receiver($what.to_string(), f.map(|x| x.show()).map_err(|e| fk(&e)), c.map(|x| x.show()).map_err(|e| ek(&e))),
        }
    }};
}

fn iso_pair(a: &[i32; 9]) -> (fiso::IsoDate, IsoDate) {
    let mut d = IsoDate::default();
    d.year = a[0];
    d.month = a[1] as u8;
    d.day = a[2] as u8;
    (fiso::IsoDate { year: a[0], month: a[1] as u8, day: a[2] as u8 }, d)
}

/// partial date on both sides. mask bits: 0 year, 1 month, 2 month code, 3 day, 4 era, 5 era year
struct PartialPair {
    year: Option<i32>,
    month: Option<u8>,
    mcode: String,
    day: Option<u8>,
    era: String,
    era_year: Option<i32>,
}
impl PartialPair {
    fn of(b: &Bundle) -> Self {
        let m = b.mask;
        let month = b.b[1] as u8;
        // month code: either the generated text or (k even) the code consistent with the month
        let mcode = if m & 4 == 0 {
            String::new()
        } else if b.k % 2 == 0 || b.mcode.is_empty() {
            format!("M{:02}", month)
        } else {
            b.mcode.clone()
        };
        PartialPair {
            year: (m & 1 != 0).then_some(b.b[0]),
            month: (m & 2 != 0).then_some(month),
            mcode,
            day: (m & 8 != 0).then_some(b.b[2] as u8),
            era: if m & 16 != 0 { b.era.clone() } else { String::new() },
            era_year: (m & 32 != 0).then_some(b.era_year),
        }
    }
    fn ffi<'a>(&'a self, cal: &'a fcal::Calendar) -> fdate::PartialDate<'a> {
        fdate::PartialDate {
            year: dopt(self.year),
            month: dopt(self.month),
            month_code: self.mcode.as_bytes().into(),
            day: dopt(self.day),
            era: self.era.as_bytes().into(),
            era_year: dopt(self.era_year),
            calendar: cal,
        }
    }
    /// Err(kind) = the text cannot be represented in the core record.
    /// month code: the core's own `MonthCode::try_from_utf8` decides (kind as the core reports it);
    /// era text that does not fit `TinyAsciiStr<19>` has no core counterpart: Err("no-core-counterpart")
    fn core(&self, cal: &Calendar) -> Result<PartialDate, String> {
        let month_code = if self.mcode.is_empty() { None } else { Some(MonthCode::try_from_utf8(self.mcode.as_bytes()).map_err(|e| ek(&e))?) };
        let era = if self.era.is_empty() { None } else { Some(TinyAsciiStr::<19>::try_from_utf8(self.era.as_bytes()).map_err(|_| "no-core-counterpart".to_string())?) };
        Ok(PartialDate { year: self.year, month: self.month, month_code, day: self.day, era, era_year: self.era_year, calendar: cal.clone() })
    }
}

fn partial_time_pair(b: &Bundle) -> (ftime::PartialTime, PartialTime) {
    let m = b.mask >> 4;
    let t = &b.b;
    let g8 = |bit: u16, v: i32| (m & bit != 0).then_some(v as u8);
    let g16 = |bit: u16, v: i32| (m & bit != 0).then_some(v as u16);
    // sometimes out-of-range values (constrain/reject paths)
    let bump = if b.k % 5 == 4 { 60 } else { 0 };
    let (h, mi, s, ms, us, ns) = (g8(1, t[3] + bump), g8(2, t[4] + bump), g8(4, t[5] + bump), g16(8, t[6] + bump * 10), g16(16, t[7]), g16(32, t[8]));
    (
        ftime::PartialTime { hour: dopt(h), minute: dopt(mi), second: dopt(s), millisecond: dopt(ms), microsecond: dopt(us), nanosecond: dopt(ns) },
        PartialTime { hour: h, minute: mi, second: s, millisecond: ms, microsecond: us, nanosecond: ns },
    )
}

/// compare a partial-record based call; handles the text fields that cannot be represented in the core
macro_rules! with_partial {
    ($b:expr, $pp:ident, $fcal:expr, $ccal:expr, |$fp:ident| $ffi:expr, |$cp:ident| $core:expr) => {{
        let $pp = PartialPair::of($b);
        let $fp = $pp.ffi($fcal);
        match $pp.core($ccal) {
            Ok($cp) => both!($ffi, $core),
            Err(k) if k == "no-core-counterpart" => {
                let _ = guard(|| $ffi);
                Out::Unjudged("era-text-not-representable-in-core")
            }
            Err(k) => both!($ffi, Err::<String, String>(k)),
        }
    }};
}

fn run_one(b: &Bundle) -> Out {
    let f = b.f.as_str();
    let (ty, func) = f.split_once("::").unwrap_or(("", ""));
    let a = &b.a;
    let Some((fc, cc)) = cal_pair(&b.cal) else {
        return Out::NoInput("calendar");
    };
    let Some((fc2, cc2)) = cal_pair(&b.cal2) else {
        return Out::NoInput("calendar");
    };
    let ovf_opt_f = b.ovf.map(f_overflow);
    let ovf_opt_c = overflow_of(b.ovf);
    let ovf_f = f_overflow(b.ovf.unwrap_or(b.k));
    let ovf_c = overflow_of(Some(b.ovf.unwrap_or(b.k))).unwrap();
    let raw = &b.raw;
    let durv = b.dur.map(|x| x as f64);
    let durv2 = b.dur2.map(|x| x as f64);

    match ty {
        "AnyCalendarKind" => {
            // BCP-47 spells the ISO calendar "iso"; keep the (unknown) "iso8601" spelling only now and then
            let text = if b.s == "iso8601" && b.k % 8 != 0 { "iso".to_string() } else { b.s.clone() };
            let mut bytes = text.into_bytes();
            if b.fspecial == 1 {
                bytes.push(0xff);
            }
            let got = fcal::AnyCalendarKind::get_for_bcp47_string(&bytes).map(|k| super::conv19::ffi_kind_name(k).to_string());
            let want = icu_calendar::any_calendar::AnyCalendarKind::get_for_bcp47_bytes(&bytes).map(|k| format!("{k:?}"));
            both!(ok(got), ok(want))
        }
        "Calendar" => {
            let b = &super::gen19::project_units(b, 7, 10, false);
            let (fi, ci) = iso_pair(a);
            let (fi2, ci2) = iso_pair(&b.b);
            match func {
                "create" => {
                    let kinds = super::conv19::calendar_kinds();
                    let (_, fk_, ck) = kinds[(b.k as usize) % kinds.len()];
                    both!(ok(fcal::Calendar::create(fk_)), ok(Calendar::new(ck)))
                }
                "from_utf8" => {
                    let mut bytes = b.s.clone().into_bytes();
                    if b.fspecial == 1 {
                        bytes.push(0xff);
                    }
                    both!(fr(fcal::Calendar::from_utf8(&bytes)), show_res(Calendar::from_utf8(&bytes)))
                }
                "is_iso" => both!(ok(fc.is_iso()), ok(cc.is_iso())),
                "identifier" => both!(ok(fc.identifier()), ok(cc.identifier())),
                "date_from_partial" => with_partial!(b, pp, &fc2, &cc2, |fp| fr(fc.date_from_partial(fp, ovf_f)), |cp| show_res(cc.date_from_partial(&cp, ovf_c))),
                "month_day_from_partial" => {
                    with_partial!(b, pp, &fc2, &cc2, |fp| fr(fc.month_day_from_partial(fp, ovf_f)), |cp| show_res(cc.month_day_from_partial(&cp, ovf_c)))
                }
                "year_month_from_partial" => {
                    with_partial!(b, pp, &fc2, &cc2, |fp| fr(fc.year_month_from_partial(fp, ovf_f)), |cp| show_res(cc.year_month_from_partial(&cp, ovf_c)))
                }
                "date_add" => {
                    let (fd, cd) = pair_or_return!("duration", ffi_duration(durv), core_duration(durv));
                    both!(fr(fc.date_add(fi, &fd, ovf_f)), show_res(cc.date_add(&ci, &cd, ovf_c)))
                }
                "date_until" => {
                    let u = b.lu.unwrap_or(b.k);
                    both!(fr(fc.date_until(fi, fi2, f_unit(u))), show_res(cc.date_until(&ci, &ci2, unit_of(Some(u)).unwrap())))
                }
                "era" => {
                    let (r, s) = written(|w| fc.era(fi, w));
                    both!(fr(r.map(|_| s)), ok(cc.era(&ci).map(|e| e.to_string()).unwrap_or_default()))
                }
                "era_year" => both!(ok(fc.era_year(fi)), ok(cc.era_year(&ci))),
                "year" => both!(ok(fc.year(fi)), ok(cc.year(&ci))),
                "month" => both!(ok(fc.month(fi)), ok(cc.month(&ci))),
                "month_code" => {
                    let (r, s) = written(|w| fc.month_code(fi, w));
                    both!(fr(r.map(|_| s)), ok(cc.month_code(&ci).as_str().to_string()))
                }
                "day" => both!(ok(fc.day(fi)), ok(cc.day(&ci))),
                "day_of_week" => both!(ok(fc.day_of_week(fi)), ok(cc.day_of_week(&ci))),
                "day_of_year" => both!(ok(fc.day_of_year(fi)), ok(cc.day_of_year(&ci))),
                "week_of_year" => both!(fr(fc.week_of_year(fi)), show_res(cc.week_of_year(&ci))),
                "year_of_week" => both!(fr(fc.year_of_week(fi)), show_res(cc.year_of_week(&ci))),
                "days_in_week" => both!(fr(fc.days_in_week(fi)), show_res(cc.days_in_week(&ci))),
                "days_in_month" => both!(ok(fc.days_in_month(fi)), ok(cc.days_in_month(&ci))),
                "days_in_year" => both!(ok(fc.days_in_year(fi)), ok(cc.days_in_year(&ci))),
                "months_in_year" => both!(ok(fc.months_in_year(fi)), ok(cc.months_in_year(&ci))),
                "in_leap_year" => both!(ok(fc.in_leap_year(fi)), ok(cc.in_leap_year(&ci))),
                _ => Out::NoInput("unknown-function"),
            }
        }
        "PartialDuration" => {
            // is_empty over a subset mask; k % 7 == 6 injects a non-finite value (conversion error -> false)
            let v = dur_f64(&b.dur, if b.k % 7 == 6 { b.fspecial.max(1) } else { 0 }, b.k, 10);
            let (fp, cp) = super::conv19::partial_duration_pair(&v, b.mask);
            both!(ok(fp.is_empty()), ok(cp.map(|p| p.is_empty()).unwrap_or(false)))
        }
        "TimeDuration" => {
            let v = dur_f64(&b.dur, b.fspecial, b.k, 6);
            let t = [v[4], v[5], v[6], v[7], v[8], v[9]];
            let mk_f = || ftime_dur(t);
            let mk_c = || core_time_dur(t);
            if func == "new" {
                return both!(fr(mk_f()), show_res(mk_c()));
            }
            let (ft, ct) = pair_or_return!("time-duration", mk_f(), mk_c());
            match func {
                "abs" => both!(ok(ft.abs()), ok(ct.abs())),
                "negated" => both!(ok(ft.negated()), ok(ct.negated())),
                "is_within_range" => both!(ok(ft.is_within_range()), ok(ct.is_within_range())),
                "sign" => both!(ok(ft.sign()), ok(ct.sign())),
                _ => Out::NoInput("unknown-function"),
            }
        }
        "DateDuration" => {
            let v = dur_f64(&b.dur, b.fspecial, b.k, 4);
            let d = [v[0], v[1], v[2], v[3]];
            let mk_f = || fdur::DateDuration::new(d[0], d[1], d[2], d[3]);
            let mk_c = || -> TemporalResult<DateDuration> {
                DateDuration::new(FiniteF64::try_from(d[0])?, FiniteF64::try_from(d[1])?, FiniteF64::try_from(d[2])?, FiniteF64::try_from(d[3])?)
            };
            if func == "new" {
                return both!(fr(mk_f()), show_res(mk_c()));
            }
            let (fd, cd) = pair_or_return!("date-duration", mk_f(), mk_c());
            match func {
                "abs" => both!(ok(fd.abs()), ok(cd.abs())),
                "negated" => both!(ok(fd.negated()), ok(cd.negated())),
                "sign" => both!(ok(fd.sign()), ok(cd.sign())),
                _ => Out::NoInput("unknown-function"),
            }
        }
        "Duration" => {
            match func {
                "create" => {
                    let v = dur_f64(&b.dur, b.fspecial, b.k, 10);
                    return both!(fr(ffi_duration(v)), show_res(core_duration(v)));
                }
                "from_day_and_time" => {
                    let v = durv;
                    let t = [v[4], v[5], v[6], v[7], v[8], v[9]];
                    let (ft, ct) = pair_or_return!("time-duration", ftime_dur(t), core_time_dur(t));
                    let day = dur_f64(&b.dur, b.fspecial, 3, 10)[3];
                    return both!(
                        fr(fdur::Duration::from_day_and_time(day, &ft)),
                        show_res(FiniteF64::try_from(day).map(|d| Duration::from_day_and_time(d, &ct))),
                    );
                }
                "from_partial_duration" => {
                    let v = dur_f64(&b.dur, b.fspecial, b.k, 10);
                    let (fp, cp) = super::conv19::partial_duration_pair(&v, b.mask);
                    return both!(fr(fdur::Duration::from_partial_duration(fp)), show_res(cp.and_then(Duration::from_partial_duration)));
                }
                _ => {}
            }
            let (fd, cd) = pair_or_return!("duration", ffi_duration(durv), core_duration(durv));
            match func {
                "is_time_within_range" => both!(ok(fd.is_time_within_range()), ok(cd.is_time_within_range())),
                "time" => both!(ok(td_inner(fd.time()).show()), ok(cd.time().show())),
                "date" => both!(ok(dd_inner(fd.date()).show()), ok(cd.date().show())),
                "years" => both!(ok(fd.years()), ok(cd.years().as_inner())),
                "months" => both!(ok(fd.months()), ok(cd.months().as_inner())),
                "weeks" => both!(ok(fd.weeks()), ok(cd.weeks().as_inner())),
                "days" => both!(ok(fd.days()), ok(cd.days().as_inner())),
                "hours" => both!(ok(fd.hours()), ok(cd.hours().as_inner())),
                "minutes" => both!(ok(fd.minutes()), ok(cd.minutes().as_inner())),
                "seconds" => both!(ok(fd.seconds()), ok(cd.seconds().as_inner())),
                "milliseconds" => both!(ok(fd.milliseconds()), ok(cd.milliseconds().as_inner())),
                "microseconds" => both!(ok(fd.microseconds()), ok(cd.microseconds().as_inner())),
                "nanoseconds" => both!(ok(fd.nanoseconds()), ok(cd.nanoseconds().as_inner())),
                "sign" => both!(ok(fd.sign()), ok(cd.sign())),
                "is_zero" => both!(ok(fd.is_zero()), ok(cd.is_zero())),
                "abs" => both!(ok(fd.abs()), ok(cd.abs())),
                "negated" => both!(ok(fd.negated()), ok(cd.negated())),
                "add" | "subtract" => {
                    let (fd2, cd2) = pair_or_return!("duration", ffi_duration(durv2), core_duration(durv2));
                    if func == "add" {
                        both!(fr(fd.add(&fd2)), show_res(cd.add(&cd2)))
                    } else {
                        both!(fr(fd.subtract(&fd2)), show_res(cd.subtract(&cd2)))
                    }
                }
                _ => Out::NoInput("unknown-function"),
            }
        }
        "Instant" => {
            let b = &super::gen19::project_units(b, 1, 6, func == "round");
            match func {
                "try_new" => return super::conv19::instant_try_new(b.ns),
                "from_epoch_milliseconds" => {
                    // around the +-8.64e15 ms limits, around 0, and anywhere in i64
                    let ms: i64 = match b.k % 4 {
                        0 => (b.ns / 1_000_000) as i64,
                        1 => (b.ns2 % 2_000_000_000_000_000_000) as i64,
                        2 => 8_640_000_000_000_000i64 * if b.opt { 1 } else { -1 } + (b.raw[1] as i64 - 7),
                        _ => (b.ns2 as i64).wrapping_mul(1_000_003),
                    };
                    return both!(fr(finst::Instant::from_epoch_milliseconds(ms)), show_res(Instant::from_epoch_milliseconds(ms)));
                }
                _ => {}
            }
            let Ok(ci) = Instant::try_new(b.ns) else {
                return Out::NoInput("instant-out-of-range");
            };
            let fi = finst::Instant(ci);
            match func {
                "add" | "subtract" => {
                    let (fd, cd) = pair_or_return!("duration", ffi_duration(durv), core_duration(durv));
                    if func == "add" {
                        both!(fr(fi.add(&fd)), show_res(ci.add(cd)))
                    } else {
                        both!(fr(fi.subtract(&fd)), show_res(ci.subtract(cd)))
                    }
                }
                "add_time_duration" | "subtract_time_duration" => {
                    let t = [durv[4], durv[5], durv[6], durv[7], durv[8], durv[9]];
                    let (ft, ct) = pair_or_return!("time-duration", ftime_dur(t), core_time_dur(t));
                    if func == "add_time_duration" {
                        both!(fr(fi.add_time_duration(&ft)), show_res(ci.add_time_duration(&ct)))
                    } else {
                        both!(fr(fi.subtract_time_duration(&ft)), show_res(ci.subtract_time_duration(&ct)))
                    }
                }
                "since" | "until" => {
                    let Ok(c2) = Instant::try_new(b.ns2) else {
                        return Out::NoInput("instant-out-of-range");
                    };
                    let f2 = finst::Instant(c2);
                    if func == "since" {
                        both!(fr(fi.since(&f2, f_diff(b))), show_res(c_diff(b).and_then(|s| ci.since(&c2, s))))
                    } else {
                        both!(fr(fi.until(&f2, f_diff(b))), show_res(c_diff(b).and_then(|s| ci.until(&c2, s))))
                    }
                }
                "round" => both!(fr(fi.round(f_round(b))), show_res(c_round(b).and_then(|o| ci.round(o)))),
                "epoch_milliseconds" => both!(ok(fi.epoch_milliseconds()), ok(ci.epoch_milliseconds())),
                "epoch_nanoseconds" => super::conv19::instant_epoch_nanoseconds(b.ns),
                _ => Out::NoInput("unknown-function"),
            }
        }
        "PlainDate" => {
            let b = &super::gen19::project_units(b, 7, 10, false);
            match func {
                "create" => {
                    return both!(fr(fdate::PlainDate::create(raw[0], raw[1] as u8, raw[2] as u8, &fc)), show_res(PlainDate::new(raw[0], raw[1] as u8, raw[2] as u8, cc.clone())))
                }
                "try_create" => {
                    return both!(
                        fr(fdate::PlainDate::try_create(raw[0], raw[1] as u8, raw[2] as u8, &fc)),
                        show_res(PlainDate::try_new(raw[0], raw[1] as u8, raw[2] as u8, cc.clone())),
                    )
                }
                "create_with_overflow" => {
                    return both!(
                        fr(fdate::PlainDate::create_with_overflow(raw[0], raw[1] as u8, raw[2] as u8, &fc, ovf_f)),
                        show_res(PlainDate::new_with_overflow(raw[0], raw[1] as u8, raw[2] as u8, cc.clone(), ovf_c)),
                    )
                }
                "from_partial" => {
                    return with_partial!(b, pp, &fc, &cc, |fp| fr(fdate::PlainDate::from_partial(fp, ovf_opt_f)), |cp| show_res(PlainDate::from_partial(cp, ovf_opt_c)))
                }
                _ => {}
            }
            let (fd, cd) = pair_or_return!(
                "plain-date",
                fdate::PlainDate::try_create(a[0], a[1] as u8, a[2] as u8, &fc),
                PlainDate::try_new(a[0], a[1] as u8, a[2] as u8, cc.clone())
            );
            match func {
                "with" => with_partial!(b, pp, &fc2, &cc2, |fp| fr(fd.with(fp, ovf_opt_f)), |cp| show_res(cd.with(cp, ovf_opt_c))),
                "with_calendar" => both!(fr(fd.with_calendar(&fc2)), show_res(cd.with_calendar(cc2.clone()))),
                "iso_year" => both!(ok(fd.iso_year()), ok(cd.iso_year())),
                "iso_month" => both!(ok(fd.iso_month()), ok(cd.iso_month())),
                "iso_day" => both!(ok(fd.iso_day()), ok(cd.iso_day())),
                "calendar" => both!(ok(fd.calendar().identifier()), ok(cd.calendar().identifier())),
                "is_valid" => both!(ok(fd.is_valid()), ok(cd.is_valid())),
                "add" | "subtract" => {
                    let (fdu, cdu) = pair_or_return!("duration", ffi_duration(durv), core_duration(durv));
                    if func == "add" {
                        both!(fr(fd.add(&fdu, ovf_opt_f)), show_res(cd.add(&cdu, ovf_opt_c)))
                    } else {
                        both!(fr(fd.subtract(&fdu, ovf_opt_f)), show_res(cd.subtract(&cdu, ovf_opt_c)))
                    }
                }
                "until" | "since" => {
                    let o = &b.b;
                    let (fo, co) = pair_or_return!(
                        "plain-date",
                        fdate::PlainDate::try_create(o[0], o[1] as u8, o[2] as u8, &fc2),
                        PlainDate::try_new(o[0], o[1] as u8, o[2] as u8, cc2.clone())
                    );
                    if func == "until" {
                        both!(fr(fd.until(&fo, f_diff(b))), show_res(c_diff(b).and_then(|s| cd.until(&co, s))))
                    } else {
                        both!(fr(fd.since(&fo, f_diff(b))), show_res(c_diff(b).and_then(|s| cd.since(&co, s))))
                    }
                }
                "year" => both!(ok(fd.year()), ok(cd.year())),
                "month" => both!(ok(fd.month()), ok(cd.month())),
                "month_code" => both!(ok(written(|w| fd.month_code(w)).1), ok(cd.month_code().as_str().to_string())),
                "day" => both!(ok(fd.day()), ok(cd.day())),
                "day_of_week" => both!(ok(fd.day_of_week()), ok(cd.day_of_week())),
                "day_of_year" => both!(ok(fd.day_of_year()), ok(cd.day_of_year())),
                "week_of_year" => both!(fr(fd.week_of_year()), show_res(cd.week_of_year())),
                "year_of_week" => both!(fr(fd.year_of_week()), show_res(cd.year_of_week())),
                "days_in_week" => both!(fr(fd.days_in_week()), show_res(cd.days_in_week())),
                "days_in_month" => both!(ok(fd.days_in_month()), ok(cd.days_in_month())),
                "days_in_year" => both!(ok(fd.days_in_year()), ok(cd.days_in_year())),
                "months_in_year" => both!(ok(fd.months_in_year()), ok(cd.months_in_year())),
                "in_leap_year" => both!(ok(fd.in_leap_year()), ok(cd.in_leap_year())),
                "era" => both!(ok(written(|w| fd.era(w)).1), ok(cd.era().map(|e| e.to_string()).unwrap_or_default())),
                "era_year" => both!(ok(fd.era_year()), ok(cd.era_year())),
                "to_plain_date_time" => {
                    let t = &b.b;
                    let (ft, ct) = pair_or_return!(
                        "plain-time",
                        ftime::PlainTime::try_create(t[3] as u8, t[4] as u8, t[5] as u8, t[6] as u16, t[7] as u16, t[8] as u16),
                        PlainTime::try_new(t[3] as u8, t[4] as u8, t[5] as u8, t[6] as u16, t[7] as u16, t[8] as u16)
                    );
                    if b.opt {
                        both!(fr(fd.to_plain_date_time(Some(&ft))), show_res(cd.to_plain_date_time(Some(ct))))
                    } else {
                        both!(fr(fd.to_plain_date_time(None)), show_res(cd.to_plain_date_time(None)))
                    }
                }
                "to_plain_month_day" => both!(fr(fd.to_plain_month_day()), show_res(cd.to_plain_month_day())),
                "to_plain_year_month" => both!(fr(fd.to_plain_year_month()), show_res(cd.to_plain_year_month())),
                "to_ixdtf_string" => both!(ok(written(|w| fd.to_ixdtf_string(f_display_cal(b.dc), w)).1), ok(cd.to_ixdtf_string(display_cal_of(b.dc)))),
                _ => Out::NoInput("unknown-function"),
            }
        }
        "PlainDateTime" => {
            let b = &super::gen19::project_units(b, 1, 10, func == "round");
            let r = raw;
            match func {
                "create" => {
                    return both!(
                        fr(fdt::PlainDateTime::create(r[0], r[1] as u8, r[2] as u8, r[3] as u8, r[4] as u8, r[5] as u8, r[6] as u16, r[7] as u16, r[8] as u16, &fc)),
                        show_res(PlainDateTime::new(r[0], r[1] as u8, r[2] as u8, r[3] as u8, r[4] as u8, r[5] as u8, r[6] as u16, r[7] as u16, r[8] as u16, cc.clone())),
                    )
                }
                "try_create" => {
                    return both!(
                        fr(fdt::PlainDateTime::try_create(r[0], r[1] as u8, r[2] as u8, r[3] as u8, r[4] as u8, r[5] as u8, r[6] as u16, r[7] as u16, r[8] as u16, &fc)),
                        show_res(PlainDateTime::try_new(r[0], r[1] as u8, r[2] as u8, r[3] as u8, r[4] as u8, r[5] as u8, r[6] as u16, r[7] as u16, r[8] as u16, cc.clone())),
                    )
                }
                "from_partial" => {
                    let (ftp, ctp) = partial_time_pair(b);
                    return with_partial!(
                        b,
                        pp,
                        &fc,
                        &cc,
                        |fp| fr(fdt::PlainDateTime::from_partial(fdt::PartialDateTime { date: fp, time: ftp }, ovf_opt_f)),
                        |cp| show_res(PlainDateTime::from_partial(PartialDateTime { date: cp, time: ctp }, ovf_opt_c))
                    );
                }
                _ => {}
            }
            let mk = |x: &[i32; 9], fcal_: &fcal::Calendar, ccal_: &Calendar| {
                (
                    fdt::PlainDateTime::try_create(x[0], x[1] as u8, x[2] as u8, x[3] as u8, x[4] as u8, x[5] as u8, x[6] as u16, x[7] as u16, x[8] as u16, fcal_),
                    PlainDateTime::try_new(x[0], x[1] as u8, x[2] as u8, x[3] as u8, x[4] as u8, x[5] as u8, x[6] as u16, x[7] as u16, x[8] as u16, ccal_.clone()),
                )
            };
            let (f0, c0) = mk(a, &fc, &cc);
            let (fd, cd) = pair_or_return!("plain-date-time", f0, c0);
            match func {
                "with" => {
                    let (ftp, ctp) = partial_time_pair(b);
                    with_partial!(
                        b,
                        pp,
                        &fc2,
                        &cc2,
                        |fp| fr(fd.with(fdt::PartialDateTime { date: fp, time: ftp }, ovf_opt_f)),
                        |cp| show_res(cd.with(PartialDateTime { date: cp, time: ctp }, ovf_opt_c))
                    )
                }
                "with_time" => {
                    let t = &b.b;
                    let (ft, ct) = pair_or_return!(
                        "plain-time",
                        ftime::PlainTime::try_create(t[3] as u8, t[4] as u8, t[5] as u8, t[6] as u16, t[7] as u16, t[8] as u16),
                        PlainTime::try_new(t[3] as u8, t[4] as u8, t[5] as u8, t[6] as u16, t[7] as u16, t[8] as u16)
                    );
                    both!(fr(fd.with_time(&ft)), show_res(cd.with_time(ct)))
                }
                "with_calendar" => both!(fr(fd.with_calendar(&fc2)), show_res(cd.with_calendar(cc2.clone()))),
                "iso_year" => both!(ok(fd.iso_year()), ok(cd.iso_year())),
                "iso_month" => both!(ok(fd.iso_month()), ok(cd.iso_month())),
                "iso_day" => both!(ok(fd.iso_day()), ok(cd.iso_day())),
                "hour" => both!(ok(fd.hour()), ok(cd.hour())),
                "minute" => both!(ok(fd.minute()), ok(cd.minute())),
                "second" => both!(ok(fd.second()), ok(cd.second())),
                "millisecond" => both!(ok(fd.millisecond()), ok(cd.millisecond())),
                "microsecond" => both!(ok(fd.microsecond()), ok(cd.microsecond())),
                "nanosecond" => both!(ok(fd.nanosecond()), ok(cd.nanosecond())),
                "calendar" => both!(ok(fd.calendar().identifier()), ok(cd.calendar().identifier())),
                "year" => both!(ok(fd.year()), ok(cd.year())),
                "month" => both!(ok(fd.month()), ok(cd.month())),
                "month_code" => both!(ok(written(|w| fd.month_code(w)).1), ok(cd.month_code().as_str().to_string())),
                "day" => both!(ok(fd.day()), ok(cd.day())),
                "day_of_week" => both!(ok(fd.day_of_week()), ok(cd.day_of_week())),
                "day_of_year" => both!(ok(fd.day_of_year()), ok(cd.day_of_year())),
                "week_of_year" => both!(fr(fd.week_of_year()), show_res(cd.week_of_year())),
                "year_of_week" => both!(fr(fd.year_of_week()), show_res(cd.year_of_week())),
                "days_in_week" => both!(fr(fd.days_in_week()), show_res(cd.days_in_week())),
                "days_in_month" => both!(ok(fd.days_in_month()), ok(cd.days_in_month())),
                "days_in_year" => both!(ok(fd.days_in_year()), ok(cd.days_in_year())),
                "months_in_year" => both!(ok(fd.months_in_year()), ok(cd.months_in_year())),
                "in_leap_year" => both!(ok(fd.in_leap_year()), ok(cd.in_leap_year())),
                "era" => both!(ok(written(|w| fd.era(w)).1), ok(cd.era().map(|e| e.to_string()).unwrap_or_default())),
                "era_year" => both!(ok(fd.era_year()), ok(cd.era_year())),
                "add" | "subtract" => {
                    let (fdu, cdu) = pair_or_return!("duration", ffi_duration(durv), core_duration(durv));
                    if func == "add" {
                        both!(fr(fd.add(&fdu, ovf_opt_f)), show_res(cd.add(&cdu, ovf_opt_c)))
                    } else {
                        both!(fr(fd.subtract(&fdu, ovf_opt_f)), show_res(cd.subtract(&cdu, ovf_opt_c)))
                    }
                }
                "until" | "since" => {
                    let (f1, c1) = mk(&b.b, &fc2, &cc2);
                    let (fo, co) = pair_or_return!("plain-date-time", f1, c1);
                    if func == "until" {
                        both!(fr(fd.until(&fo, f_diff(b))), show_res(c_diff(b).and_then(|s| cd.until(&co, s))))
                    } else {
                        both!(fr(fd.since(&fo, f_diff(b))), show_res(c_diff(b).and_then(|s| cd.since(&co, s))))
                    }
                }
                "round" => both!(fr(fd.round(f_round(b))), show_res(c_round(b).and_then(|o| cd.round(o)))),
                "to_plain_date" => both!(fr(fd.to_plain_date()), show_res(cd.to_plain_date())),
                "to_plain_time" => both!(fr(fd.to_plain_time()), show_res(cd.to_plain_time())),
                "to_ixdtf_string" => {
                    let (r, s) = written(|w| fd.to_ixdtf_string(f_tostring(b), f_display_cal(b.dc), w));
                    both!(fr(r.map(|_| s)), show_res(cd.to_ixdtf_string(c_tostring(b), display_cal_of(b.dc))))
                }
                _ => Out::NoInput("unknown-function"),
            }
        }
        "PlainTime" => {
            let b = &super::gen19::project_units(b, 1, 6, func == "round");
            let r = raw;
            match func {
                "create" => {
                    return both!(
                        fr(ftime::PlainTime::create(r[3] as u8, r[4] as u8, r[5] as u8, r[6] as u16, r[7] as u16, r[8] as u16)),
                        show_res(PlainTime::new(r[3] as u8, r[4] as u8, r[5] as u8, r[6] as u16, r[7] as u16, r[8] as u16)),
                    )
                }
                "try_create" => {
                    return both!(
                        fr(ftime::PlainTime::try_create(r[3] as u8, r[4] as u8, r[5] as u8, r[6] as u16, r[7] as u16, r[8] as u16)),
                        show_res(PlainTime::try_new(r[3] as u8, r[4] as u8, r[5] as u8, r[6] as u16, r[7] as u16, r[8] as u16)),
                    )
                }
                "from_partial" => {
                    let (fp, cp) = partial_time_pair(b);
                    return both!(fr(ftime::PlainTime::from_partial(fp, ovf_opt_f)), show_res(PlainTime::from_partial(cp, ovf_opt_c)));
                }
                _ => {}
            }
            let mk = |t: &[i32; 9]| {
                (
                    ftime::PlainTime::try_create(t[3] as u8, t[4] as u8, t[5] as u8, t[6] as u16, t[7] as u16, t[8] as u16),
                    PlainTime::try_new(t[3] as u8, t[4] as u8, t[5] as u8, t[6] as u16, t[7] as u16, t[8] as u16),
                )
            };
            let (f0, c0) = mk(a);
            let (ft, ct) = pair_or_return!("plain-time", f0, c0);
            match func {
                "with" => {
                    let (fp, cp) = partial_time_pair(b);
                    both!(fr(ft.with(fp, ovf_opt_f)), show_res(ct.with(cp, ovf_opt_c)))
                }
                "hour" => both!(ok(ft.hour()), ok(ct.hour())),
                "minute" => both!(ok(ft.minute()), ok(ct.minute())),
                "second" => both!(ok(ft.second()), ok(ct.second())),
                "millisecond" => both!(ok(ft.millisecond()), ok(ct.millisecond())),
                "microsecond" => both!(ok(ft.microsecond()), ok(ct.microsecond())),
                "nanosecond" => both!(ok(ft.nanosecond()), ok(ct.nanosecond())),
                "add" | "subtract" => {
                    let (fdu, cdu) = pair_or_return!("duration", ffi_duration(durv), core_duration(durv));
                    if func == "add" {
                        both!(fr(ft.add(&fdu)), show_res(ct.add(&cdu)))
                    } else {
                        both!(fr(ft.subtract(&fdu)), show_res(ct.subtract(&cdu)))
                    }
                }
                "add_time_duration" | "subtract_time_duration" => {
                    let t = [durv[4], durv[5], durv[6], durv[7], durv[8], durv[9]];
                    let (ftd, ctd) = pair_or_return!("time-duration", ftime_dur(t), core_time_dur(t));
                    if func == "add_time_duration" {
                        both!(fr(ft.add_time_duration(&ftd)), show_res(ct.add_time_duration(&ctd)))
                    } else {
                        both!(fr(ft.subtract_time_duration(&ftd)), show_res(ct.subtract_time_duration(&ctd)))
                    }
                }
                "until" | "since" => {
                    let (f1, c1) = mk(&b.b);
                    let (fo, co) = pair_or_return!("plain-time", f1, c1);
                    if func == "until" {
                        both!(fr(ft.until(&fo, f_diff(b))), show_res(c_diff(b).and_then(|s| ct.until(&co, s))))
                    } else {
                        both!(fr(ft.since(&fo, f_diff(b))), show_res(c_diff(b).and_then(|s| ct.since(&co, s))))
                    }
                }
                "round" => {
                    let u = b.su.unwrap_or(b.k);
                    let inc: Option<f64> = match b.inc {
                        None => None,
                        Some(i) => Some(match b.fspecial {
                            1 => f64::NAN,
                            2 => f64::INFINITY,
                            4 => i as f64 + 0.5,
                            _ => i as f64,
                        }),
                    };
                    both!(fr(ft.round(f_unit(u), inc, b.rm.map(f_mode))), show_res(ct.round(unit_of(Some(u)).unwrap(), inc, mode_of(b.rm))))
                }
                "to_ixdtf_string" => {
                    let (r, s) = written(|w| ft.to_ixdtf_string(f_tostring(b), w));
                    both!(fr(r.map(|_| s)), show_res(ct.to_ixdtf_string(c_tostring(b))))
                }
                _ => Out::NoInput("unknown-function"),
            }
        }
        "PlainMonthDay" => {
            if func == "create_with_overflow" {
                let ry = b.opt.then_some(raw[0]);
                return both!(
                    fr(fmd::PlainMonthDay::create_with_overflow(raw[1] as u8, raw[2] as u8, &fc, ovf_f, ry)),
                    show_res(PlainMonthDay::new_with_overflow(raw[1] as u8, raw[2] as u8, cc.clone(), ovf_c, ry)),
                );
            }
            let ry = b.opt.then_some(a[0]);
            let (fm, cm) = pair_or_return!(
                "plain-month-day",
                fmd::PlainMonthDay::create_with_overflow(a[1] as u8, a[2] as u8, &fc, fopt::ArithmeticOverflow::Reject, ry),
                PlainMonthDay::new_with_overflow(a[1] as u8, a[2] as u8, cc.clone(), ArithmeticOverflow::Reject, ry)
            );
            match func {
                "with" => with_partial!(b, pp, &fc2, &cc2, |fp| fr(fm.with(fp, ovf_f)), |cp| show_res(cm.with(cp, ovf_c))),
                "iso_year" => both!(ok(fm.iso_year()), ok(cm.iso_year())),
                "iso_month" => both!(ok(fm.iso_month()), ok(cm.iso_month())),
                "iso_day" => both!(ok(fm.iso_day()), ok(cm.iso_day())),
                "calendar" => both!(ok(fm.calendar().identifier()), ok(cm.calendar().identifier())),
                "month_code" => both!(ok(written(|w| fm.month_code(w)).1), ok(cm.month_code().as_str().to_string())),
                "to_plain_date" => both!(fr(fm.to_plain_date()), show_res(cm.to_plain_date())),
                _ => Out::NoInput("unknown-function"),
            }
        }
        "PlainYearMonth" => {
            let b = &super::gen19::project_units(b, 9, 10, false);
            if func == "create_with_overflow" {
                let rd = b.opt.then_some(raw[2] as u8);
                return both!(
                    fr(fym::PlainYearMonth::create_with_overflow(raw[0], raw[1] as u8, rd, &fc, ovf_f)),
                    show_res(PlainYearMonth::new_with_overflow(raw[0], raw[1] as u8, rd, cc.clone(), ovf_c)),
                );
            }
            let mk = |x: &[i32; 9], rd: Option<u8>, fcal_: &fcal::Calendar, ccal_: &Calendar| {
                (
                    fym::PlainYearMonth::create_with_overflow(x[0], x[1] as u8, rd, fcal_, fopt::ArithmeticOverflow::Reject),
                    PlainYearMonth::new_with_overflow(x[0], x[1] as u8, rd, ccal_.clone(), ArithmeticOverflow::Reject),
                )
            };
            let rd = b.opt.then_some(a[2] as u8);
            let (f0, c0) = mk(a, rd, &fc, &cc);
            let (fy, cy) = pair_or_return!("plain-year-month", f0, c0);
            match func {
                "with" => with_partial!(b, pp, &fc2, &cc2, |fp| fr(fy.with(fp, ovf_opt_f)), |cp| show_res(cy.with(cp, ovf_opt_c))),
                "iso_year" => both!(ok(fy.iso_year()), ok(cy.iso_year())),
                "padded_iso_year_string" => both!(ok(written(|w| fy.padded_iso_year_string(w)).1), ok(cy.padded_iso_year_string())),
                "iso_month" => both!(ok(fy.iso_month()), ok(cy.iso_month())),
                "year" => both!(ok(fy.year()), ok(cy.year())),
                "month" => both!(ok(fy.month()), ok(cy.month())),
                "month_code" => both!(ok(written(|w| fy.month_code(w)).1), ok(cy.month_code().as_str().to_string())),
                "in_leap_year" => both!(ok(fy.in_leap_year()), ok(cy.in_leap_year())),
                "days_in_month" => both!(ok(fy.days_in_month()), ok(cy.days_in_month())),
                "days_in_year" => both!(ok(fy.days_in_year()), ok(cy.days_in_year())),
                "months_in_year" => both!(ok(fy.months_in_year()), ok(cy.months_in_year())),
                "era" => both!(ok(written(|w| fy.era(w)).1), ok(cy.era().map(|e| e.to_string()).unwrap_or_default())),
                "era_year" => both!(ok(fy.era_year()), ok(cy.era_year())),
                "calendar" => both!(ok(fy.calendar().identifier()), ok(cy.calendar().identifier())),
                "add" | "subtract" => {
                    let (fdu, cdu) = pair_or_return!("duration", ffi_duration(durv), core_duration(durv));
                    if func == "add" {
                        both!(fr(fy.add(&fdu, ovf_f)), show_res(cy.add(&cdu, ovf_c)))
                    } else {
                        both!(fr(fy.subtract(&fdu, ovf_f)), show_res(cy.subtract(&cdu, ovf_c)))
                    }
                }
                "until" | "since" => {
                    let (f1, c1) = mk(&b.b, None, &fc2, &cc2);
                    let (fo, co) = pair_or_return!("plain-year-month", f1, c1);
                    if func == "until" {
                        both!(fr(fy.until(&fo, f_diff(b))), show_res(c_diff(b).and_then(|s| cy.until(&co, s))))
                    } else {
                        both!(fr(fy.since(&fo, f_diff(b))), show_res(c_diff(b).and_then(|s| cy.since(&co, s))))
                    }
                }
                "to_plain_date" => both!(fr(fy.to_plain_date()), show_res(cy.to_plain_date())),
                _ => Out::NoInput("unknown-function"),
            }
        }
        _ => Out::NoInput("unknown-function"),
    }
}

fn ftime_dur(t: [f64; 6]) -> Result<Box<fdur::TimeDuration>, FErr> {
    fdur::TimeDuration::new(t[0], t[1], t[2], t[3], t[4], t[5])
}
fn core_time_dur(t: [f64; 6]) -> TemporalResult<TimeDuration> {
    TimeDuration::new(
        FiniteF64::try_from(t[0])?,
        FiniteF64::try_from(t[1])?,
        FiniteF64::try_from(t[2])?,
        FiniteF64::try_from(t[3])?,
        FiniteF64::try_from(t[4])?,
        FiniteF64::try_from(t[5])?,
    )
}

pub struct CapiSub;

/// is this bundle's month-code text rejected by the core with a RangeError while the FFI conversion
/// substitutes a SyntaxError? (defect model for the narrow signature)
fn month_code_kind_defect(b: &Bundle, ffi: &R, core: &R) -> bool {
    let pp = PartialPair::of(b);
    !pp.mcode.is_empty() && MonthCode::try_from_utf8(pp.mcode.as_bytes()).is_err() && *ffi == Err("Syntax".to_string()) && *core == Err("Range".to_string())
}

impl SubCheck for CapiSub {
    type Case = Bundle;
    fn name(&self) -> &'static str {
        "capi"
    }
    fn eval(&self, b: &Bundle) -> Outcome {
        set_cur(&b.f);
        let label = static_name(&NAMES, &b.f);
        let mut o = Outcome::pass().class(label).nontrivial(true);
        o = o.class(if b.cal == "iso8601" { "calendar:iso8601" } else { "calendar:non-iso" });
        // the whole evaluation is guarded by the engine; a panic on either side is reported with its location
        let out = run_one(b);
        if let Out::Both(f, c) = &out {
            if f != c && month_code_kind_defect(b, f, c) {
                return o.class("core:Err").fail(SIG_MONTH_CODE, format!("{c:?}"), format!("{f:?}"));
            }
        }
        super::conv19::out_to_outcome(o, label, "capi", out)
    }
}

pub const SIG_MONTH_CODE: &str = "C19/capi/PartialDate/invalid-month-code-reported-as-Syntax-not-Range";
