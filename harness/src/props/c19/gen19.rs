//! C19 input bundle: one flat record holding every piece of argument material any wrapper may need.
//! A case = (function name, bundle); each function picks the fields it uses. All randomness is drawn
//! here (proptest strategies), so shrinking and replay work on the whole record.

use crate::gen::boxed_union;
use crate::refm::civil::{dim, MAX_INSTANT};
use proptest::prelude::*;
use serde::{Deserialize, Serialize};

/// zones used by Part A: (identifier, standard offset in minutes). The offset is only used to place
/// the generated wall-clock reading near the intended instant; the check itself never relies on it.
pub const ZONES: [(&str, i32); 16] = [
    ("UTC", 0),
    ("America/New_York", -300),
    ("Europe/London", 0),
    ("Asia/Kolkata", 330),
    ("Australia/Lord_Howe", 630),
    ("Europe/Dublin", 60),
    ("America/St_Johns", -210),
    ("Asia/Kathmandu", 345),
    ("Pacific/Chatham", 765),
    ("America/Sao_Paulo", -180),
    ("+00:00", 0),
    ("+05:30", 330),
    ("-08:00", -480),
    ("+14:00", 840),
    ("-03:30", -210),
    ("-00:01", -1),
];

pub const CALS: [&str; 17] = [
    "iso8601",
    "gregory",
    "japanese",
    "buddhist",
    "roc",
    "coptic",
    "ethiopic",
    "ethioaa",
    "hebrew",
    "indian",
    "persian",
    "chinese",
    "dangi",
    "islamic-civil",
    "islamic-tbla",
    "islamic-umalqura",
    "islamic",
];

pub const MONTH_CODES: [&str; 14] = ["M01", "M02", "M05", "M06", "M12", "M13", "M05L", "M06L", "M00", "M1", "X01", "M001", "m03", "M0AL"];
/// every era name and alias the crate knows (src/builtins/core/calendar/era.rs; lengths up to 19 bytes), plus names
/// that are too long, exactly 16 / 17 bytes long, or in upper case
pub const ERAS: [&str; 47] = [
    "ad", "ah", "am", "ap", "bc", "bce", "be", "before-roc", "buddhist", "ce", "chinese", "coptic", "coptic-inverse", "dangi", "default", "ethioaa", "ethiopic", "ethiopic-amete-alem", "gregory", "gregory-inverse", "hebrew", "heisei", "incar", "indian", "islamic", "islamic-civil", "islamic-rgsa", "islamic-tbla", "islamic-umalqura", "islamicc", "japanese", "japanese-inverse", "meiji", "minguo", "mundi", "persian", "reiwa", "roc", "roc-inverse", "saka", "showa", "taisho", "this-era-name-is-far-too-long", "sixteen-bytes-16", "seventeen-bytes17", "AH", "Reiwa",
];

#[derive(Serialize, Deserialize, Debug, Clone)]
pub struct Bundle {
    /// wrapper under test ("Type::method")
    pub f: String,
    /// receiver fields y, mo, d, h, mi, s, ms, us, ns - pairwise distinct by construction
    pub a: [i32; 9],
    /// second operand, same construction
    pub b: [i32; 9],
    pub zone: String,
    pub zone2: String,
    pub cal: String,
    pub cal2: String,
    /// duration fields (integral doubles), one sign
    pub dur: [i64; 10],
    pub dur2: [i64; 10],
    /// 0 = none, 1 = NaN, 2 = +inf, 3 = -inf, 4 = +0.5 (fraction) injected into field `k % n`
    pub fspecial: u8,
    /// generic small selector (field index, variant index ...)
    pub k: u8,
    /// generic toggle (Option argument present, direction, ...)
    pub opt: bool,
    /// overflow option: None | 0 constrain | 1 reject
    pub ovf: Option<u8>,
    /// largest/smallest unit (index in the FFI numbering 0=Auto,1=ns..10=year), rounding mode 0..9, increment
    pub lu: Option<u8>,
    pub su: Option<u8>,
    pub rm: Option<u8>,
    pub inc: Option<u32>,
    /// display calendar / offset / time zone selectors
    pub dc: u8,
    pub doff: u8,
    pub dtz: u8,
    /// to-string precision
    pub pmin: bool,
    pub pdig: Option<u8>,
    /// disambiguation / offset disambiguation
    pub disamb: u8,
    pub offd: u8,
    /// subset mask for partial records (bit i = field i present)
    pub mask: u16,
    /// raw (possibly invalid) constructor arguments y, mo, d, h, mi, s, ms, us, ns
    pub raw: [i32; 9],
    /// month code / era text for partial records ("" = absent)
    pub mcode: String,
    pub era: String,
    pub era_year: i32,
    /// instants
    pub ns: i128,
    pub ns2: i128,
    /// string argument (parsers, identifiers)
    pub s: String,
}

fn kth_unused(frac: u16, lo: i32, hi: i32, used: &[i32]) -> i32 {
    // monotone map of frac in 0..1000 to the k-th value of lo..=hi that is not in `used`
    let avail: Vec<i32> = (lo..=hi).filter(|v| !used.contains(v)).collect();
    let idx = (frac as usize * avail.len()) / 1000;
    avail[idx.min(avail.len() - 1)]
}

/// nine pairwise distinct fields for a given year
pub fn distinct_fields(y: i32, fr: [u16; 8]) -> [i32; 9] {
    let mut used: Vec<i32> = vec![y];
    let mo = kth_unused(fr[0], 1, 12, &used);
    used.push(mo);
    // one third of the days are among the last three of the month (date arithmetic is only asymmetric there, so a
    // wrapper that swaps receiver and argument or since/until is only visible there)
    let dm = dim(y as i64, mo as u8) as i32;
    let end = dm - (fr[1] / 3 % 3) as i32;
    let d = if fr[1] % 3 == 0 && !used.contains(&end) { end } else { kth_unused(fr[1], 1, dm, &used) };
    used.push(d);
    let h = kth_unused(fr[2], 0, 23, &used);
    used.push(h);
    let mi = kth_unused(fr[3], 0, 59, &used);
    used.push(mi);
    let s = kth_unused(fr[4], 0, 59, &used);
    used.push(s);
    let ms = kth_unused(fr[5], 0, 999, &used);
    used.push(ms);
    let us = kth_unused(fr[6], 0, 999, &used);
    used.push(us);
    let ns = kth_unused(fr[7], 0, 999, &used);
    [y, mo, d, h, mi, s, ms, us, ns]
}

pub fn all_distinct(v: &[i32]) -> bool {
    for i in 0..v.len() {
        for j in 0..i {
            if v[i] == v[j] {
                return false;
            }
        }
    }
    true
}

fn fracs() -> impl Strategy<Value = [u16; 8]> {
    // mostly uniform, sometimes pushed to the ends (first/last admissible value of a field)
    let one = || prop_oneof![6 => 0u16..1000, 1 => Just(0u16), 1 => Just(999u16)];
    [one(), one(), one(), one(), one(), one(), one(), one()]
}

fn year_any() -> BoxedStrategy<i32> {
    boxed_union(vec![
        (8, (1850i32..=2150).boxed()),
        (2, (-2000i32..=9999).boxed()),
        (1, (-271820i32..=275759).boxed()),
        (1, prop_oneof![Just(-271821i32), Just(275760), Just(0), Just(-1), Just(9999), Just(10000), Just(1970), Just(1969)].boxed()),
    ])
}
fn year_near() -> BoxedStrategy<i32> {
    boxed_union(vec![(8, (1900i32..=2100).boxed()), (2, (1600i32..=2400).boxed())])
}

/// years for named zones: the bundled provider's POSIX-rule arithmetic overflows i32 seconds after 2037
/// under overflow checks (core panic -> case unjudged), so most receivers stay at or before 2037
fn year_zone() -> BoxedStrategy<i32> {
    boxed_union(vec![(10, (1900i32..=2037).boxed()), (1, (2038i32..=2100).boxed()), (1, (1600i32..=1899).boxed())])
}

fn dur_fields() -> BoxedStrategy<[i64; 10]> {
    let small = |lim: i64| -> BoxedStrategy<i64> {
        boxed_union(vec![(5, Just(0i64).boxed()), (4, (0i64..=3).boxed()), (3, (0i64..=lim).boxed()), (1, (0i64..=lim * 1000).boxed())])
    };
    (
        prop::bool::ANY,
        (small(5), small(30), small(60), small(400), small(100)),
        (small(300), small(4000), small(100_000), small(1_000_000), small(2_000_000_000)),
        prop_oneof![8 => Just(0u8), 1 => Just(1u8), 1 => Just(2u8)],
        // shape: all fields / days and time / time only / date only
        prop_oneof![3 => Just(0u8), 3 => Just(1u8), 4 => Just(2u8), 2 => Just(3u8)],
    )
        .prop_map(|(neg, a, b, kind, shape)| {
            let mut f = [a.0, a.1, a.2, a.3, a.4, b.0, b.1, b.2, b.3, b.4];
            match shape {
                1 => f[0..3].fill(0),
                2 => f[0..4].fill(0),
                3 => f[4..10].fill(0),
                _ => {}
            }
            match kind {
                1 => {
                    // huge fields: beyond the limits
                    f[if shape == 2 { 4 } else { 0 }] = 1 << 33;
                }
                2 => {
                    f[if shape == 3 { 3 } else { 9 }] = (1i64 << 62) + 12345;
                }
                _ => {}
            }
            if neg {
                for x in f.iter_mut() {
                    *x = -*x;
                }
            }
            f
        })
        .boxed()
}

fn opt_u8(n: u8, none_w: u32) -> BoxedStrategy<Option<u8>> {
    boxed_union(vec![(none_w, Just(None).boxed()), (10, (0..n).prop_map(Some).boxed())])
}

pub fn instant_strategy() -> BoxedStrategy<i128> {
    boxed_union(vec![
        (3, crate::gen::instant_ns()),
        // within +-2^64 (sign carried only by the high word of the FFI split)
        (2, (-(1i128 << 64)..=(1i128 << 64)).boxed()),
        // low 64 bits with the top bit set
        (2, ((-468i128..=468), (1u64 << 63)..=u64::MAX).prop_map(|(h, l)| (h * (1i128 << 64) + l as i128).clamp(-MAX_INSTANT, MAX_INSTANT)).boxed()),
        // a little beyond the limits
        (1, (-20i128..=20).prop_map(|k| if k < 0 { -MAX_INSTANT + k + 10 } else { MAX_INSTANT + k - 10 }).boxed()),
        (1, (-3i128..=3).prop_map(|k| k * (1i128 << 64)).boxed()),
        (1, ((-3i128..=3), -2i128..=2).prop_map(|(k, e)| k * (1i128 << 64) + e).boxed()),
    ])
}

fn raw_fields() -> BoxedStrategy<[i32; 9]> {
    // constructor arguments: each one valid most of the time, otherwise at/over the limits of the field
    // or of the parameter type
    let fld = |lo: i32, hi: i32, over: Vec<i32>| -> BoxedStrategy<i32> {
        boxed_union(vec![(12, (lo..=hi).boxed()), (1, Just(lo).boxed()), (1, Just(hi).boxed()), (1, proptest::sample::select(over).boxed())])
    };
    (
        prop_oneof![8 => -300i32..=3000, 3 => -271822i32..=275761, 1 => Just(i32::MAX), 1 => Just(i32::MIN)],
        fld(1, 12, vec![0, 13, 14, 255]),
        fld(1, 28, vec![0, 29, 30, 31, 32, 255]),
        fld(0, 23, vec![24, 25, 255]),
        fld(0, 59, vec![60, 61, 255]),
        fld(0, 59, vec![60, 61, 255]),
        fld(0, 999, vec![1000, 1001, 65535]),
        fld(0, 999, vec![1000, 1001, 65535]),
        fld(0, 999, vec![1000, 1001, 65535]),
    )
        .prop_map(|t| [t.0, t.1, t.2, t.3, t.4, t.5, t.6, t.7, t.8])
        .boxed()
}

fn offset_text(minutes: i32) -> String {
    let sign = if minutes < 0 { '-' } else { '+' };
    let m = minutes.abs();
    format!("{}{:02}:{:02}", sign, m / 60, m % 60)
}

fn year_text(y: i32) -> String {
    if (0..=9999).contains(&y) {
        format!("{y:04}")
    } else if y < 0 {
        format!("-{:06}", -y)
    } else {
        format!("+{y:06}")
    }
}

const GARBAGE: [&str; 12] = [
    "",
    "not a date",
    "2020-13-01T00:00Z[UTC]",
    "2020-01-01T25:00[UTC]",
    "2020-01-01T00:00[Mars/Olympus]",
    "2020-01-01T00:00+00:00[UTC][u-ca=klingon]",
    "2021-02-29[Europe/London]",
    "P1Y",
    "12:34",
    "2020-01-01T00:00:00.1234567890[UTC]",
    "\u{2212}002020-01-01T00:00[UTC]",
    "2020-01-01T00:00[!UTC]",
];

/// how the string argument is composed from the bundle (Part A parsers)
fn compose_string(a: &[i32; 9], zone_idx: usize, cal: &str, style: (u8, u8, u8, u8)) -> String {
    let (off_kind, ann, calann, garbage) = style;
    if garbage < 12 {
        return GARBAGE[garbage as usize].to_string();
    }
    let (zid, zoff) = ZONES[zone_idx];
    let mut s = format!("{}-{:02}-{:02}T{:02}:{:02}:{:02}.{:03}{:03}{:03}", year_text(a[0]), a[1], a[2], a[3], a[4], a[5], a[6], a[7], a[8]);
    match off_kind {
        0 => {}
        1 => s.push('Z'),
        2 => s.push_str(&offset_text(zoff)),
        3 => s.push_str(&offset_text(zoff + 60)),
        4 => s.push_str("+00:00"),
        5 => s.push_str(&offset_text(zoff + 30)),
        _ => s.push_str("+01:23"),
    }
    if ann > 0 {
        s.push_str(&format!("[{zid}]"));
    }
    match calann {
        0 => {}
        1 => s.push_str(&format!("[u-ca={cal}]")),
        _ => s.push_str(&format!("[!u-ca={cal}]")),
    }
    s
}

/// identifier-like strings for the FFI calendar entry points
fn ident_string(k: u8, cal: &str) -> String {
    // mostly identifiers that resolve (ICU4X prints a line to stderr for every miss in debug builds)
    match k % 48 {
        32..=34 => "iso".to_string(),
        35 | 36 => "islamicc".to_string(),
        37..=39 => "japanext".to_string(),
        40 => cal.to_ascii_uppercase(),
        41 => "".to_string(),
        42 => "klingon".to_string(),
        43 => format!("{cal} "),
        44 => "ISO8601".to_string(),
        45 => "Gregory".to_string(),
        _ => cal.to_string(),
    }
}

/// the bundle strategy. `names`: wrappers to draw from; `parser_strings`: compose date-time strings
/// (Part A) instead of identifier strings (Part B).
pub fn bundle(names: Vec<&'static str>, parser_strings: bool) -> BoxedStrategy<Bundle> {
    let zone = || prop_oneof![10 => 0usize..ZONES.len(), 6 => 1usize..5];
    let cal = || prop_oneof![10 => Just(0usize), 8 => 0usize..CALS.len()];
    let near = move || if parser_strings { year_zone() } else { year_near() };
    let part1 = (proptest::sample::select(names), year_any(), near(), year_any(), near(), fracs(), fracs(), zone(), zone(), cal(), cal(), 0u8..8);
    let part2 = (dur_fields(), dur_fields(), prop_oneof![12 => Just(0u8), 1 => 1u8..=4], any::<u8>(), any::<bool>(), opt_u8(2, 6), opt_u8(11, 10), opt_u8(11, 10), opt_u8(9, 8));
    let part3 = (
        boxed_union(vec![
            (10, Just(None).boxed()),
            (3, Just(Some(1u32)).boxed()),
            (5, (2u32..=30).prop_map(Some).boxed()),
            (2, prop_oneof![Just(0u32), Just(1_000_000_000), Just(1_000_000_001), Just(u32::MAX), Just(100), Just(500), Just(1000)].prop_map(Some).boxed()),
        ]),
        0u8..4,
        0u8..2,
        0u8..3,
        prop_oneof![5 => Just(false), 1 => Just(true)],
        boxed_union(vec![(6, Just(None).boxed()), (8, (0u8..=9).prop_map(Some).boxed()), (1, (10u8..=12).prop_map(Some).boxed()), (1, Just(Some(255u8)).boxed())]),
        0u8..4,
        0u8..4,
        // partial-record subset masks: uniform, or one of the subsets that determine a date
        // (bits 0..5 = year, month, month code, day, era, era year; bits 4..9 double as the time mask)
        prop_oneof![6 => 0u16..1024, 1 => Just(0u16), 1 => Just(1023u16), 8 => (proptest::sample::select(vec![11u16, 13, 15, 11, 15, 13, 58, 63, 9, 3, 8, 2]), 0u16..16).prop_map(|(lo, hi)| lo | (hi << 6))],
        raw_fields(),
    );
    let part4 = (
        prop_oneof![5 => Just(14usize), 10 => 0usize..MONTH_CODES.len()],
        prop_oneof![5 => Just(ERAS.len()), 10 => 0usize..ERAS.len()],
        prop_oneof![6 => 1i32..=3000, 1 => -3000i32..=0, 1 => any::<i32>()],
        instant_strategy(),
        instant_strategy(),
        (prop_oneof![5 => Just(0u8), 1 => Just(1u8), 4 => Just(2u8), 2 => Just(3u8), 1 => Just(4u8), 1 => Just(5u8), 1 => Just(6u8)], 0u8..10, prop_oneof![3 => Just(0u8), 2 => Just(1u8), 1 => Just(2u8)], prop_oneof![15 => Just(12u8), 1 => 0u8..12]),
        // coupled "overflow-sensitive" mode (values < 3): receiver on the last day of its month, duration of
        // whole months only, overflow mostly Reject - the inputs on which a dropped overflow argument shows
        0u8..20,
    );
    (part1, part2, part3, part4)
        .prop_map(move |(p1, p2, p3, p4)| {
            let (f, ya, yan, yb, ybn, fa, fb, z1, z2, c1, c2, same) = p1;
            let (dur, dur2, fspecial, k, opt, ovf, lu, su, rm) = p2;
            let (inc, dc, doff, dtz, pmin, pdig, disamb, offd, mask, raw) = p3;
            let (mc, era, era_year, ns, ns2, style, mode) = p4;
            // second zone / calendar equal to the first most of the time (otherwise most binary
            // operations only exercise their error path)
            let z2 = if same & 1 == 0 { z1 } else { z2 };
            let c2 = if same & 6 != 6 { c1 } else { c2 };
            // non-ISO calendars and named zones: keep to years where ICU4X and the tz data are cheap
            let named = |z: usize| !ZONES[z].0.starts_with(['+', '-']);
            let y1 = if c1 != 0 || (parser_strings && named(z1)) { yan } else { ya };
            let y2 = if c2 != 0 || (parser_strings && named(z2)) { ybn } else { yb };
            let mut a = distinct_fields(y1, fa);
            let b = distinct_fields(y2, fb);
            let (mut dur, mut ovf) = (dur, ovf);
            if mode < 3 {
                a[2] = dim(a[0] as i64, a[1] as u8) as i32;
                let m = (k % 12) as i64 + 1;
                dur = [0, if opt { m } else { -m }, 0, 0, 0, 0, 0, 0, 0, 0];
                if mode < 2 {
                    ovf = Some(1);
                }
            }
            // coupled "transition" mode (values 3..=6): any real IANA zone, receiver within a day of one of its
            // listed transitions (transitions near a local midnight or with an unusual shift are preferred): the
            // inputs on which start-of-day / hours-in-day / wall-clock arithmetic wrappers can differ from a
            // look-alike core method. The fields of `a` are then the UTC reading of the instant (an identifier
            // outside ZONES is placed with offset 0).
            let mut zone_name = ZONES[z1].0.to_string();
            let mut zone2_name = ZONES[z2].0.to_string();
            if (3..=6).contains(&mode) {
                let pts = transition_points();
                if !pts.is_empty() {
                    let h = (ns.unsigned_abs() as usize).wrapping_mul(2654435761) ^ (k as usize) << 7 ^ era_year as usize;
                    // one transition-mode case in eight goes to the class "the skipped interval contains a local
                    // midnight strictly inside" (the day starts at neither 00:00 nor the resolution of 00:00)
                    let strict = midnight_inside_gap_points();
                    let use_strict = (h >> 3) % 8 == 0 && !strict.is_empty();
                    let (name, t) = if use_strict { &strict[(h >> 6) % strict.len()] } else { &pts[h % pts.len()] };
                    let delta = match if use_strict { 3 } else { (h >> 20) % 8 } {
                        0 => 0i64,
                        1 => -1,
                        // within two hours after / before the transition (inside the repeated or next to the
                        // skipped stretch)
                        6 => ((h >> 8) % 7200) as i64,
                        7 => -(((h >> 8) % 7200) as i64),
                        2 => -86_400 + ((h >> 8) % 7200) as i64,
                        3 => ((h >> 8) % 86_400) as i64,
                        4 => -(((h >> 8) % 86_400) as i64),
                        _ => 86_400 - ((h >> 8) % 7200) as i64,
                    };
                    let inst = t + delta;
                    let (y, mo, d) = crate::refm::civil::from_days(inst.div_euclid(86_400));
                    let sod = inst.rem_euclid(86_400);
                    if (-270_000..=270_000).contains(&y) {
                        a = [y as i32, mo as i32, d as i32, (sod / 3600) as i32, (sod / 60 % 60) as i32, (sod % 60) as i32, a[6], a[7], a[8]];
                        zone_name = name.clone();
                        if same & 1 == 0 {
                            zone2_name = name.clone();
                        }
                    }
                }
            }
            // observational / lunisolar calendars take seconds to minutes per conversion far from the present (ICU4X;
            // a liveness matter reported by C03/C16): keep raw constructor years near the present for them
            let slow = |c: usize| matches!(CALS[c], "islamic" | "islamic-umalqura" | "chinese" | "dangi");
            let mut raw = raw;
            if slow(c1) || slow(c2) {
                raw[0] = raw[0].clamp(-8000, 8000);
            }
            let s = if parser_strings { compose_string(&a, z1, CALS[c1], style) } else { ident_string(k, CALS[c1]) };
            Bundle {
                f: f.to_string(),
                a,
                b,
                zone: zone_name,
                zone2: zone2_name,
                cal: CALS[c1].to_string(),
                cal2: CALS[c2].to_string(),
                dur,
                dur2,
                fspecial,
                k,
                opt,
                ovf,
                lu,
                su,
                rm,
                inc,
                dc,
                doff,
                dtz,
                pmin,
                pdig,
                disamb,
                offd,
                mask,
                raw,
                mcode: MONTH_CODES.get(mc).copied().unwrap_or("").to_string(),
                era: ERAS.get(era).copied().unwrap_or("").to_string(),
                era_year,
                ns,
                ns2,
                s,
            }
        })
        .boxed()
}

pub fn zone_std_offset_minutes(id: &str) -> i32 {
    ZONES.iter().find(|z| z.0 == id).map(|z| z.1).unwrap_or(0)
}

/// Units projected into the family `lo..=hi` (FFI numbering) a type accepts, ordered smallest <= largest,
/// for three quarters of the cases (k % 4 != 0); the rest keep the raw, mostly inadmissible, choice.
/// A pure function of the bundle, so the case JSON still determines the inputs.
pub fn project_units(b: &Bundle, lo: u8, hi: u8, require_smallest: bool) -> Bundle {
    let mut c = b.clone();
    if b.k % 4 == 0 {
        return c;
    }
    let n = hi - lo + 1;
    c.lu = b.lu.map(|u| lo + u % n);
    c.su = b.su.map(|u| lo + u % n);
    if require_smallest && c.su.is_none() {
        c.su = Some(lo + (b.k / 4) % n);
    }
    if let (Some(l), Some(s)) = (c.lu, c.su) {
        if s > l {
            c.lu = Some(s);
            c.su = Some(l);
        }
    }
    c
}


/// (zone, transition second) pairs of every real zone's listed transitions; transitions whose local time just
/// before or after lies within 90 minutes of a midnight, or whose shift is not one hour, are listed four times.
pub fn transition_points() -> &'static Vec<(String, i64)> {
    static T: std::sync::OnceLock<Vec<(String, i64)>> = std::sync::OnceLock::new();
    T.get_or_init(|| {
        let mut out = vec![];
        for z in crate::props::c13::real_tables() {
            for (i, (t, after)) in z.trans.iter().enumerate() {
                let before = if i == 0 { z.initial } else { z.trans[i - 1].1 };
                if before == *after || *t < -5_000_000_000 {
                    continue;
                }
                let near_midnight = |w: i64| {
                    let s = w.rem_euclid(86_400);
                    s <= 5400 || s >= 86_400 - 5400
                };
                let special = near_midnight(t + before) || near_midnight(t + after) || (after - before).abs() != 3600;
                for _ in 0..(if special { 4 } else { 1 }) {
                    out.push((z.name.clone(), *t));
                }
            }
        }
        out
    })
}


/// listed transitions of real zones whose skipped wall-clock interval contains a local midnight strictly inside
pub fn midnight_inside_gap_points() -> &'static Vec<(String, i64)> {
    static T: std::sync::OnceLock<Vec<(String, i64)>> = std::sync::OnceLock::new();
    T.get_or_init(|| {
        let mut out = vec![];
        for z in crate::props::c13::real_tables() {
            for (i, (t, after)) in z.trans.iter().enumerate() {
                let before = if i == 0 { z.initial } else { z.trans[i - 1].1 };
                if *after > before && *t >= -5_000_000_000 {
                    let (w0, w1) = (t + before, t + after);
                    let m = (w0.div_euclid(86_400) + 1) * 86_400;
                    if w0 < m && m < w1 {
                        out.push((z.name.clone(), *t));
                    }
                }
            }
        }
        out
    })
}
